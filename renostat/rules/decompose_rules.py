"""Abstract runs of the two one-site decompositions of the operator builders (_decompose_graph, _decompose_qr) on exact data (renostat/xnp.py): whatever the functions'
internal spelling, the (out operators, new table, new factors) they return must reproduce the coefficient table they were given, entry by entry:

    Gamma[j, k]  =  sum over new-table rows t = (l, column symbol k)  of  new_factor[t] * (factor of the out operator of bond l built on row symbol j)

The graph method's vertex cover is computed by bipartite_vertex_cover from its own source (the matching of scipy is replaced by an augmenting-path matching on the tiny
graphs); the QR factorisation of scipy is an oracle: it answers only for the coefficient matrices of the cases, with an exact pivoted factorisation prepared for them."""
from fractions import Fraction as Fr

from ..src import AnalysisError
from ..syminterp import SymInterp, Sym, Blob, SymRaise
from .. import xnp

SYMF, BM = "renormalizer/mps/symbolic_mpo.py", "renormalizer/lib/bipartite_matching/bipartite_matching.py"
PRIMES = [2, 3, 5, 7, 11, 13, 17, 19, 23, 29, 31, 37, 41, 43]


class _Op(Sym):
    def __init__(self, symbol, qn, factor=1):
        super().__init__("OpTuple")
        self.symbol, self.qn, self.factor = symbol, qn, factor

    def _replace(self, **kw):
        return _Op(kw.get("symbol", self.symbol), kw.get("qn", self.qn), kw.get("factor", self.factor))

    def __repr__(self):
        return f"OpTuple({self.symbol}, factor={self.factor})"


def _problem(term_row, term_col, entries):
    """entries: {(j, k): coefficient}; the sparse matrix stores 1 + the position of the coefficient in the running vector, as _construct_symbolic_mpo_one_site does"""
    keys = sorted(entries)
    factor = xnp.XA([Fr(entries[k]) for k in keys])
    non_red = xnp.XS((len(term_row), len(term_col)), [(j, k, keys.index((j, k)) + 1) for j, k in keys])
    return non_red, factor


def _reconstruct(term_row, term_col, res):
    """coefficient of every (row symbol, column symbol) pair the result stands for"""
    if not (isinstance(res, tuple) and len(res) == 3):
        return None, f"returns {str(res)[:80]}; expected (out operators, table, factors)"
    out_ops, table, fac = res
    try:
        table = xnp.asx(table)
        fac = xnp.asx(fac).flatten()
    except AnalysisError as e:
        return None, f"table / factors are not arrays: {e}"
    if table.ndim != 2 or table.shape[0] != fac.size:
        return None, f"new table of shape {table.shape} with {fac.size} factors"
    got = {}
    rows = table.tolist()
    for t, row in enumerate(rows):
        l_, colsym = int(row[0]), tuple(int(x) for x in row[1:])
        if colsym not in term_col:
            return None, f"new table row {row} names no column symbol of the input"
        if not 0 <= l_ < len(out_ops):
            return None, f"new table row {row} refers to out operator {l_} of {len(out_ops)}"
        k = term_col.index(colsym)
        for op in out_ops[l_]:
            if tuple(op.symbol) not in term_row:
                return None, f"out operator built on the unknown row symbol {op.symbol}"
            j = term_row.index(tuple(op.symbol))
            got[(j, k)] = got.get((j, k), 0) + Fr(op.factor) * Fr(fac.flat[t])
    return {k_: v for k_, v in got.items() if v != 0}, None


def _matching(graph, perm_type=None):
    # any maximum matching of the tiny graph (augmenting paths); match[v] = u or -1, as scipy's maximum_bipartite_matching(perm_type='row')
    match = [-1] * graph.shape[1]

    def aug(u, seen):
        for v in graph.adj[u]:
            if v not in seen:
                seen.add(v)
                if match[v] == -1 or aug(match[v], seen):
                    match[v] = u
                    return True
        return False
    for u in range(len(graph.adj)):
        aug(u, set())
    return match


class _Graph(Sym):
    def __init__(self, adj, ncol):
        super().__init__("graph")
        self.adj, self.shape = adj, (len(adj), ncol)


def _csr_matrix(arg, shape=None, **k):
    _data, (ri, ci) = arg
    ri, ci = [int(x) for x in ri], [int(x) for x in ci]
    nrow = shape[0] if shape else max(ri) + 1
    adj = [[] for _ in range(nrow)]
    for a, b in zip(ri, ci):
        adj[a].append(b)
    return _Graph(adj, shape[1] if shape else max(ci) + 1)


def _interp(src, extra):
    it = SymInterp(src, None, {})
    it.max_depth = 8
    bv = src.func(BM, "bipartite_vertex_cover")

    npx_bv = xnp.namespace()
    it_bv = SymInterp(src, None, {"np": npx_bv, "csr_matrix": _csr_matrix, "maximum_bipartite_matching": _matching})
    it_bv.max_depth = 8

    def cover(bigraph, algo="Hopcroft-Karp"):
        a, b = it_bv.call_function(bv, [[[int(v) for v in x] for x in bigraph]], {"algo": algo})
        return [bool(x) for x in a], [bool(x) for x in b]
    it.builtins.update({"np": xnp.namespace(), "bipartite_vertex_cover": cover, "OpTuple": _Op, "_compute_qn": lambda *a, **k: 0, "logger": Blob("logger")})
    it.builtins.update(extra)
    return it


GRAPH_CASES = [
    # name, rows, columns, entries {(j, k): coefficient}
    ("1 x 1 table", 1, 1, {(0, 0): 2}),
    ("2 x 1 table", 2, 1, {(0, 0): 2, (1, 0): 3}),
    ("3 x 1 table", 3, 1, {(0, 0): 2, (1, 0): 3, (2, 0): 5}),
    ("1 x 3 table", 1, 3, {(0, 0): 2, (0, 1): 3, (0, 2): 5}),
    ("2 x 2 diagonal", 2, 2, {(0, 0): 2, (1, 1): 3}),
    ("2 x 2 full", 2, 2, {(0, 0): 2, (0, 1): 3, (1, 0): 5, (1, 1): 7}),
    ("3 x 3 star and diagonal", 3, 3, {(0, 0): 2, (0, 1): 3, (0, 2): 5, (1, 1): 7, (2, 2): 11}),
    ("3 x 3 row hub and column hub sharing an entry", 3, 3, {(0, 0): 2, (0, 1): 3, (0, 2): 5, (1, 2): 7, (2, 2): 11}),
    ("4 x 4 two hubs sharing an entry and a separate pair", 4, 4, {(0, 0): 2, (0, 1): 3, (0, 2): 5, (1, 2): 7, (2, 2): 11, (3, 3): 13}),
    ("3 x 4 row star, column star and an isolated entry", 3, 4, {(0, 0): 2, (0, 1): 3, (0, 2): 5, (1, 2): 7, (2, 2): 11, (2, 3): 13, (1, 3): 17}),
    ("4 x 2 two column stars", 4, 2, {(0, 0): 2, (1, 0): 3, (2, 1): 5, (3, 1): 7, (1, 1): 11}),
]


def _symbols(n, width, base):
    return [tuple([base + i] + [0] * (width - 1)) for i in range(n)]


def graph_rule(chk, src, rule=None, rule_terminal=None, premise_consumed=False, where_tt=""):
    fi = src.func(SYMF, "_decompose_graph")
    for algo in ("Hopcroft-Karp", "Hungarian"):
        for name, nr, nc, ent in GRAPH_CASES:
            term_row, term_col = _symbols(nr, 2, 1), _symbols(nc, 3, 20)
            non_red, factor = _problem(term_row, term_col, ent)
            it = _interp(src, {})
            probs, res = [], None
            try:
                res = it.call_function(fi, [list(term_row), list(term_col), non_red, Blob("in_ops_list"), factor, Blob("primary_ops"), algo])
            except (SymRaise, IndexError, ValueError, AssertionError, ZeroDivisionError) as e:
                probs.append(f"{type(e).__name__}: {e}")
            got = None
            if res is not None:
                got, err = _reconstruct(term_row, term_col, res)
                if err:
                    probs.append(err)
                elif got != {k: Fr(v) for k, v in ent.items()}:
                    probs.append(f"the result stands for {dict((k, str(v)) for k, v in sorted(got.items()))}; the table given is {dict(sorted(ent.items()))}")
            if rule:
                chk.ob(rule, f"_decompose_graph[{name}, {algo}]", not probs, fi.where, probs[:2] or "coefficient table reproduced", "out operators x new table x new factors = the coefficient table given",
                       line=fi.node.lineno, detail="every (left operator, right operator) pair of the table must come back with its coefficient, from the vertex cover's rows "
                       "(coefficient in the new factor) or columns (coefficient in the complementary operator): " + (probs[0] if probs else ""))
            if rule_terminal and nc == 1:
                key = f"_decompose_graph[{name[:5]} table, {algo}]"
                if premise_consumed:
                    chk.ob(rule_terminal, key, True, fi.where, "leftover coefficients are consumed after the root", "n/a", line=fi.node.lineno)
                    continue
                left = None
                if res is not None and isinstance(res, tuple) and len(res) == 3:
                    try:
                        left = [str(v) for v in xnp.asx(res[2]).flatten().flat if v != 1]
                    except AnalysisError:
                        left = None
                ok = not probs and left == []
                chk.ob(rule_terminal, key, ok, fi.where, {"coefficients left in the running vector": left, "problems": probs[:1]}, {"coefficients left in the running vector": []}, line=fi.node.lineno,
                       detail=f"a {name[:5]} table covered through a row: the row's out-operator gets factor 1.0 and the coefficient stays in the running vector, which {where_tt} "
                              "discards after the root - the tree operator then carries coefficient 1 for that term while the chain builder (sentinel column) stays exact")


def _qr_cases():
    """(name, gamma as exact matrix, oracle answer (q, r, p) or None when no factorisation may be requested)"""
    F = Fr
    cases = []
    # single column: the factorisation is not needed; an implementation that asks for it anyway gets the exact answer (column / norm, norm)
    for name, col, norm in (("1 x 1, single column", [5], 5), ("2 x 1, single column", [3, 4], 5), ("3 x 1, single column", [2, 3, 6], 7)):
        g = [[F(v)] for v in col]
        cases.append((name, g, ([[F(v, norm)] for v in col], [[F(norm)]], [0])))
    # single column whose overall scale is far below the absolute tolerances of the code: the coefficients are still the operator
    tiny = F(1, 10 ** 12)
    cases.append(("2 x 1, single column of overall scale 1e-12", [[3 * tiny], [4 * tiny]], ([[F(3, 5)], [F(4, 5)]], [[5 * tiny]], [0])))
    # several columns: gamma[:, p] = q r with orthonormal rational columns of q, upper-triangular r with decreasing diagonal
    def build(q, r, p):
        R_, K, C = len(q), len(r), len(r[0])
        gp = [[sum(q[i][l] * r[l][c] for l in range(K)) for c in range(C)] for i in range(R_)]
        g = [[None] * C for _ in range(R_)]
        for c in range(C):
            for i in range(R_):
                g[i][p[c]] = gp[i][c]
        return g
    q22 = [[F(3, 5), F(-4, 5)], [F(4, 5), F(3, 5)]]
    cases.append(("2 x 2, full rank, pivoted", build(q22, [[F(10), F(5)], [F(0), F(5)]], [1, 0]), (q22, [[F(10), F(5)], [F(0), F(5)]], [1, 0])))
    cases.append(("1 x 3, one row and several columns", build([[F(1)]], [[F(7), F(3), F(2)]], [2, 0, 1]), ([[F(1)]], [[F(7), F(3), F(2)]], [2, 0, 1])))
    q32 = [[F(2, 7), F(3, 7)], [F(3, 7), F(-6, 7)], [F(6, 7), F(2, 7)]]
    cases.append(("3 x 2, rank deficient", build(q32, [[F(14), F(7)], [F(0), F(0)]], [1, 0]), (q32, [[F(14), F(7)], [F(0), F(0)]], [1, 0])))
    cases.append(("3 x 2, full rank", build(q32, [[F(14), F(7)], [F(0), F(-7)]], [0, 1]), (q32, [[F(14), F(7)], [F(0), F(-7)]], [0, 1])))
    q23 = [[F(3, 5), F(-4, 5)], [F(4, 5), F(3, 5)]]
    r23 = [[F(15), F(5), F(10)], [F(0), F(-10), F(5)]]
    cases.append(("2 x 3, wide, pivoted", build(q23, r23, [2, 0, 1]), (q23, r23, [2, 0, 1])))
    return cases


def qr_rule(chk, src, rule, rule_shortcut=None):
    fi = src.func(SYMF, "_decompose_qr")
    for name, g, oracle in _qr_cases():
        nr, nc = len(g), len(g[0])
        term_row, term_col = _symbols(nr, 2, 1), _symbols(nc, 3, 20)
        ent = {(j, k): g[j][k] for j in range(nr) for k in range(nc) if g[j][k] != 0}
        non_red, factor = _problem(term_row, term_col, ent)
        asked = []

        def qr(a, mode="full", pivoting=False, oracle=oracle, g=g, asked=asked, **k):
            a = xnp.asx(a)
            asked.append(a.shape)
            if a.tolist() != g:
                raise AnalysisError(f"scipy.linalg.qr is asked to factorise {a.tolist()}: the oracle only knows the coefficient matrix of the case")
            if mode != "economic" or not pivoting:
                raise AnalysisError(f"scipy.linalg.qr(mode={mode!r}, pivoting={pivoting!r}): the oracle answers the economic pivoted factorisation only")
            q, r, p = oracle
            return xnp.XA(q), xnp.XA(r), xnp.XA(p)
        lin = Sym("scipy.linalg", qr=qr)
        it = _interp(src, {"scipy": Sym("scipy", linalg=lin), "qr": qr})
        probs, res = [], None
        try:
            res = it.call_function(fi, [list(term_row), list(term_col), non_red, Blob("in_ops_list"), factor, Blob("primary_ops"), "qr"])
        except (SymRaise, IndexError, ValueError, AssertionError, ZeroDivisionError) as e:
            probs.append(f"{type(e).__name__}: {e}")
        if res is not None:
            got, err = _reconstruct(term_row, term_col, res)
            if err:
                probs.append(err)
            elif got != ent:
                probs.append(f"the result stands for {dict((k, str(v)) for k, v in sorted(got.items()))}; the coefficient matrix given is {dict((k, str(v)) for k, v in sorted(ent.items()))}")
        which = rule_shortcut if (rule_shortcut and (nc == 1 or nr == 1)) else rule
        chk.ob(which, f"_decompose_qr[{name}]", not probs, fi.where, probs[:2] or {"coefficient matrix reproduced": True, "factorisation requested": bool(asked)},
               "sum_l (sum_j q[j,l] L_j) x (sum_k r[l,k] R_k) = the coefficient matrix given", line=fi.node.lineno,
               detail="the factorisation (or the shortcut q = gamma, r = [[1]], p = [0], valid for a single column only) must reproduce every coefficient: with more than one column "
                      "r = [[1]] drops every column but the first, i.e. all terms whose right part is not the first unique right operator: " + (probs[0] if probs else ""))


# ------------------------------------------------------------------------------------------ whole builders on exact term tables (graph algorithms)
TTNOB = "renormalizer/tn/symbolic_ttno.py"
# primary operators: index -> quantum number (0 is the identity); every term table below has total quantum number 0
PRIMARY_QN = {0: 0, 1: 1, 2: -1, 3: 0}


def _tables(nsite):
    """term tables over nsite columns: primary-operator indices per site, rows distinct, coefficients distinct primes"""
    def pad(rows):
        return [tuple(list(r) + [0] * (nsite - len(r)))[:nsite] for r in rows]
    out = []
    out.append(("single term", pad([(1, 2)])))
    out.append(("nearest-neighbour hopping and on-site terms", [tuple(1 if j == i else 2 if j == i + 1 else 0 for j in range(nsite)) for i in range(nsite - 1)]
                + [tuple(2 if j == i else 1 if j == i + 1 else 0 for j in range(nsite)) for i in range(nsite - 1)] + [tuple(3 if j == i else 0 for j in range(nsite)) for i in range(nsite)]))
    out.append(("one site coupled to all others (shared prefix / shared suffix)", [tuple(1 if j == 0 else 2 if j == i else 0 for j in range(nsite)) for i in range(1, nsite)]
                + [tuple(2 if j == nsite - 1 else 1 if j == i else 0 for j in range(nsite)) for i in range(0, nsite - 1)]))
    if nsite >= 4:
        out.append(("long-range pairs and a four-site string", [tuple(1 if j == a else 2 if j == b else 0 for j in range(nsite)) for a in range(nsite) for b in range(nsite) if a < b and (a + b) % 2 == 1]
                    + [tuple([1, 2, 1, 2] + [0] * (nsite - 4))] + [tuple([0] * nsite)]))
    if nsite == 5:
        import itertools
        out.append(("all 32 products of one neutral operator (a bond with more operators than there are primary operators)", [tuple(r) for r in itertools.product((0, 3), repeat=5)]))
    res = []
    for name, rows in out:
        rows = list(dict.fromkeys(rows))
        res.append((name, rows, PRIMES[:len(rows)] if len(rows) <= len(PRIMES) else [PRIMES[i % len(PRIMES)] + 47 * (i // len(PRIMES)) for i in range(len(rows))]))
    return res


def _qnval(q):
    if isinstance(q, xnp.XA):
        vals = set(q.flat)
        if len(vals) > 1:
            raise AnalysisError(f"quantum number with several components {q!r} in a one-component run")
        return vals.pop() if vals else 0
    return q


def _primary_ops():
    return [Sym(f"primary{i}", qn=q) for i, q in sorted(PRIMARY_QN.items())]


def _expand(out_ops, child_values, nphys, positions):
    """value of every out operator of one node: {string (dict position -> primary index, as a sorted tuple): coefficient}; child_values = values of the incoming bonds, in order"""
    vals, probs, qns = [], [], []
    for l_, comp in enumerate(out_ops):
        acc = {}
        qn_here = set()
        if not isinstance(comp, (list, tuple)) or isinstance(comp, _Op) or any(not hasattr(t, "symbol") for t in comp):
            probs.append(f"out operator {l_} is {str(comp)[:60]}; expected a list of operator tuples (symbol, qn, factor)")
            vals.append({})
            qns.append(set())
            continue
        for t in comp:
            sym = [int(x) for x in t.symbol]
            if len(sym) != len(child_values) + nphys:
                probs.append(f"out operator {l_}: symbol {sym} for {len(child_values)} incoming bond(s) and {nphys} physical column(s)")
                continue
            parts = [{(): Fr(t.factor)}]
            ok = True
            for cv, idx in zip(child_values, sym[:len(child_values)]):
                if not 0 <= idx < len(cv):
                    probs.append(f"out operator {l_}: incoming operator {idx} of {len(cv)}")
                    ok = False
                    break
                parts.append(cv[idx])
            if not ok:
                continue
            phys = tuple((positions[j], sym[len(child_values) + j]) for j in range(nphys))
            cur = {(): Fr(1)}
            for part in parts:
                nxt = {}
                for s1, c1 in cur.items():
                    for s2, c2 in part.items():
                        key = tuple(sorted(s1 + s2))
                        nxt[key] = nxt.get(key, 0) + c1 * c2
                cur = nxt
            for s1, c1 in cur.items():
                key = tuple(sorted(s1 + phys))
                acc[key] = acc.get(key, 0) + c1
            qn_here.add(_qnval(t.qn))
        vals.append({k: v for k, v in acc.items() if v != 0})
        qns.append(qn_here)
    return vals, probs, qns


def _string_qn(key):
    return sum(PRIMARY_QN[p] for _, p in key)


def _judge(values_root, rows, facs, npos, probs, qn_sets, allvals):
    total = {}
    for v in values_root:
        for k, c in v.items():
            total[k] = total.get(k, 0) + c
    total = {k: c for k, c in total.items() if c != 0}
    want = {tuple(sorted((j, r[j]) for j in range(npos))): Fr(f) for r, f in zip(rows, facs)}
    if total != want:
        miss = [dict(k) for k in want if k not in total][:2]
        extra = [dict(k) for k in total if k not in want][:2]
        wrong = [(dict(k), str(total[k]), str(want[k])) for k in want if k in total and total[k] != want[k]][:2]
        probs.append(f"the operator built differs from the term table: missing terms {miss}, terms not in the table {extra}, wrong coefficients (term, built, table) {wrong}")
    # quantum numbers: every OpTuple of one out operator carries the quantum number of the strings it stands for
    for (node, l_), (qs, val) in allvals.items():
        want_q = {_string_qn(k) for k in val}
        if len(qs) > 1 or (val and qs and qs != want_q and len(want_q) == 1):
            probs.append(f"out operator {l_} of {node}: quantum numbers {sorted(qs)} attached, its strings carry {sorted(want_q)}")
            break


def chain_builder_rule(chk, src, rule):
    """_construct_symbolic_mpo as a whole (table with the two sentinel columns, as construct_symbolic_mpo prepares it) with the graph decompositions: the product of the
    per-bond out operators, expanded, is the term table with its coefficients"""
    fi = src.func(SYMF, "_construct_symbolic_mpo")
    for nsite in (2, 3, 4, 5):
        for name, rows, facs in _tables(nsite):
            if len(rows) < 2:
                continue        # one-row tables take the fast path of construct_symbolic_mpo (decided by `out-ops-shape`)
            for algo in ("Hopcroft-Karp", "Hungarian"):
                table = xnp.XA([[0] + list(r) + [0] for r in rows])
                factor = xnp.XA([Fr(f) for f in facs])
                it = _interp(src, {"scipy": Sym("scipy", sparse=xnp.sparse_namespace())})
                it.builtins.pop("_compute_qn")
                it.max_depth = 12
                probs, res = [], None
                try:
                    res = it.call_function(fi, [table, [[_Op([0], 0, 1)]], factor, _primary_ops(), algo])
                except (SymRaise, IndexError, ValueError, AssertionError, ZeroDivisionError, KeyError) as e:
                    probs.append(f"{type(e).__name__}: {e}")
                if res is not None:
                    if not isinstance(res, list) or len(res) != nsite + 1:
                        probs.append(f"{len(res) if isinstance(res, list) else res!r} bond operator lists for {nsite} sites")
                    else:
                        vals = [{(): Fr(1)}]
                        allvals = {}
                        # bond b > 0 is built from bond b - 1 and site b - 1 (the leading sentinel column belongs to the incoming dummy operator, the trailing one is never a site)
                        for b in range(1, len(res)):
                            v, pr, qns = _expand(res[b], [vals], 1, [b - 1])
                            probs.extend(pr)
                            for l_, (vv, qq) in enumerate(zip(v, qns)):
                                allvals[(f"bond {b}", l_)] = (qq, vv)
                            vals = v
                        if len(vals) != 1:
                            probs.append(f"{len(vals)} operators on the last bond")
                        _judge(vals, rows, facs, nsite, probs, None, allvals)
                chk.ob(rule, f"_construct_symbolic_mpo[{nsite} sites, {name}, {algo}]", not probs, fi.where, probs[:2] or f"{len(rows)} terms reproduced", "expanded product of the bond operators = the term table",
                       line=fi.node.lineno, detail="the symbolic MPO must stand for sum_k c_k x (product of the local operators of term k): " + (probs[0] if probs else ""))


class _TNode(Sym):
    def __init__(self, name, n_sets):
        super().__init__(name)
        self.name, self.n_sets, self.children, self.parent = name, n_sets, [], None
        self.basis_sets = [f"{name}.b{k}" for k in range(n_sets)]

    def __repr__(self):
        return self.name


def _mk_tree(spec):
    nodes = {}
    for name, nsets, parent in spec:
        n = _TNode(name, 1 if nsets == "dummy" else nsets)
        n.dummy = nsets == "dummy"
        nodes[name] = n
        if parent:
            nodes[parent].children.append(n)
            n.parent = nodes[parent]
    order = []

    def post(x):
        for c in x.children:
            post(c)
        order.append(x)
    post(nodes[spec[0][0]])
    return order


TREES = [
    ("chain of 3", [("r", 1, None), ("a", 1, "r"), ("b", 1, "a")]),
    ("root in the middle of a chain", [("r", 1, None), ("a", 1, "r"), ("b", 1, "r")]),
    ("binary, two levels", [("r", 1, None), ("a", 1, "r"), ("b", 1, "r"), ("a1", 1, "a"), ("a2", 1, "a")]),
    ("ternary root, node with two basis sets", [("r", 1, None), ("a", 2, "r"), ("b", 1, "r"), ("c", 1, "r")]),
    ("inner node with a dummy basis set (always the identity)", [("r", 1, None), ("m", "dummy", "r"), ("x", 1, "m"), ("y", 1, "m"), ("z", 1, "r")]),
    ("dummy root", [("r", "dummy", None), ("a", 1, "r"), ("b", 1, "r"), ("c", 1, "b")]),
    ("root with two basis sets above a chain", [("r", 2, None), ("a", 1, "r"), ("b", 1, "a"), ("c", 1, "b")]),
    ("short first branch, long second branch", [("r", 1, None), ("a", 1, "r"), ("b", 1, "r"), ("b1", 1, "b"), ("b2", 1, "b1")]),
]


def tree_builder_rule(chk, src, rule):
    """construct_symbolic_ttno as a whole on small trees (graph decompositions): the operators on the bond above every node, expanded over the sub-tree, and finally
    the root's single operator, stand for the term table - for every topology the same operator"""
    fi = src.func(TTNOB, "construct_symbolic_ttno")
    for tname, spec in TREES:
        order = _mk_tree(spec)
        basis = [b for n in order for b in n.basis_sets]
        npos = len(basis)
        dummies = [basis.index(b) for n in order if n.dummy for b in n.basis_sets]
        for name, rows, facs in _tables(npos):
            # a dummy basis set only ever carries the identity
            rows = list(dict.fromkeys(tuple(0 if j in dummies else v for j, v in enumerate(r)) for r in rows))
            rows = [r for r in rows if sum(PRIMARY_QN[v] for v in r) == 0]
            facs = facs[:len(rows)]
            for algo in ("Hopcroft-Karp", "Hungarian"):
                table = xnp.XA([list(r) for r in rows])
                factor = xnp.XA([Fr(f) for f in facs])
                prim = _primary_ops()
                composed = []
                it = _interp(src, {"scipy": Sym("scipy", sparse=xnp.sparse_namespace()), "chain": __import__("itertools").chain,
                                   "Model": lambda b_, terms: Sym("model", basis=list(b_), qn_size=1),
                                   "_terms_to_table": lambda model, terms, const, table=table, factor=factor, prim=prim: (table, prim, factor),
                                   "compose_symbolic_mo_general": lambda in_ops_list, out_ops, primary_ops, k: composed.append((in_ops_list, out_ops, k)) or "mo"})
                it.builtins.pop("_compute_qn")
                it.max_depth = 12
                tn = Sym("tn", postorder_list=lambda order=order: list(order))
                probs, res = [], None
                try:
                    res = it.call_function(fi, [tn, "terms", 0, algo])
                except (SymRaise, IndexError, ValueError, AssertionError, ZeroDivisionError, KeyError) as e:
                    probs.append(f"{type(e).__name__}: {e}")
                if res is not None:
                    if len(composed) != len(order):
                        probs.append(f"{len(composed)} node operators composed for {len(order)} nodes")
                    else:
                        values, allvals = {}, {}
                        for node, (in_ops_list, out_ops, k) in zip(order, composed):
                            kids = node.children
                            if len(in_ops_list) != len(kids):
                                probs.append(f"node {node}: {len(in_ops_list)} incoming operator lists for {len(kids)} children")
                                break
                            # which child does every incoming list belong to: by identity with that child's outgoing list
                            cv = []
                            for c, lst in zip(kids, in_ops_list):
                                own = [n for n, (_, o, _) in zip(order, composed) if o is lst]
                                if own != [c]:
                                    probs.append(f"node {node}: the incoming operators at the position of child {c} are those of {own}")
                                cv.append(values.get(own[0] if own else c, []))
                            if k != node.n_sets:
                                probs.append(f"node {node}: composed with k = {k}, the node has {node.n_sets} basis set(s)")
                                break
                            pos = [basis.index(b) for b in node.basis_sets]
                            if not kids:
                                # a leaf sees the dummy incoming operator in front of its physical columns
                                v, pr, qns = _expand(out_ops, [[{(): Fr(1)}]], node.n_sets, pos)
                            else:
                                v, pr, qns = _expand(out_ops, cv, node.n_sets, pos)
                            probs.extend(pr)
                            values[node] = v
                            for l_, (vv, qq) in enumerate(zip(v, qns)):
                                allvals[(f"node {node}", l_)] = (qq, vv)
                        if not probs:
                            root = order[-1]
                            if len(values[root]) != 1:
                                probs.append(f"the root carries {len(values[root])} operators towards a parent it does not have")
                            _judge(values[root], rows, facs, npos, probs, None, allvals)
                chk.ob(rule, f"construct_symbolic_ttno[{tname}, {name}, {algo}]", not probs, fi.where, probs[:2] or f"{len(rows)} terms reproduced", "expanded root operator = the term table",
                       line=fi.node.lineno, detail=f"on the tree '{tname}' the symbolic tree operator must stand for sum_k c_k x (product of the local operators of term k), as on every other "
                       "topology: " + (probs[0] if probs else ""))


# ------------------------------------------------------------------------------------------ blocked diagonalisation of the state-averaged density matrix
def eigh_qn_rule(chk, src, rule):
    """eigh_qn as a whole on exact data: a density matrix that is diagonal inside every sector (so that the oracle for scipy.linalg.eigh is a sort), row labels with positive,
    zero and negative charges, the complementary labels of the other side.  Every sector that has a partner on the other side (total - sector present there) must be
    diagonalised: its rows are spanned by the returned columns, each column lives on the rows of one sector and carries that sector's label, the returned singular values are
    the square roots of the eigenvalues in the same column order; sectors without a partner are dropped"""
    SV = "renormalizer/mps/svd_qn.py"
    fi = src.func(SV, "eigh_qn")

    def eigh(block, **k):
        b = xnp.asx(block)
        n = b.shape[0]
        rows = b.tolist()
        if any(rows[i][j] != 0 for i in range(n) for j in range(n) if i != j):
            raise AnalysisError("the oracle for scipy.linalg.eigh only knows diagonal blocks")
        order = sorted(range(n), key=lambda i: (rows[i][i], i))
        return xnp.XA([rows[i][i] for i in order]), xnp.XA([[1 if order[k] == i else 0 for k in range(n)] for i in range(n)])
    cases = [
        # name, row labels, labels of the complementary side, total, diagonal of the density matrix, system
        ("charges of both signs, system L", [1, -1, 1, -1, 0], [-1, 1, 1], 0, [4, 9, 16, 25, 36], "L"),
        ("charges of both signs, system R", [1, -1, 1, -1, 0], [-1, 1, 1], 0, [4, 9, 16, 25, 36], "R"),
        ("non-negative charges, one sector without partner", [0, 1, 2, 1], [0, 1], 1, [1, 4, 9, 16], "L"),
        ("negative total", [0, -1, -2, -1], [0, -1, -1], -2, [1, 4, 9, 16], "L"),
    ]
    for name, ql, qc, tot, diag, system in cases:
        n = len(ql)
        dm = xnp.XA([[diag[i] if i == j else 0 for j in range(n)] for i in range(n)])
        qbig, qcomp = xnp.XA([[q] for q in ql]), xnp.XA([[q] for q in qc])
        it = _interp(src, {"scipy": Sym("scipy", linalg=Sym("scipy.linalg", eigh=eigh))})
        it.max_depth = 10
        args = [dm, qbig, qcomp, xnp.XA([tot]), system] if system == "L" else [dm, qcomp, qbig, xnp.XA([tot]), system]
        probs, res = [], None
        try:
            res = it.call_function(fi, args)
        except (SymRaise, IndexError, ValueError, AssertionError, KeyError) as e:
            probs.append(f"{type(e).__name__}: {e}")
        if res is not None:
            try:
                u, s_, new_qn = res
                u, s_ = xnp.asx(u), xnp.asx(s_).flatten()
                labels = [int(_qnval(xnp.asx(q)) if not isinstance(q, (int,)) else q) for q in new_qn]
            except (TypeError, ValueError, AnalysisError) as e:
                probs.append(f"returns {str(res)[:80]} ({e})")
                u = None
            if u is not None:
                keep = [i for i in range(n) if (tot - ql[i]) in qc]
                cols = u.T.tolist() if u.ndim == 2 else []
                if u.ndim != 2 or u.shape[0] != n or not (len(cols) == s_.size == len(labels)):
                    probs.append(f"u of shape {u.shape}, {s_.size} singular values, {len(labels)} labels for {n} rows")
                else:
                    covered = set()
                    for k, col in enumerate(cols):
                        supp = [i for i, v in enumerate(col) if v != 0]
                        if len(supp) != 1 or col[supp[0]] not in (1, -1):
                            probs.append(f"column {k} = {col}: a diagonal block has unit eigenvectors")
                            break
                        i = supp[0]
                        if ql[i] != labels[k]:
                            probs.append(f"column {k} lives on row {i} (label {ql[i]}) and carries the label {labels[k]}")
                        if Fr(s_.flat[k]) ** 2 != diag[i]:
                            probs.append(f"column {k} (row {i}, eigenvalue {diag[i]}) comes with the singular value {s_.flat[k]}")
                        covered.add(i)
                    if not probs and covered != set(keep):
                        probs.append(f"rows spanned by the returned basis: {sorted(covered)}; rows of the sectors that have a partner (total - label among {sorted(set(qc))}): {keep}")
        chk.ob(rule, f"eigh_qn[{name}]", not probs, fi.where, probs[:2] or "every sector with a partner diagonalised", "columns = eigenvectors of every sector that has a partner, with its label and sqrt(eigenvalue)",
               line=fi.node.lineno, detail="the renormalised basis of a multi-root update must span every symmetry sector the state can occupy, whatever the sign of the charges: " + (probs[0] if probs else ""))


# ------------------------------------------------------------------------------------------ product-state constructor: one sector per site
def hartree_rule(chk, src, rule):
    """Mps.hartree_product_state as a whole on exact data: a coefficient vector given for a site may only occupy local states of one quantum number (otherwise the state is
    not in any sector: ValueError); integer occupations and vectors inside one sector are accepted and the bond labels are the running sums of the occupied quantum numbers"""
    MPSF = "renormalizer/mps/mps.py"
    fi = src.func(MPSF, "Mps.hartree_product_state")
    half = Fr(1, 2)

    class Site(Sym):
        def __init__(self, shape):
            super().__init__("site tensor")
            self.shape, self.writes = tuple(shape), []

        def __setitem__(self, k, v):
            self.writes.append((k, v))

    def run(basis, condition, qn_size):
        sites = {}
        events = []

        class New(Sym):
            def __setitem__(self, i, v):
                sites[i] = v
        new = New("mps", build_empty_mp=lambda n: events.append(("empty", n)), move_qnidx=lambda k: events.append(("move_qnidx", k)))
        npx = xnp.namespace()
        z0 = npx.__dict__["zeros"]
        npx.__dict__["zeros"] = lambda shape, *a, **k: Site(shape) if isinstance(shape, (tuple, list)) and len(shape) == 3 else z0(shape, *a, **k)
        it = SymInterp(src, None, {"np": npx, "isinstance": lambda x, t: isinstance(x, t) and not (t is int and isinstance(x, bool)) if isinstance(t, type) else False})
        model = Sym("model", nsite=len(basis), qn_size=qn_size, basis=[Sym(f"basis{i}", nbas=len(sq), sigmaqn=xnp.XA(sq)) for i, (_, sq) in enumerate(basis)],
                    dof_to_siteidx={d: i for i, (d, _) in enumerate(basis)})
        out = it.call_function(fi, [lambda: new, model, dict(condition)])
        return out, new, sites, events
    one = [("e", [[0], [1]]), ("v", [[0], [0], [0]]), ("me", [[0], [1], [1]])]
    two = [("a", [[0, 0], [1, 0], [0, 1]]), ("b", [[0, 0], [1, 0], [1, 0]])]
    cases = [
        ("integer occupations", one, {"e": 1, "me": 2}, 1, [[0], [1], [1], [2]]),
        ("vector inside one sector (vibration)", one, {"e": 1, "v": [0, half, half]}, 1, [[0], [1], [1], [1]]),
        ("vector inside one sector (two degenerate electronic states)", one, {"me": [0, half, half]}, 1, [[0], [0], [0], [1]]),
        ("vector mixing charge 0 and 1 on a two-level site", one, {"e": [half, half]}, 1, ValueError),
        ("vector mixing the vacuum with an occupied state", one, {"me": [half, 0, half]}, 1, ValueError),
        ("two-component charges: vector on one state", two, {"a": [0, half, 0]}, 2, [[0, 0], [1, 0], [1, 0]]),
        ("two-component charges: vector inside the sector (1, 0)", two, {"b": [0, half, half]}, 2, [[0, 0], [0, 0], [1, 0]]),
        ("two-component charges: vector mixing (1, 0) and (0, 1)", two, {"a": [0, half, half]}, 2, ValueError),
    ]
    for name, basis, cond, qs, want in cases:
        probs = []
        try:
            out, new, sites, events = run(basis, cond, qs)
            if want is ValueError:
                probs.append(f"accepted; the state is labelled {[xnp.asx(q).tolist() for q in getattr(out, 'qn', [])]} although the site vector occupies local states of different quantum numbers")
            else:
                qn = [xnp.asx(q).tolist()[0] for q in out.qn]
                if qn != want and [q for q in qn] != want:
                    # the labels are stored at the requested centre: before move_qnidx they are the running sums from the left
                    probs.append(f"bond labels {qn}; expected the running sums {want}")
                if xnp.asx(out.qntot).tolist() != want[-1]:
                    probs.append(f"total quantum number {xnp.asx(out.qntot).tolist()}; expected {want[-1]}")
                if sorted(sites) != list(range(len(basis))):
                    probs.append(f"sites written: {sorted(sites)}")
        except SymRaise as e:
            if want is not ValueError:
                probs.append(f"rejected: {e}")
            elif "ValueError" not in str(e):
                probs.append(f"raises {e}; expected ValueError")
        except (IndexError, TypeError, ValueError) as e:
            probs.append(f"{type(e).__name__}: {e}")
        chk.ob(rule, f"hartree_product_state[{name}]", not probs, fi.where, probs[:2] or ("rejected" if want is ValueError else "accepted, labels = running sums"),
               "ValueError" if want is ValueError else f"labels {want}", line=fi.node.lineno,
               detail="a product state handed out with bond labels must lie in the sector the labels describe: a site vector spread over local states of different quantum numbers has "
                      "amplitude outside every sector, which later canonicalisation / compression silently drops: " + (probs[0] if probs else ""))


def one_term_rule(chk, src, rule):
    """construct_symbolic_mpo on one-term operators (the builder's short cut): the bond operators it hands out for later site swaps, expanded, are the term with its coefficient,
    and the symbolic site matrices carry the coefficient exactly once"""
    fi = src.func(SYMF, "construct_symbolic_mpo")

    class Prim(Sym):
        """primary operator: multiplication by a number is recorded"""
        def __init__(self, name, qn, scale=1):
            super().__init__(name)
            self.qn, self.scale, self.base = qn, scale, name

        def __rmul__(self, c):
            return Prim(self._name, self.qn, self.scale * Fr(c))

        __mul__ = __rmul__

        def __hash__(self):
            return hash((self.base, self.scale))

        def __eq__(self, o):
            return isinstance(o, Prim) and (o.base, o.scale) == (self.base, self.scale)
    for nsite, row, coeff in ((1, (3,), Fr(7, 2)), (2, (1, 2), Fr(5)), (3, (1, 0, 2), Fr(-3, 4)), (4, (3, 0, 0, 3), Fr(1, 100))):
        prim = [Prim(f"primary{i}", xnp.XA([q])) for i, q in sorted(PRIMARY_QN.items())]
        npx = xnp.namespace()
        npx.__dict__["full"] = lambda shape, fill=None, **k: xnp.ObjGrid(shape, fill)
        it = _interp(src, {"np": npx, "scipy": Sym("scipy", sparse=xnp.sparse_namespace())})
        it.builtins.pop("_compute_qn")
        it.max_depth = 12
        probs, res = [], None
        try:
            res = it.call_function(fi, [xnp.XA([list(row)]), prim, xnp.XA([coeff]), "Hopcroft-Karp"])
        except (SymRaise, IndexError, ValueError, AssertionError, KeyError, TypeError) as e:
            probs.append(f"{type(e).__name__}: {e}")
        if res is not None:
            if not (isinstance(res, tuple) and len(res) >= 5):
                probs.append(f"returns {str(res)[:80]}")
            else:
                mpo, out_ops_list = res[0], res[4]
                if len(out_ops_list) != nsite + 1:
                    probs.append(f"{len(out_ops_list)} bond operator lists for {nsite} sites")
                else:
                    vals = [{(): Fr(1)}]
                    for b in range(1, len(out_ops_list)):
                        v, pr, _ = _expand(out_ops_list[b], [vals], 1, [b - 1])
                        probs.extend(pr)
                        vals = v
                    want = {tuple(sorted((j, row[j]) for j in range(nsite))): coeff}
                    got = {}
                    for v in vals:
                        for k_, c_ in v.items():
                            got[k_] = got.get(k_, 0) + c_
                    if got != want:
                        probs.append(f"the bond operators kept for site swaps stand for {dict((str(dict(k_)), str(c_)) for k_, c_ in got.items())}; the operator is {str(dict(list(want)[0]))} with coefficient {coeff}")
                # the symbolic site matrices: product of the scales = the coefficient
                try:
                    scale = Fr(1)
                    for mo in mpo:
                        cell = mo[0][0] if not isinstance(mo, xnp.ObjGrid) else mo[0, 0]
                        if len(cell) != 1:
                            raise ValueError(f"{len(cell)} operators in a one-term site matrix")
                        scale *= cell[0].scale
                    if scale != coeff:
                        probs.append(f"the symbolic site matrices carry the coefficient {scale}; the term has {coeff}")
                except (AttributeError, TypeError, ValueError, IndexError) as e:
                    probs.append(f"symbolic site matrices: {type(e).__name__}: {e}")
        chk.ob(rule, f"construct_symbolic_mpo[one term on {nsite} site(s), coefficient {coeff}]", not probs, fi.where, probs[:2] or "term and coefficient reproduced by the bond operators and by the site matrices",
               "bond operators and site matrices both stand for coefficient x term", line=fi.node.lineno,
               detail="the bond operators are what swap_site expands when two sites are exchanged: a coefficient kept only in the numeric tensors is lost by the first swap that touches the "
                      "last site: " + (probs[0] if probs else ""))


def random_last_site_rule(chk, src, rule):
    """Mps.random on one-site models (the loop over the inner sites is empty, what remains is the closing site): the entries of the last tensor that survive are exactly the local
    states whose quantum numbers equal the requested total, component by component"""
    MPSF = "renormalizer/mps/mps.py"
    SVQ = "renormalizer/mps/svd_qn.py"
    fi = src.func(MPSF, "Mps.random")
    gm = src.func(SVQ, "get_qn_mask")
    cases = [("one component", [[0], [1], [2]], [1]), ("two components, same sum in different sectors", [[0, 0], [1, 0], [0, 1], [1, 1]], [1, 0]),
             ("two components, total (1, 1)", [[0, 0], [1, 0], [0, 1], [1, 1], [2, 0]], [1, 1])]
    for name, sigmaqn, qntot in cases:
        zeroed = []

        class Rand(Sym):
            """random tensor of the closing site: (1, local states, 1); masked assignment is recorded per local state"""
            def __sub__(self, o):
                return self

            def __truediv__(self, o):
                return self

            __itruediv__ = __truediv__

            def flatten(self):
                return self

            def __setitem__(self, k, v):
                m = xnp.asx(k)
                if v != 0 or not all(isinstance(x, bool) for x in m.flat) or m.size != len(sigmaqn):
                    raise AnalysisError(f"last_mt[{k!r}] = {v!r}")
                zeroed.extend(i for i, b in enumerate(m.flat) if b)
        rnd = Sym("random", random=lambda shape: Rand("last site tensor", shape=tuple(shape)))
        xpx = Sym("xp", random=rnd, linalg=Sym("linalg", norm=lambda x: 1))
        npx = xnp.namespace()
        npx.__dict__["random"] = rnd
        new = Sym("mps", _cls="Mps", pbond_list=[len(sigmaqn)])
        sites = []
        new.__dict__["append"] = lambda t: sites.append(t)
        new.__dict__["__len__"] = lambda: 1
        model = Sym("model", nsite=1, qn_size=len(qntot), basis=[Sym("basis0", sigmaqn=xnp.XA(sigmaqn), nbas=len(sigmaqn))])
        it = SymInterp(src, None, {"np": npx, "xp": xpx, "len": lambda x: 1 if x is new else len(x),
                                   "add_outer": lambda a, b: xnp.XA([[x + y for x, y in zip(xnp.asx(a).tolist()[0], row)] for row in xnp.asx(b).tolist()]),
                                   "get_qn_mask": lambda qnmat, tot: it.call_function(gm, [qnmat, tot]),
                                   "isinstance": lambda x, t: isinstance(x, t) if isinstance(t, type) else (any(isinstance(x, tt) for tt in t if isinstance(tt, type)) if isinstance(t, tuple) else False)})
        probs = []
        try:
            it.call_function(fi, [lambda: new, model, xnp.XA(qntot), 8])
        except (SymRaise, IndexError, ValueError, TypeError) as e:
            probs.append(f"{type(e).__name__}: {e}")
        want = [i for i, q in enumerate(sigmaqn) if q != qntot]
        if not probs and sorted(zeroed) != want:
            keep = [sigmaqn[i] for i in range(len(sigmaqn)) if i not in zeroed]
            probs.append(f"local states kept on the closing site: {keep}; the requested sector is {qntot}")
        chk.ob(rule, f"Mps.random[one site, {name}]", not probs, fi.where, probs[:2] or "only the local states of the requested sector survive", f"kept: the states with quantum numbers {qntot}",
               line=fi.node.lineno, detail="a random state handed out for a sector must have no amplitude in another sector, whatever the number of quantum-number components (equal sums of "
                                           "the components are different sectors): " + (probs[0] if probs else ""))
