"""Abstract runs of the two one-site decompositions of the operator builders (_decompose_graph, _decompose_qr) on exact data (renostat/xnp.py): whatever the functions'
internal spelling, the (out operators, new table, new factors) they return must reproduce the coefficient table they were given, entry by entry:

    Gamma[j, k]  =  sum over new-table rows t = (l, column symbol k)  of  new_factor[t] * (factor of the out operator of bond l built on row symbol j)

The graph method's vertex cover is computed by bipartite_vertex_cover from its own source (the matching of scipy is replaced by an augmenting-path matching on the tiny
graphs); the QR factorisation of scipy is an oracle: it answers only for the coefficient matrices of the cases, with an exact pivoted factorisation prepared for them."""
from fractions import Fraction as Fr

from ..src import AnalysisError
from ..syminterp import SymInterp, Sym, Blob, SymRaise
from .. import xnp

SYMF, BM = "renormalizer/mps/symbolic_mpo.py", "renormalizer/lib/bipartite_matching/bipartite_matching.py"
PRIMES = [2, 3, 5, 7, 11, 13, 17, 19, 23, 29, 31, 37, 41, 43]


class _Op:
    def __init__(self, symbol, qn, factor=1):
        self.symbol, self.qn, self.factor = symbol, qn, factor

    def __repr__(self):
        return f"OpTuple({self.symbol}, factor={self.factor})"


def _problem(term_row, term_col, entries):
    """entries: {(j, k): coefficient}; the sparse matrix stores 1 + the position of the coefficient in the running vector, as _construct_symbolic_mpo_one_site does"""
    keys = sorted(entries)
    factor = xnp.XA([Fr(entries[k]) for k in keys])
    non_red = xnp.XS((len(term_row), len(term_col)), [(j, k, keys.index((j, k)) + 1) for j, k in keys])
    return non_red, factor


def _reconstruct(term_row, term_col, res):
    """coefficient of every (row symbol, column symbol) pair the result stands for"""
    if not (isinstance(res, tuple) and len(res) == 3):
        return None, f"returns {str(res)[:80]}; expected (out operators, table, factors)"
    out_ops, table, fac = res
    try:
        table = xnp.asx(table)
        fac = xnp.asx(fac).flatten()
    except AnalysisError as e:
        return None, f"table / factors are not arrays: {e}"
    if table.ndim != 2 or table.shape[0] != fac.size:
        return None, f"new table of shape {table.shape} with {fac.size} factors"
    got = {}
    rows = table.tolist()
    for t, row in enumerate(rows):
        l_, colsym = int(row[0]), tuple(int(x) for x in row[1:])
        if colsym not in term_col:
            return None, f"new table row {row} names no column symbol of the input"
        if not 0 <= l_ < len(out_ops):
            return None, f"new table row {row} refers to out operator {l_} of {len(out_ops)}"
        k = term_col.index(colsym)
        for op in out_ops[l_]:
            if tuple(op.symbol) not in term_row:
                return None, f"out operator built on the unknown row symbol {op.symbol}"
            j = term_row.index(tuple(op.symbol))
            got[(j, k)] = got.get((j, k), 0) + Fr(op.factor) * Fr(fac.flat[t])
    return {k_: v for k_, v in got.items() if v != 0}, None


def _matching(graph, perm_type=None):
    # any maximum matching of the tiny graph (augmenting paths); match[v] = u or -1, as scipy's maximum_bipartite_matching(perm_type='row')
    match = [-1] * graph.shape[1]

    def aug(u, seen):
        for v in graph.adj[u]:
            if v not in seen:
                seen.add(v)
                if match[v] == -1 or aug(match[v], seen):
                    match[v] = u
                    return True
        return False
    for u in range(len(graph.adj)):
        aug(u, set())
    return match


class _Graph(Sym):
    def __init__(self, adj, ncol):
        super().__init__("graph")
        self.adj, self.shape = adj, (len(adj), ncol)


def _csr_matrix(arg, shape=None, **k):
    _data, (ri, ci) = arg
    ri, ci = [int(x) for x in ri], [int(x) for x in ci]
    nrow = shape[0] if shape else max(ri) + 1
    adj = [[] for _ in range(nrow)]
    for a, b in zip(ri, ci):
        adj[a].append(b)
    return _Graph(adj, shape[1] if shape else max(ci) + 1)


def _interp(src, extra):
    it = SymInterp(src, None, {})
    it.max_depth = 8
    bv = src.func(BM, "bipartite_vertex_cover")

    npx_bv = xnp.namespace()
    it_bv = SymInterp(src, None, {"np": npx_bv, "csr_matrix": _csr_matrix, "maximum_bipartite_matching": _matching})
    it_bv.max_depth = 8

    def cover(bigraph, algo="Hopcroft-Karp"):
        a, b = it_bv.call_function(bv, [[[int(v) for v in x] for x in bigraph]], {"algo": algo})
        return [bool(x) for x in a], [bool(x) for x in b]
    it.builtins.update({"np": xnp.namespace(), "bipartite_vertex_cover": cover, "OpTuple": _Op, "_compute_qn": lambda *a, **k: 0, "logger": Blob("logger")})
    it.builtins.update(extra)
    return it


GRAPH_CASES = [
    # name, rows, columns, entries {(j, k): coefficient}
    ("1 x 1 table", 1, 1, {(0, 0): 2}),
    ("2 x 1 table", 2, 1, {(0, 0): 2, (1, 0): 3}),
    ("3 x 1 table", 3, 1, {(0, 0): 2, (1, 0): 3, (2, 0): 5}),
    ("1 x 3 table", 1, 3, {(0, 0): 2, (0, 1): 3, (0, 2): 5}),
    ("2 x 2 diagonal", 2, 2, {(0, 0): 2, (1, 1): 3}),
    ("2 x 2 full", 2, 2, {(0, 0): 2, (0, 1): 3, (1, 0): 5, (1, 1): 7}),
    ("3 x 3 star and diagonal", 3, 3, {(0, 0): 2, (0, 1): 3, (0, 2): 5, (1, 1): 7, (2, 2): 11}),
    ("3 x 3 row hub and column hub sharing an entry", 3, 3, {(0, 0): 2, (0, 1): 3, (0, 2): 5, (1, 2): 7, (2, 2): 11}),
    ("4 x 4 two hubs sharing an entry and a separate pair", 4, 4, {(0, 0): 2, (0, 1): 3, (0, 2): 5, (1, 2): 7, (2, 2): 11, (3, 3): 13}),
    ("3 x 4 row star, column star and an isolated entry", 3, 4, {(0, 0): 2, (0, 1): 3, (0, 2): 5, (1, 2): 7, (2, 2): 11, (2, 3): 13, (1, 3): 17}),
    ("4 x 2 two column stars", 4, 2, {(0, 0): 2, (1, 0): 3, (2, 1): 5, (3, 1): 7, (1, 1): 11}),
]


def _symbols(n, width, base):
    return [tuple([base + i] + [0] * (width - 1)) for i in range(n)]


def graph_rule(chk, src, rule=None, rule_terminal=None, premise_consumed=False, where_tt=""):
    fi = src.func(SYMF, "_decompose_graph")
    for algo in ("Hopcroft-Karp", "Hungarian"):
        for name, nr, nc, ent in GRAPH_CASES:
            term_row, term_col = _symbols(nr, 2, 1), _symbols(nc, 3, 20)
            non_red, factor = _problem(term_row, term_col, ent)
            it = _interp(src, {})
            probs, res = [], None
            try:
                res = it.call_function(fi, [list(term_row), list(term_col), non_red, Blob("in_ops_list"), factor, Blob("primary_ops"), algo])
            except (SymRaise, IndexError, ValueError, AssertionError, ZeroDivisionError) as e:
                probs.append(f"{type(e).__name__}: {e}")
            got = None
            if res is not None:
                got, err = _reconstruct(term_row, term_col, res)
                if err:
                    probs.append(err)
                elif got != {k: Fr(v) for k, v in ent.items()}:
                    probs.append(f"the result stands for {dict((k, str(v)) for k, v in sorted(got.items()))}; the table given is {dict(sorted(ent.items()))}")
            if rule:
                chk.ob(rule, f"_decompose_graph[{name}, {algo}]", not probs, fi.where, probs[:2] or "coefficient table reproduced", "out operators x new table x new factors = the coefficient table given",
                       line=fi.node.lineno, detail="every (left operator, right operator) pair of the table must come back with its coefficient, from the vertex cover's rows "
                       "(coefficient in the new factor) or columns (coefficient in the complementary operator): " + (probs[0] if probs else ""))
            if rule_terminal and nc == 1:
                key = f"_decompose_graph[{name[:5]} table, {algo}]"
                if premise_consumed:
                    chk.ob(rule_terminal, key, True, fi.where, "leftover coefficients are consumed after the root", "n/a", line=fi.node.lineno)
                    continue
                left = None
                if res is not None and isinstance(res, tuple) and len(res) == 3:
                    try:
                        left = [str(v) for v in xnp.asx(res[2]).flatten().flat if v != 1]
                    except AnalysisError:
                        left = None
                ok = not probs and left == []
                chk.ob(rule_terminal, key, ok, fi.where, {"coefficients left in the running vector": left, "problems": probs[:1]}, {"coefficients left in the running vector": []}, line=fi.node.lineno,
                       detail=f"a {name[:5]} table covered through a row: the row's out-operator gets factor 1.0 and the coefficient stays in the running vector, which {where_tt} "
                              "discards after the root - the tree operator then carries coefficient 1 for that term while the chain builder (sentinel column) stays exact")


def _qr_cases():
    """(name, gamma as exact matrix, oracle answer (q, r, p) or None when no factorisation may be requested)"""
    F = Fr
    cases = []
    # single column: the factorisation is not needed; an implementation that asks for it anyway gets the exact answer (column / norm, norm)
    for name, col, norm in (("1 x 1, single column", [5], 5), ("2 x 1, single column", [3, 4], 5), ("3 x 1, single column", [2, 3, 6], 7)):
        g = [[F(v)] for v in col]
        cases.append((name, g, ([[F(v, norm)] for v in col], [[F(norm)]], [0])))
    # several columns: gamma[:, p] = q r with orthonormal rational columns of q, upper-triangular r with decreasing diagonal
    def build(q, r, p):
        R_, K, C = len(q), len(r), len(r[0])
        gp = [[sum(q[i][l] * r[l][c] for l in range(K)) for c in range(C)] for i in range(R_)]
        g = [[None] * C for _ in range(R_)]
        for c in range(C):
            for i in range(R_):
                g[i][p[c]] = gp[i][c]
        return g
    q22 = [[F(3, 5), F(-4, 5)], [F(4, 5), F(3, 5)]]
    cases.append(("2 x 2, full rank, pivoted", build(q22, [[F(10), F(5)], [F(0), F(5)]], [1, 0]), (q22, [[F(10), F(5)], [F(0), F(5)]], [1, 0])))
    cases.append(("1 x 3, one row and several columns", build([[F(1)]], [[F(7), F(3), F(2)]], [2, 0, 1]), ([[F(1)]], [[F(7), F(3), F(2)]], [2, 0, 1])))
    q32 = [[F(2, 7), F(3, 7)], [F(3, 7), F(-6, 7)], [F(6, 7), F(2, 7)]]
    cases.append(("3 x 2, rank deficient", build(q32, [[F(14), F(7)], [F(0), F(0)]], [1, 0]), (q32, [[F(14), F(7)], [F(0), F(0)]], [1, 0])))
    cases.append(("3 x 2, full rank", build(q32, [[F(14), F(7)], [F(0), F(-7)]], [0, 1]), (q32, [[F(14), F(7)], [F(0), F(-7)]], [0, 1])))
    q23 = [[F(3, 5), F(-4, 5)], [F(4, 5), F(3, 5)]]
    r23 = [[F(15), F(5), F(10)], [F(0), F(-10), F(5)]]
    cases.append(("2 x 3, wide, pivoted", build(q23, r23, [2, 0, 1]), (q23, r23, [2, 0, 1])))
    return cases


def qr_rule(chk, src, rule, rule_shortcut=None):
    fi = src.func(SYMF, "_decompose_qr")
    for name, g, oracle in _qr_cases():
        nr, nc = len(g), len(g[0])
        term_row, term_col = _symbols(nr, 2, 1), _symbols(nc, 3, 20)
        ent = {(j, k): g[j][k] for j in range(nr) for k in range(nc) if g[j][k] != 0}
        non_red, factor = _problem(term_row, term_col, ent)
        asked = []

        def qr(a, mode="full", pivoting=False, oracle=oracle, g=g, asked=asked, **k):
            a = xnp.asx(a)
            asked.append(a.shape)
            if a.tolist() != g:
                raise AnalysisError(f"scipy.linalg.qr is asked to factorise {a.tolist()}: the oracle only knows the coefficient matrix of the case")
            if mode != "economic" or not pivoting:
                raise AnalysisError(f"scipy.linalg.qr(mode={mode!r}, pivoting={pivoting!r}): the oracle answers the economic pivoted factorisation only")
            q, r, p = oracle
            return xnp.XA(q), xnp.XA(r), xnp.XA(p)
        lin = Sym("scipy.linalg", qr=qr)
        it = _interp(src, {"scipy": Sym("scipy", linalg=lin), "qr": qr})
        probs, res = [], None
        try:
            res = it.call_function(fi, [list(term_row), list(term_col), non_red, Blob("in_ops_list"), factor, Blob("primary_ops"), "qr"])
        except (SymRaise, IndexError, ValueError, AssertionError, ZeroDivisionError) as e:
            probs.append(f"{type(e).__name__}: {e}")
        if res is not None:
            got, err = _reconstruct(term_row, term_col, res)
            if err:
                probs.append(err)
            elif got != ent:
                probs.append(f"the result stands for {dict((k, str(v)) for k, v in sorted(got.items()))}; the coefficient matrix given is {dict((k, str(v)) for k, v in sorted(ent.items()))}")
        which = rule_shortcut if (rule_shortcut and (nc == 1 or nr == 1)) else rule
        chk.ob(which, f"_decompose_qr[{name}]", not probs, fi.where, probs[:2] or {"coefficient matrix reproduced": True, "factorisation requested": bool(asked)},
               "sum_l (sum_j q[j,l] L_j) x (sum_k r[l,k] R_k) = the coefficient matrix given", line=fi.node.lineno,
               detail="the factorisation (or the shortcut q = gamma, r = [[1]], p = [0], valid for a single column only) must reproduce every coefficient: with more than one column "
                      "r = [[1]] drops every column but the first, i.e. all terms whose right part is not the first unique right operator: " + (probs[0] if probs else ""))
