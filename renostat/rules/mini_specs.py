"""Small abstract-run rules for helper mechanisms named by the properties: each runs the helper's source on symbols / small shapes and compares with the specification."""
import ast

from ..src import AnalysisError, unparse
from ..syminterp import SymInterp, Sym, Blob, OpenSym

MP = "renormalizer/mps/mp.py"
SVDQN = "renormalizer/mps/svd_qn.py"
CONFIGS = "renormalizer/utils/configs.py"


def direction_bookkeeping(chk, src, rule):
    """iter_idx_list visits exactly the sites between the centre and the end of the sweep; _switch_direction moves the label centre to the end that was just reached"""
    fi = src.func(MP, "MatrixProduct.iter_idx_list")
    bad = []
    n = 0
    N = 5
    for to_right in (True, False):
        for q in range(N):
            for full in (True, False):
                for stop in (None,) + tuple(range(N)):
                    it = SymInterp(src, None, {})
                    me = Sym("mp", to_right=to_right, qnidx=q, site_num=N)
                    got = list(it.call_function(fi, [me, full, stop]))
                    n += 1
                    if to_right:
                        last = stop if stop is not None else (N if full else N - 1)
                        want = list(range(q, last))
                    else:
                        last = stop if stop is not None else (-1 if full else 0)
                        want = list(range(q, last, -1))
                    # specification in words: from the centre towards the sweep direction, up to (not including) stop; without stop to the last site (full) or the one before it
                    if got != want:
                        bad.append(f"to_right={to_right}, centre={q}, full={full}, stop={stop}: visits {got}, expected {want}")
    chk.ob(rule, f"iter_idx_list ({n} combinations of direction, centre, full, stop on a 5-site chain)", not bad, fi.where, bad[:3] or "all as specified",
           "sites from the centre in sweep direction up to stop / the chain end", line=fi.node.lineno,
           detail="a canonicalisation sweep must visit every site between the centre and its target exactly once: " + (bad[0] if bad else ""))
    sd = src.func(MP, "MatrixProduct._switch_direction")
    res = {}
    for to_right in (True, False):
        me = Sym("mp", to_right=to_right, qnidx="old", site_num=N)
        SymInterp(src, None, {}).call_function(sd, [me])
        res[to_right] = (me.qnidx, me.to_right)
    chk.ob(rule, "_switch_direction", res == {True: (N - 1, False), False: (0, True)}, sd.where, res, {True: (N - 1, False), False: (0, True)}, line=sd.node.lineno,
           detail="after a complete right sweep the centre is the last site and the next sweep goes left, and vice versa")


def threshold_count(chk, src, rule):
    """_threshold_m_trunc counts the singular values whose share of the 2-norm exceeds the threshold"""
    fi = src.func(CONFIGS, "CompressConfig._threshold_m_trunc")
    log = []

    class Sig(Sym):
        def __truediv__(self, o):
            return Sig(f"({self._name})/({o!r})")

        def __gt__(self, o):
            return Sym(f"mask[{self._name} > {o!r}]")

        def __ge__(self, o):
            return Sym(f"mask[{self._name} >= {o!r}]")

        def __lt__(self, o):
            return Sym(f"mask[{self._name} < {o!r}]")
    def count(m, *a, **k):
        return Cnt(f"count({m!r})")

    class Cnt(Sym):
        def item(self):
            return self

    class Mask(Sym):
        def sum(self, *a, **k):
            return count(self)
    # a boolean mask is counted by sum / count_nonzero (function or method), of the mask itself
    Sig.__gt__ = lambda self, o: Mask(f"mask[{self._name} > {o!r}]")
    Sig.__ge__ = lambda self, o: Mask(f"mask[{self._name} >= {o!r}]")
    Sig.__lt__ = lambda self, o: Mask(f"mask[{self._name} < {o!r}]")
    norm = lambda x, *a, **k: Sym(f"norm2({x!r})") if not a and not k or (a and a[0] in (None, 2)) or k.get("ord") in (None, 2) else Sym(f"norm_other({x!r})")   # noqa: E731
    it = SymInterp(src, None, {"np": OpenSym("np", sum=count, count_nonzero=count, linalg=OpenSym("linalg", norm=norm)),
                               "scipy": OpenSym("scipy", linalg=OpenSym("linalg", norm=norm)), "int": lambda x: x, "len": lambda x: Sym(f"len({x!r})")})
    out = it.call_function(fi, [Sym("cfg", threshold=Sym("threshold")), Sig("sigma")])
    chk.ob(rule, "_threshold_m_trunc", repr(out) == "count(mask[(sigma)/(norm2(sigma)) > threshold])", fi.where, repr(out), "count(sigma / ||sigma||_2 > threshold)", line=fi.node.lineno,
           detail="the threshold criterion keeps the singular values whose normalised magnitude is above the threshold (normalisation by the 2-norm of the same spectrum, strict comparison, count)")


def qn_mask_and_outer(chk, src, rule):
    """get_qn_mask: all components equal to the total; add_outer: component-wise outer sum with the component axis kept last"""
    gm = src.func(SVDQN, "get_qn_mask")

    class QM(Sym):
        def __eq__(self, o):
            return Sym(f"eq({self._name}, {o!r})")

        __hash__ = Sym.__hash__ if hasattr(Sym, "__hash__") else None
    it = SymInterp(src, None, {"np": OpenSym("np", array=lambda x: x)})
    out = it.call_function(gm, [QM("qnmat"), Sym("qntot")])
    chk.ob(rule, "get_qn_mask", repr(out) == "all(eq(qnmat, qntot), axis=-1)", gm.where, repr(out), "all(qnmat == qntot, axis=-1)", line=gm.node.lineno,
           detail="an element is allowed iff every conserved quantity of its label equals the total; `any` or another axis admits elements outside the sector")
    ao = src.func(SVDQN, "add_outer")

    class Arr(Sym):
        """array described by its axes (identities), their sizes and what it holds"""
        def __init__(self, content, axes, sizes):
            super().__init__(repr(content))
            self.content, self.axes, self.shape = content, list(axes), tuple(sizes)
            self.ndim = len(self.shape)

        def __getitem__(self, k):
            if isinstance(k, tuple) and len(k) == 2 and k[0] is Ellipsis and isinstance(k[1], int):
                return Arr(("component", k[1], self.content), self.axes[:-1], self.shape[:-1])
            raise AnalysisError("add_outer: indexing outside the fragment")

        def _perm(self, axes):
            axes = [a % self.ndim for a in axes]
            if sorted(axes) != list(range(self.ndim)):
                raise AnalysisError(f"add_outer: {axes} is not a permutation of the axes")
            return Arr(self.content, [self.axes[i] for i in axes], [self.shape[i] for i in axes])

        def transpose(self, *axes):
            axes = list(axes[0]) if len(axes) == 1 and isinstance(axes[0], (list, tuple)) else list(axes)
            return self._perm(axes)

    def moveaxis(arr, source, destination):
        order = [k for k in range(arr.ndim) if k != source % arr.ndim]
        order.insert(destination % arr.ndim, source % arr.ndim)
        return arr._perm(order)

    def outer(x, y):
        return Arr(("outer", x.content, y.content), x.axes + y.axes, x.shape + y.shape)

    def stack(lst, axis=0):
        lst = list(lst)
        if any(x.axes != lst[0].axes for x in lst):
            raise AnalysisError("add_outer: stacking arrays with different axes")
        ax = axis % (lst[0].ndim + 1)
        return Arr(("stack", tuple(x.content for x in lst)), lst[0].axes[:ax] + ["component"] + lst[0].axes[ax:], lst[0].shape[:ax] + (len(lst),) + lst[0].shape[ax:])
    bad = []
    for sa, sb in (((3,), (4,)), ((2, 3), (4,)), ((2,), (3, 4)), ((1,), (1,))):
        for q in (1, 2, 3):
            a = Arr("a", [f"a{k}" for k in range(len(sa))] + ["component"], sa + (q,))
            b = Arr("b", [f"b{k}" for k in range(len(sb))] + ["component"], sb + (q,))
            itx = SymInterp(src, None, {"np": Sym("np", add=Sym("add", outer=outer), array=stack, asarray=stack, stack=stack, moveaxis=moveaxis, transpose=lambda x, axes: x.transpose(axes))})
            out = itx.call_function(ao, [a, b])
            want_axes = a.axes[:-1] + b.axes[:-1] + ["component"]
            want_content = ("stack", tuple(("outer", ("component", i, "a"), ("component", i, "b")) for i in range(q)))
            if not (isinstance(out, Arr) and out.axes == want_axes and out.content == want_content and out.shape == sa + sb + (q,)):
                bad.append(f"a{sa + (q,)} + b{sb + (q,)}: result has axes {getattr(out, 'axes', None)} holding {getattr(out, 'content', out)}; expected axes {want_axes} holding the outer sums of component 0..{q - 1}")
    chk.ob(rule, "add_outer (12 shape combinations)", not bad, ao.where, bad[:2] or "component-wise outer sums, component axis last", "out[i.., j.., c] = a[i.., c] + b[j.., c]", line=ao.node.lineno,
           detail="labels of a merged index are the component-wise sums of the two labels, with the index of a varying slowest: " + (bad[0] if bad else ""))
