"""Shared rules of the tree-tensor-network properties (C02, C11, C12): label schema, positional consumers, tensor/label pairing,
environment-refresh typestate, pack/unpack order, post-order column bookkeeping of the TTNO builder."""
import ast

from ..src import AnalysisError, unparse, norm_stmt, walk_no_nested
from ..label import World, bond, Node, T, Dim, flip, split_args, check_network, TreeSym
from ..syminterp import Sym, SymDict, SymInterp, Blob, OpenSym, SymRaise
from .. import qn as Q

TREE = "renormalizer/tn/tree.py"
TEVO = "renormalizer/tn/time_evolution.py"
TGS = "renormalizer/tn/gs.py"
THOP = "renormalizer/tn/hop_expr.py"
TTNOB = "renormalizer/tn/symbolic_ttno.py"


# ---------------------------------------------------------------------------------------------- label schema
def label_schema(chk, src, which=("S", "O", "E")):
    chk.rule("label-schema", "bond labels are (owner id, DOFS(parent end), DOFS(child end)) from both ends and from the environment; node axis order is "
             "children, physical, parent; ket physical = down, bra physical = up, operator physical = (up, down) interleaved; environment triples are (bra, operator, ket)", {("S", "O", "E"): 21, ("O",): 4, ("E",): 7}.get(tuple(which), 1))
    w = World(src)
    R, A, A1, B = w.nodes
    where = {"S": w.f["S"].where, "O": w.f["O"].where, "EC": w.f["EC"].where, "EP": w.f["EP"].where}
    for n in w.nodes:
        k = len(n.children)
        if "S" in which:
            for conj in (False, True):
                lab = w.S(n, conj=conj)
                tag = "bra" if conj else "ket"
                want = [bond(w.ttns, n.dofs_s, c.dofs_s, conj) for c in n.children] + [("up" if conj else "down", d) for d in n.dofs_s] + \
                       [bond(w.ttns, n.parent.dofs_s if n.parent else None, n.dofs_s, conj)]
                chk.ob("label-schema", f"TTNS.get_node_indices[{n}, {tag}]", lab == want, where["S"], lab, want,
                       detail=f"state node labels ({tag}) deviate from the schema: contractions pair this node's legs with the wrong neighbours / physical side")
        if "O" in which:
            lab = w.O(n)
            want = [bond(w.ttno, n.dofs_o, c.dofs_o) for c in n.children]
            for d in n.dofs_o:
                want += [("up", d), ("down", d)]
            want += [bond(w.ttno, n.parent.dofs_o if n.parent else None, n.dofs_o)]
            chk.ob("label-schema", f"TTNO.get_node_indices[{n}]", lab == want, where["O"], lab, want,
                   detail="operator node labels deviate from the schema; the physical pair must be (up = row = bra side, down = column = ket side) in the order the builder lays the axes out: "
                          "exchanging them makes every consumer contract the transposed local matrices (invisible for real symmetric operators)")
        if "E" in which:
            for i, c in enumerate(n.children):
                lab = w.EC(n, i)
                want = [bond(w.ttns, n.dofs_s, c.dofs_s, True), bond(w.ttno, n.dofs_o, c.dofs_o), bond(w.ttns, n.dofs_s, c.dofs_s)]
                chk.ob("label-schema", f"TTNEnviron.get_child_indices[{n}, child {i}]", lab == want, where["EC"], lab, want,
                       detail="child-environment labels must be the (bra, operator, ket) labels of that bond as seen from the node")
            lab = w.EP(n)
            p = n.parent
            want = [bond(w.ttns, p.dofs_s if p else None, n.dofs_s, True), bond(w.ttno, p.dofs_o if p else None, n.dofs_o), bond(w.ttns, p.dofs_s if p else None, n.dofs_s)]
            chk.ob("label-schema", f"TTNEnviron.get_parent_indices[{n}]", lab == want, where["EP"], lab, want,
                   detail="parent-environment labels must be the (bra, operator, ket) labels of the bond to the parent")
    if "S" in which:
        # partial operators: physical indices the operator does not act on are contracted with the bra directly
        w2 = World(src, skip={"A": [1]})
        _, A2, _, _ = w2.nodes
        lab = w2.S(A2, ttno=w2.ttno)
        phys = [l for l in lab if l[0] in ("up", "down")]
        chk.ob("label-schema", "TTNS.get_node_indices[ket, partial operator]", phys == [("down", A2.dofs_s[0]), ("up", A2.dofs_s[1])], where["S"], phys,
               [("down", "A.s0"), ("up", "A.s1")], detail="a physical index missing in the operator must carry the bra label so that ket and bra contract directly")
        lab = w.S(A1, include_parent=True)
        want = w.S(A1)[:-1] + [l for l in w.S(A) if l != w.S(A1)[-1]]
        chk.ob("label-schema", "TTNS.get_node_indices[two-site]", lab == want, where["S"], lab, want, detail="two-site labels = node labels followed by parent labels, shared bond removed")


# ---------------------------------------------------------------------------------------------- contraction networks
NET_TOPOLOGIES = ("generic", "ternary", "chain")


class Mat(Sym):
    """bond matrix with an orientation (which end each of its two axes connects to)"""
    def __init__(self, name, orient):
        super().__init__(name)
        self.orient = tuple(orient)

    @property
    def T(self):
        return Mat(self._name + ".T", self.orient[::-1])

    @property
    def shape(self):
        return ShapeOf(self.orient)

    def reshape(self, *shape):
        sh = shape[0] if len(shape) == 1 else shape
        return Mat(self._name, sh.orient) if isinstance(sh, ShapeOf) else Mat(self._name, self.orient)

    def ravel(self):
        return Mat(self._name + ".ravel", self.orient)


class ShapeOf:
    def __init__(self, orient):
        self.orient = tuple(orient)


def _recorder(direct=(), dangling_ok=()):
    rec = []

    def oe_contract(*args, **kw):
        pairs, out = split_args(list(args))
        probs, out_ids = check_network(pairs, out, direct, dangling_ok)
        res = T("result", out_ids or [])
        rec.append({"pairs": pairs, "out": out, "probs": probs, "res": res})
        return res
    return rec, oe_contract


def _dimset(d):
    """a size is a commutative product of named dimensions"""
    return tuple(sorted(d.names)) if isinstance(d, Dim) else d


def _names(pairs):
    return sorted(repr(t) for t, _ in pairs)


def _net_ob(chk, rule, key, fi, r, want_tensors, want_legs, detail, direct=()):
    got_t = _names(r["pairs"])
    if want_legs is not None:
        want_legs = [("bphys", l[1], l[2]) if l[0] == "kphys" and (l[1], l[2]) in direct else l for l in want_legs]
    ok = not r["probs"] and got_t == sorted(want_tensors) and (want_legs is None or list(r["res"].legs) == list(want_legs))
    found = {"problems": r["probs"][:3]} if r["probs"] else ({"tensors": got_t} if got_t != sorted(want_tensors) else {"result axes": list(r["res"].legs)})
    chk.ob(rule, key, ok, fi.where, found, {"tensors": sorted(want_tensors), "result axes": want_legs}, line=fi.node.lineno, detail=detail)


def _two_site_legs(n):
    p = n.parent
    return [l for l in n.tensor.legs if l != ("ket", n.bond_up)] + [l for l in p.tensor.legs if l != ("ket", n.bond_up)]


def environment_networks(chk, src, topologies=NET_TOPOLOGIES):
    chk.rule("env-network", "the children / parent environment of every node contracts exactly: the node's other environments, the conjugated state tensor, "
             "the operator tensor and the state tensor, each index joined to the matching index of its neighbour, and stores a tensor with the axes of the environment it replaces", 12)
    fc = src.func(TREE, "TTNEnviron.build_children_environ_node")
    fp = src.func(TREE, "TTNEnviron.build_parent_environ_node")
    for topo in topologies:
        for skip in ({}, "partial"):
            sk = {}
            direct = set()
            if skip == "partial":
                w0 = World(src, topology=topo)
                multi = [n for n in w0.snodes if n.nsets > 1]
                if not multi:
                    continue
                sk = {multi[0]._name: [n for n in range(1, multi[0].nsets)]}
                direct = {(multi[0]._name, k) for k in sk[multi[0]._name]}
            tag = topo + ("/partial-operator" if sk else "")
            for n_idx in range(len(TOPO_LEN(topo))):
                rec, oe = _recorder(direct)
                w = World(src, skip=sk, topology=topo, extra_builtins={"oe_contract": oe})
                n = w.snodes[n_idx]
                e, o = w.e(n), w.o(n)
                if n.parent is not None:
                    old = e.parent.environ_children[n.idx_as_child]
                    w.interp.call_function(fc, [w.ttne, n, w.ttns, w.ttno])
                    if len(rec) != 1:
                        raise AnalysisError(f"{fc.where}: {len(rec)} contractions for node {n} (one expected)")
                    want = [repr(t) for t in e.environ_children] + [repr(n.tensor) + ".conj()", repr(o.tensor), repr(n.tensor)]
                    _net_ob(chk, "env-network", f"children environment [{tag}: {n}]", fc, rec[0], want, old.legs,
                            f"the environment of the bond above {n} is not the contraction of the sub-tree below it (bra, operator, ket): expectation values, effective Hamiltonians and RDMs built from it are wrong on this topology")
                    stored = e.parent.environ_children[n.idx_as_child]
                    chk.ob("env-network", f"children environment stored in the parent's slot [{tag}: {n}]", stored is rec[0]["res"], fc.where, repr(stored), "the contraction result, at index idx_as_child of the parent's list", line=fc.node.lineno)
                for i, c in enumerate(n.children):
                    rec, oe = _recorder(direct)
                    w = World(src, skip=sk, topology=topo, extra_builtins={"oe_contract": oe})
                    n = w.snodes[n_idx]
                    e, o = w.e(n), w.o(n)
                    old = e.children[i].environ_parent
                    w.interp.call_function(fp, [w.ttne, n, i, w.ttns, w.ttno])
                    if len(rec) != 1:
                        raise AnalysisError(f"{fp.where}: {len(rec)} contractions for node {n}, child {i}")
                    want = [repr(t) for j, t in enumerate(e.environ_children) if j != i] + [repr(e.environ_parent), repr(n.tensor) + ".conj()", repr(o.tensor), repr(n.tensor)]
                    _net_ob(chk, "env-network", f"parent environment [{tag}: {n} -> child {i}]", fp, rec[0], want, old.legs,
                            f"the environment seen by child {i} of {n} must contract everything except that child's sub-tree; a sibling or the parent part is missing, doubled or joined to the wrong index")
                    stored = e.children[i].environ_parent
                    chk.ob("env-network", f"parent environment stored in the child [{tag}: {n} -> child {i}]", stored is rec[0]["res"], fp.where, repr(stored), "the contraction result stored in children[ichild].environ_parent", line=fp.node.lineno)


def TOPO_LEN(topo):
    from ..label import TOPOLOGIES
    return TOPOLOGIES[topo]


def heff_networks(chk, src, topologies=NET_TOPOLOGIES, rule="heff-network", only=("hop_expr0", "hop_expr1", "hop_expr2")):
    chk.rule(rule, "hop_expr0/1/2 contract exactly the environments around the site(s) and the site operator(s); the trial tensor carries the ket labels "
             "in the axis order of the tensor the solvers pass in, the result the matching bra labels in the same order, and the declared shape is that tensor's shape", 12 if len(only) == 3 else 4)
    f0, f1, f2 = (src.func(THOP, q) for q in ("hop_expr0", "hop_expr1", "hop_expr2"))
    fm = src.func(TREE, "TTNS.merge_with_parent")
    for topo in topologies:
        nn = len(TOPO_LEN(topo))
        for skipmode in ("full", "partial"):
            sk, direct = {}, set()
            if skipmode == "partial":
                w0 = World(src, topology=topo)
                multi = [n for n in w0.snodes if n.nsets > 1]
                if not multi:
                    continue
                sk = {multi[0]._name: list(range(1, multi[0].nsets))}
                direct = {(multi[0]._name, k) for k in sk[multi[0]._name]}
            tag = topo + ("/partial-operator" if sk else "")
            for n_idx in range(nn):
                calls = []

                def cexpr(args, shape, xi, yi):
                    calls.append((list(args), list(shape), list(xi), list(yi)))
                    return Blob("expr")
                rec, oe = _recorder(direct)
                w = World(src, skip=sk, topology=topo, extra_builtins={"_contract_expression": cexpr, "_get_hdiag": lambda *a: Blob("hdiag"), "oe_contract": oe})
                n = w.snodes[n_idx]
                e, o = w.e(n), w.o(n)

                def decide(fi, key, x, want_t, detail):
                    if len(calls) != 1:
                        raise AnalysisError(f"{fi.where}: no contraction expression built for {key}")
                    args, shape, xi, yi = calls.pop()
                    pairs, out = split_args(args + [yi])
                    pairs.append((x, xi))
                    probs, out_ids = check_network(pairs, yi, direct)
                    r = {"pairs": pairs[:-1], "probs": probs, "res": T("y", out_ids)}
                    want_legs = [flip(l) if not (l[0] == "kphys" and (l[1], l[2]) in direct) else ("bphys", l[1], l[2]) for l in x.legs]
                    _net_ob(chk, rule, key, fi, r, want_t, want_legs, detail, direct)
                    chk.ob(rule, key + " shape", list(shape) == list(x.shape), fi.where, [repr(d) for d in shape], [repr(d) for d in x.shape], line=fi.node.lineno,
                           detail="the declared shape of the trial tensor is not the shape of the tensor the solvers pass in")
                # one site
                if "hop_expr1" in only:
                    w.interp.call_function(f1, [n, w.ttns, w.ttno, w.ttne])
                if "hop_expr1" in only:
                    decide(f1, f"hop_expr1 [{tag}: {n}]", n.tensor, [repr(t) for t in e.environ_children] + [repr(e.environ_parent), repr(o.tensor)],
                           f"the one-site effective Hamiltonian at {n} is not <environments| operator |environments>: a missing / doubled environment or an index joined to the wrong "
                           "neighbour gives a different (possibly still Hermitian) matrix; exchanged input/output labels give its transpose")
                if n.parent is None:
                    continue
                p = n.parent
                # two site: the trial tensor is what merge_with_parent returns
                rec_m, oe_m = _recorder()
                w.interp.builtins["oe_contract"] = oe_m
                w.interp.call_function(fm, [w.ttns, n])
                r = rec_m.pop()
                _net_ob(chk, rule, f"merge_with_parent [{tag}: {n}]", fm, r, [repr(n.tensor), repr(p.tensor)], _two_site_legs(n),
                        "the two-site tensor is the node contracted with its parent over their shared bond, axes = node axes (without the bond) followed by parent axes (without the bond)")
                x2 = T("x2", _two_site_legs(n))
                w.interp.call_function(f2, [n, w.ttns, w.ttno, w.ttne])
                ep, op = w.e(p), w.o(p)
                want = [repr(t) for t in e.environ_children] + [repr(t) for j, t in enumerate(ep.environ_children) if j != n.idx_as_child] + [repr(ep.environ_parent), repr(op.tensor), repr(o.tensor)]
                decide(f2, f"hop_expr2 [{tag}: {n}+{p}]", x2, want,
                       f"the two-site effective Hamiltonian of {n} and its parent must contain the environments of both nodes except the one across their shared bond, and both operator tensors")
                if "hop_expr0" not in only:
                    continue
                # zero site: child end first, parent end second; the two ends of the same bond are distinguished
                w.enodes[n.idx].__dict__["environ_parent"] = T(repr(e.environ_parent), [(l[0] + "'", l[1]) if l[0] in ("bra", "ket") else (l[0] + "'", l[1]) for l in e.environ_parent.legs])
                b = n.bond_up
                x0 = T("x0", [("ket", b), ("ket'", b)])
                w.interp.call_function(f0, [n, w.ttns, w.ttno, w.ttne])
                if len(calls) != 1:
                    raise AnalysisError(f"{f0.where}: no contraction expression")
                args, shape, xi, yi = calls.pop()
                pairs, out = split_args(args + [yi])
                pairs.append((x0, xi))
                # the operator bond is shared by both environments: the primed operator leg is the same index
                pairs = [(T(repr(t), [("op", l[1]) if l[0] == "op'" else l for l in t.legs]), labs) for t, labs in pairs]
                probs, out_ids = check_network(pairs, yi)
                r = {"pairs": pairs[:-1], "probs": probs, "res": T("y", out_ids)}
                _net_ob(chk, rule, f"hop_expr0 [{tag}: bond above {n}]", f0, r, [repr(ep.environ_children[n.idx_as_child]), repr(e.environ_parent)], [("bra", b), ("bra'", b)],
                        f"the zero-site effective Hamiltonian of the bond above {n} joins the child environment (first axis of the bond matrix) and the parent environment (second axis) over the operator bond; "
                        "its output must be the bra legs in the same (child, parent) order")


ALL_STATE = ("merge", "apply", "todense_s", "todense_o", "expectation1", "rdm1", "rdm2")


def state_networks(chk, src, topologies=NET_TOPOLOGIES, which=ALL_STATE, floor=20):
    chk.rule("state-network", "merge_to_parent, TTNO.apply, todense, expectation1 and the reduced density matrices contract each tensor with the labels of its own axes, "
             "every index exactly twice (or once and in the output), and produce the documented axis order", floor)
    fmp = src.func(TREE, "TTNS.merge_to_parent")
    fap = src.func(TREE, "TTNO.apply")
    ftd_s, ftd_o = src.func(TREE, "TTNS.todense"), src.func(TREE, "TTNO.todense")
    fe1 = src.func(TREE, "TTNS.expectation1")
    fr1, fr2 = src.func(TREE, "TTNS.calc_1site_rdm"), src.func(TREE, "TTNS.calc_2site_rdm")
    for topo in topologies:
        nn = len(TOPO_LEN(topo))
        # ---- merge_to_parent
        for n_idx in (range(1, nn) if "merge" in which else ()):
            rec, oe = _recorder()
            w = World(src, topology=topo, extra_builtins={"oe_contract": oe})
            n = w.snodes[n_idx]
            p = n.parent
            b = n.bond_up
            plegs = list(p.tensor.legs)
            store = []
            p.__dict__["_on_tensor_set"] = lambda node, v: store.append(v)
            v = T("v", [("ket", b), ("ket-new", b)])
            w.interp.call_function(fmp, [w.ttns, n, v])
            want_legs = [("ket-new", b) if l == ("ket", b) else l for l in plegs]
            _net_ob(chk, "state-network", f"merge_to_parent [{topo}: {n}]", fmp, rec[0], [repr(p.tensor), "v"], want_legs,
                    f"the bond matrix must be contracted (first axis) with the parent's axis for child {n} and its second axis must take that axis' place")
            chk.ob("state-network", f"merge_to_parent stores into the parent [{topo}: {n}]", store == [rec[0]["res"]], fmp.where, [repr(x) for x in store], "node.parent.tensor = result", line=fmp.node.lineno)
        # ---- TTNO.apply (whole function, all nodes in one abstract run)
        if "apply" in which:
            rec, oe = _recorder()
            w = World(src, topology=topo, extra_builtins={"oe_contract": lambda *a, **k: _Reshapable(oe(*a, **k)), "add_outer": lambda a, b: _Outer(a, b)})
            for n in w.snodes:
                n.__dict__["qn"] = f"state-qn({n})"
            for o in w.onodes:
                o.__dict__["qn"] = f"operator-qn({o})"
            new_nodes = [Sym(f"new({n})") for n in w.snodes]
            new_tree = TreeSym("new", node_list=new_nodes, check_shape=lambda: None, canonicalise=lambda: None)
            w.overrides[("ttns", "metacopy")] = lambda: new_tree
            out = w.interp.call_function(fap, [w.ttno, w.ttns])
            chk.ob("state-network", f"TTNO.apply returns the new state [{topo}]", out is new_tree and len(rec) == nn, fap.where, f"{len(rec)} contractions, returns {out!r}", f"{nn} contractions, returns the metacopy", line=fap.node.lineno)
            # the (state, operator) order inside a merged bond is a convention; it has to be one convention for every bond of every node and for the labels:
            # taken from the first merged pair of the first node (state-major in the reference), then demanded everywhere
            first = [l for l in (rec[0]["res"].legs if rec else []) if l[0] in ("ket", "op")]
            op_major = bool(first) and first[0][0] == "op"
            for n_idx in range(min(nn, len(rec))):
                n, o, n2, r = w.snodes[n_idx], w.onodes[n_idx], new_nodes[n_idx], rec[n_idx]
                want = []
                for l in n.tensor.legs:
                    if l[0] == "ket":
                        want += [("op", l[1]), l] if op_major else [l, ("op", l[1])]
                    else:
                        want.append(("bphys", l[1], l[2]))
                _net_ob(chk, "state-network", f"TTNO.apply [{topo}: {n}]", fap, r, [repr(n.tensor), repr(o.tensor)], want,
                        "O|psi> at one node: state and operator tensors joined over the operator's column (down) index; result axes = (state bond, operator bond) pairs and the operator's row (up) indices")
                rs = n2.__dict__.get("tensor")
                shape = rs.shape_arg if isinstance(rs, _Reshapable) else None
                want_shape = []
                for l in n.tensor.legs:
                    want_shape.append((1 if l[1][0] == "root" else Dim([str(l), str(("op", l[1]))])) if l[0] == "ket" else Dim([str(l)]))
                chk.ob("state-network", f"TTNO.apply merged shape [{topo}: {n}]", shape is not None and [_dimset(d) for d in shape] == [_dimset(d) for d in want_shape] and rs.t is r["res"], fap.where, [repr(d) for d in (shape or [])], [repr(d) for d in want_shape], line=fap.node.lineno,
                       detail="each (state bond, operator bond) pair of the result is merged into one axis of size D_state * D_operator, physical axes keep the state's size; the result is stored on the same node of the new state")
                q = n2.__dict__.get("qn")
                wq = (f"operator-qn({o})", f"state-qn({n})") if op_major else (f"state-qn({n})", f"operator-qn({o})")
                okq = isinstance(q, _Outer) and (q.a, q.b) == wq
                chk.ob("state-network", f"TTNO.apply merged quantum numbers [{topo}: {n}]", okq, fap.where, (q.a, q.b) if isinstance(q, _Outer) else repr(q), wq, line=fap.node.lineno,
                       detail=f"the merged parent bond is (state, operator) with the {'operator' if op_major else 'state'} index major: its quantum numbers must be add_outer of the two label arrays in the same order, otherwise the "
                              "labels of the merged bond are permuted (invisible when either bond has dimension one or all labels are equal)")
        # ---- todense
        for who, fi in (("ttns", ftd_s), ("ttno", ftd_o)):
            if ("todense_s" if who == "ttns" else "todense_o") not in which:
                continue
            rec, oe = _recorder()
            w = World(src, topology=topo, extra_builtins={"oe_contract": oe, "round": lambda x: x, "BasisDummy": None})
            obj = getattr(w, who)
            order = list(reversed(w.ttns.basis.basis_list))
            obj.__dict__["basis"] = w.ttns.basis
            w.interp.builtins["np"] = Sym("np", sqrt=lambda x: Blob("dim"), prod=lambda x: Blob("n"))
            w.interp.builtins["round"] = lambda x: Blob("dim")
            w.methods[who]["todense"] = fi
            w.interp.call_function(fi, [obj, order])
            if len(rec) != 1:
                raise AnalysisError(f"{fi.where}: {len(rec)} contractions recorded")
            r = rec[0]
            dofs = [(bs.dofs.split(".")[0], int(bs.dofs.split(".s")[1])) for bs in order]
            if who == "ttns":
                want = [("kphys", a, k) for a, k in dofs]
                wt = [repr(x.tensor) for x in w.snodes]
            else:
                want = [("bphys", a, k) for a, k in dofs] + [("kphys", a, k) for a, k in dofs]
                wt = [repr(x.tensor) for x in w.onodes]
            _net_ob(chk, "state-network", f"{fi.qual} [{topo}]", fi, r, wt, want,
                    "the dense form contracts all node tensors over their bonds; axes follow `order`" + ("" if who == "ttns" else ", all rows (up) first, then all columns (down)"))
        # ---- expectation1
        if "expectation1" in which:
            rec, oe = _recorder()
            w = World(src, topology=topo, extra_builtins={"oe_contract": lambda *a, **k: Blob(repr(oe(*a, **k))), "float": lambda x: 0.0, "complex": lambda x: 0j,
                                                          "np": Sym("np", isclose=lambda *a: True)})
            w.interp.call_function(fe1, [w.ttns, w.ttno])
            if len(rec) != 1:
                raise AnalysisError(f"{fe1.where}: {len(rec)} contractions recorded")
            wt = [repr(x.tensor) for x in w.snodes] + [repr(x.tensor) + ".conj()" for x in w.snodes] + [repr(x.tensor) for x in w.onodes]
            _net_ob(chk, "state-network", f"TTNS.expectation1 [{topo}]", fe1, rec[0], wt, None, "<psi|O|psi> contracts every ket, bra and operator tensor, no open index")
        # ---- reduced density matrices (dummy operator: every physical index of other nodes is contracted ket-bra directly)
        allphys = {(x._name, k) for x in World(src, topology=topo).snodes for k in range(x.nsets)}
        for n_idx in (range(nn) if "rdm1" in which else ()):
            rec, oe = _recorder(direct=allphys - {(TOPO_LEN(topo)[n_idx][0], k) for k in range(TOPO_LEN(topo)[n_idx][1])}, dangling_ok=("op",))
            w = World(src, dummy_op=True, topology=topo, extra_builtins={"oe_contract": oe})
            w.interp.builtins.update({"TTNO": Sym("TTNO", dummy=lambda basis: w.ttno), "TTNEnviron": lambda *a: w.ttne})
            n = w.snodes[n_idx]
            out = w.interp.call_function(fr1, [w.ttns, [n_idx]])
            if len(rec) != 1 or not (isinstance(out, dict) and out.get(n_idx) is rec[0]["res"]):
                raise AnalysisError(f"{fr1.where}: the contraction result is not returned under the site index")
            e = w.e(n)
            wt = [repr(t) for t in e.environ_children] + [repr(n.tensor) + ".conj()", repr(n.tensor), repr(e.environ_parent)]
            want = [("kphys", n._name, k) for k in range(n.nsets)] + [("bphys", n._name, k) for k in range(n.nsets)]
            _net_ob(chk, "state-network", f"calc_1site_rdm [{topo}: {n}]", fr1, rec[0], wt, want,
                    "rho = Tr_rest |psi><psi|: all environments of the node, the node and its conjugate; output = ket (down) indices followed by bra (up) indices as documented")
        for i1 in (range(nn) if "rdm2" in which else ()):
            for i2 in range(nn):
                if i1 == i2:
                    continue
                names = [x[0] for x in TOPO_LEN(topo)]
                open_phys = {(names[i], k) for i in (i1, i2) for k in range(TOPO_LEN(topo)[i][1])}
                rec, oe = _recorder(direct=allphys - open_phys, dangling_ok=("op",))
                w = World(src, dummy_op=True, topology=topo, extra_builtins={"oe_contract": oe})
                w.ttns.__dict__["find_path"] = lambda a, b: _find_path(a, b)
                w.interp.builtins.update({"TTNO": Sym("TTNO", dummy=lambda basis: w.ttno), "TTNEnviron": lambda *a: w.ttne})
                out = w.interp.call_function(fr2, [w.ttns, [(i1, i2)]])
                if len(rec) != 1 or not (isinstance(out, dict) and out.get((i1, i2)) is rec[0]["res"]):
                    raise AnalysisError(f"{fr2.where}: the contraction result is not returned under the index pair")
                a, b = w.snodes[i1], w.snodes[i2]
                path = _find_path(a, b)
                wt = []
                for x in path:
                    wt += [repr(x.tensor), repr(x.tensor) + ".conj()"]
                    ex = w.e(x)
                    for j, c in enumerate(x.children):
                        if c not in path:
                            wt.append(repr(ex.environ_children[j]))
                    if x.parent is None or x.parent not in path:
                        wt.append(repr(ex.environ_parent))
                want = [("kphys", x._name, k) for x in (a, b) for k in range(x.nsets)] + [("bphys", x._name, k) for x in (a, b) for k in range(x.nsets)]
                _net_ob(chk, "state-network", f"calc_2site_rdm [{topo}: {a},{b}]", fr2, rec[0], wt, want,
                        f"rho_ij for nodes {a},{b}: the nodes on the path between them (kets and bras), every environment hanging off the path exactly once, "
                        "physical indices of intermediate nodes traced; output = ket indices of (i, j) then bra indices of (i, j)")


class _Reshapable(Sym):
    def __init__(self, t):
        super().__init__("reshaped(" + repr(t) + ")")
        self.t = t
        self.shape_arg = None

    def reshape(self, shape, *rest):
        self.shape_arg = list(shape) if not rest else [shape] + list(rest)
        return self


class _Outer(Sym):
    def __init__(self, a, b):
        super().__init__("add_outer")
        self.a, self.b = a, b

    def reshape(self, *a):
        return self


def _find_path(a, b):
    def anc(x):
        out = [x]
        while x.parent is not None:
            x = x.parent
            out.append(x)
        return out
    aa, ab = anc(a), anc(b)
    common = [x for x in aa if x in ab][0]
    return aa[:aa.index(common) + 1] + list(reversed(ab[:ab.index(common)]))



# ---------------------------------------------------------------------------------------------- sweep typestate
from fractions import Fraction

SWEEP_TOPOLOGIES = ("two", "chain", "star", "generic", "binary", "ternary")


class Tau:
    """symbolic time step c * tau"""
    def __init__(self, c=Fraction(1)):
        self.c = Fraction(c)

    def __neg__(self):
        return Tau(-self.c)

    def __truediv__(self, k):
        return Tau(self.c / k)

    def __mul__(self, k):
        return Tau(self.c * k) if isinstance(k, (int, Fraction)) else self

    __rmul__ = __mul__

    def __repr__(self):
        return f"{self.c}*tau"


class Res(Sym):
    """result of a local solver for a given target"""
    def __init__(self, kind, target):
        super().__init__(f"{kind}({target})")
        self.kind, self.target = kind, target

    def reshape(self, *a):
        return self

    def ravel(self):
        return self


class SweepState:
    """versions of the node tensors, signatures of the stored environments, gauge centre"""

    def __init__(self, w):
        self.w = w
        self.nodes = {n._name: n for n in w.snodes}
        self.ver = {k: 0 for k in self.nodes}
        self.sc, self.sp = {}, {}
        for n in w.snodes:
            self.sc[n._name] = self.ideal_c(n)
        for n in w.snodes:
            self.sp[n._name] = self.ideal_p(n)
        self.centre = ("node", w.snodes[0]._name)
        self.events = []
        self.problems = []
        for n in w.snodes:
            n.__dict__["_on_tensor_set"] = self.on_tensor_set

    # signatures
    def ideal_c(self, n):
        return ("c", n._name, self.ver[n._name], tuple(self.ideal_c(c) for c in n.children))

    def ideal_p(self, n):
        p = n.parent
        if p is None:
            return ("p", n._name)
        return ("p", n._name, self.ver[p._name], tuple(self.ideal_c(s) for s in p.children if s is not n), self.ideal_p(p))

    def build_c(self, n, *a):
        n = self.nodes[n._name]
        if n.parent is None:
            return
        self.sc[n._name] = ("c", n._name, self.ver[n._name], tuple(self.sc[c._name] for c in n.children))

    def build_p(self, n, i, *a):
        n = self.nodes[n._name]
        c = n.children[i]
        self.sp[c._name] = ("p", c._name, self.ver[n._name], tuple(self.sc[s._name] for s in n.children if s is not c), self.sp[n._name])

    def bad(self, msg):
        if msg not in self.problems:
            self.problems.append(msg)

    def fresh_c(self, c, who):
        if self.sc[c._name] != self.ideal_c(c):
            self.bad(f"{who} reads the children environment of the bond above {c}, which was built before a tensor below it changed")

    def fresh_p(self, n, who):
        if self.sp[n._name] != self.ideal_p(n):
            self.bad(f"{who} reads the parent environment of {n}, which was built before a tensor outside its sub-tree changed")

    # reads
    def read1(self, n, tau):
        who = f"evolve_1site({n})"
        for c in n.children:
            self.fresh_c(c, who)
        self.fresh_p(n, who)
        if self.centre != ("node", n._name):
            self.bad(f"{who} while the gauge centre is at {self.centre}")
        self.events.append(("1site", n._name, tau.c if isinstance(tau, Tau) else None))
        return (Res("1site", n._name), "j")

    def read0(self, ms, n, tau):
        who = f"evolve_0site(bond above {n})"
        self.fresh_c(n, who)
        self.fresh_p(n, who)
        if self.centre != ("bond", n._name):
            self.bad(f"{who} while the gauge centre is at {self.centre}")
        if not isinstance(ms, Mat) or ms.orient != ("child", "parent"):
            self.bad(f"{who}: the bond matrix is passed with axes {getattr(ms, 'orient', '?')}; hop_expr0 expects (child end, parent end)")
        self.events.append(("0site", n._name, tau.c if isinstance(tau, Tau) else None))
        return (Mat("ms_t", ms.orient if isinstance(ms, Mat) else ("?", "?")), "j")

    def read2(self, n, tau, kind="2site"):
        who = f"{kind}({n}+{n.parent})"
        p = n.parent
        for c in n.children:
            self.fresh_c(c, who)
        for c in p.children:
            if c is not n:
                self.fresh_c(c, who)
        self.fresh_p(p, who)
        if self.centre not in (("node", n._name), ("node", p._name)):
            self.bad(f"{who} while the gauge centre is at {self.centre}")
        self.events.append((kind, n._name, tau.c if isinstance(tau, Tau) else None))
        return Res("2site", n._name)

    # writes
    def on_tensor_set(self, node, value):
        if not (isinstance(value, Res) and value.kind == "1site" and value.target == node._name):
            self.bad(f"{node}.tensor is overwritten with {value!r}, not with the one-site solution of {node}")
        self.ver[node._name] += 1

    def decompose_to_parent(self, n):
        if self.centre != ("node", n._name):
            self.bad(f"decompose_to_parent({n}) while the gauge centre is at {self.centre}")
        self.ver[n._name] += 1
        self.centre = ("bond", n._name)
        return Mat("ms", ("parent", "child"))

    def merge_to_parent(self, n, v):
        if self.centre != ("bond", n._name):
            self.bad(f"merge_to_parent({n}) while the gauge centre is at {self.centre}")
        if not isinstance(v, Mat) or v.orient != ("parent", "child"):
            self.bad(f"merge_to_parent({n}): bond matrix passed with axes {getattr(v, 'orient', '?')}, expected (parent end, child end)")
        self.ver[n.parent._name] += 1
        self.centre = ("node", n.parent._name)

    def push_cano_to_parent(self, n):
        self.merge_to_parent(n, self.decompose_to_parent(n))

    def decompose_to_child(self, n, i):
        if self.centre != ("node", n._name):
            self.bad(f"decompose_to_child({n}, {i}) while the gauge centre is at {self.centre}")
        self.ver[n._name] += 1
        self.centre = ("bond", n.children[i]._name)
        return Mat("ms", ("child", "parent"))

    def merge_to_child(self, n, i, v):
        c = n.children[i]
        if self.centre != ("bond", c._name):
            self.bad(f"merge_to_child({n}, {i}) while the gauge centre is at {self.centre}")
        if not isinstance(v, Mat) or v.orient != ("child", "parent"):
            self.bad(f"merge_to_child({n}, {i}): bond matrix passed with axes {getattr(v, 'orient', '?')}, expected (child end, parent end)")
        self.ver[c._name] += 1
        self.centre = ("node", c._name)

    def push_cano_to_child(self, n, i):
        self.merge_to_child(n, i, self.decompose_to_child(n, i))

    def update_2site(self, n, tensor, m=None, percent=0, cano_parent=True):
        p = n.parent
        if self.centre not in (("node", n._name), ("node", p._name)):
            self.bad(f"update_2site({n}) while the gauge centre is at {self.centre}")
        if not (isinstance(tensor, Res) and tensor.kind == "2site" and tensor.target == n._name):
            self.bad(f"update_2site({n}) receives {tensor!r}, not the two-site solution of {n} and its parent")
        self.ver[n._name] += 1
        self.ver[p._name] += 1
        self.centre = ("node", p._name if cano_parent else n._name)


def _sweep_world(src, topo, entry_funcs):
    w = World(src, topology=topo)
    st = SweepState(w)
    for name in ("decompose_to_parent", "merge_to_parent", "push_cano_to_parent", "decompose_to_child", "merge_to_child", "push_cano_to_child", "update_2site"):
        w.overrides[("ttns", name)] = getattr(st, name)
    w.overrides[("ttns", "check_canonical")] = lambda *a: None
    w.overrides[("ttne", "build_children_environ_node")] = st.build_c
    w.overrides[("ttne", "build_parent_environ_node")] = st.build_p
    for name in ("update_1bond", "update_1site", "update_2site"):
        w.methods["ttne"][name] = src.func(TREE, "TTNEnviron." + name)
    b = w.interp.builtins
    b["evolve_1site"] = lambda snode, ttns, ttno, ttne, coeff, tau: st.read1(snode, tau)
    b["evolve_0site"] = lambda ms, snode, ttns, ttno, ttne, coeff, tau: st.read0(ms, snode, tau)
    b["evolve_2site"] = lambda snode, ttns, ttno, ttne, coeff, tau: (st.read2(snode, tau), "j")
    b["optimize_2site"] = lambda snode, ttns, ttno, ttne: ("e", st.read2(snode, None, "optimize_2site"))
    b["TTNEnviron"] = lambda ttns, ttno: w.ttne
    b["stats"] = Blob("stats")
    b["logger"] = Blob("logger")
    w.interp.max_depth = 40
    for rel, qual in entry_funcs:
        fi = src.func(rel, qual)
        b[qual] = (lambda fi: (lambda *a, **k: w.interp.call_function(fi, list(a), k)))(fi)
    return w, st


def sweep_typestate(chk, src, schemes=("ps1", "ps2")):
    chk.rule("sweep-typestate", "abstract run of the projector-splitting sweeps on symbolic trees: every environment read by a local solver was rebuilt after the last change of every "
             "tensor it contains; every local problem is solved at the gauge centre; bond matrices are passed in the orientation the consumer expects; the sweep ends with the centre at the root", 10)
    chk.rule("sweep-splitting", "each half-sweep uses tau/2 and realises the projector splitting exactly once: one-site scheme = every node once forward and every bond once backward; "
             "two-site scheme = every bond once forward and, between consecutive two-site problems, their shared node once backward", 8)
    helpers = [(TEVO, q) for q in ("_tdvp_ps_forward", "_tdvp_ps_backward", "_tdvp_ps2_recursion_forward", "_tdvp_ps2_recursion_backward")]
    for scheme in schemes:
        fi = src.func(TEVO, "evolve_tdvp_ps" if scheme == "ps1" else "evolve_tdvp_ps2")
        for topo in SWEEP_TOPOLOGIES:
            w, st = _sweep_world(src, topo, helpers)
            marks = []
            orig = {}
            for rel, q in helpers:
                f0 = w.interp.builtins[q]
                w.interp.builtins[q] = (lambda f0, q: (lambda *a, **k: (marks.append((q, len(st.events), "in")), f0(*a, **k), marks.append((q, len(st.events), "out")))[1]))(f0, q)
            w.interp.call_function(fi, [w.ttns, w.ttno, "coeff", Tau()])
            ok = not st.problems and st.centre == ("node", w.snodes[0]._name)
            found = st.problems[:3] if st.problems else f"centre ends at {st.centre}"
            chk.ob("sweep-typestate", f"{fi.qual} [{topo}]", ok, fi.where, found, "no stale environment read, every local problem at the centre, centre back at the root", line=fi.node.lineno,
                   detail=f"{fi.qual} on the tree '{topo}': " + (st.problems[0] if st.problems else "the sweep does not return the gauge centre to the root") +
                          " - the local effective Hamiltonian does not belong to the current state: norm/energy drift or a wrong propagator without any exception")
            # top-level forward / backward halves
            tops = [m for m in marks if m[0] in (helpers[0][1], helpers[1][1]) or m[0] in (helpers[2][1], helpers[3][1])]
            depth, segs = 0, []
            for q, pos, io in marks:
                if io == "in":
                    if depth == 0:
                        start = (q, pos)
                    depth += 1
                else:
                    depth -= 1
                    if depth == 0:
                        segs.append((start[0], st.events[start[1]:pos]))
            nb = len(w.snodes) - 1
            if len(segs) != 2:
                chk.ob("sweep-splitting", f"{fi.qual} [{topo}]", False, fi.where, [s[0] for s in segs], "one forward and one backward half-sweep", line=fi.node.lineno)
                continue
            names = [n._name for n in w.snodes]
            for half, evs in (("forward", segs[0][1]), ("backward", segs[1][1])):
                got = sorted((k, n, str(c)) for k, n, c in evs)
                if scheme == "ps1":
                    want = sorted([("1site", n, "1/2") for n in names] + [("0site", n, "-1/2") for n in names[1:]])
                    ok = got == want
                    shown = want
                else:
                    two = sorted(e for e in got if e[0] == "2site")
                    one = [e for e in evs if e[0] == "1site"]
                    want2 = sorted(("2site", n, "1/2") for n in names[1:])
                    # P = sum_bonds P2 - sum_nodes (degree - 1) P1: a node with d bonds is evolved backward d - 1 times, each time next to a two-site problem containing it
                    par = {n._name: (n.parent._name if n.parent else None) for n in w.snodes}
                    deg = {n._name: len(n.children) + (1 if n.parent else 0) for n in w.snodes}
                    cnt1 = {n: sum(1 for e in one if e[1] == n) for n in names}
                    seq_ok = all(e[2] == Fraction(-1, 2) for e in one)
                    for i, e in enumerate(evs):
                        if e[0] != "1site":
                            continue
                        near = [evs[j] for j in (i - 1, i + 1) if 0 <= j < len(evs) and evs[j][0] == "2site"]
                        if not any(e[1] in (x[1], par[x[1]]) for x in near):
                            seq_ok = False
                    ok = two == want2 and cnt1 == {n: deg[n] - 1 for n in names} and seq_ok
                    shown = {"two-site": want2, "one-site backward (-tau/2)": {n: deg[n] - 1 for n in names if deg[n] > 1}}
                chk.ob("sweep-splitting", f"{fi.qual} {half} [{topo}]", ok, fi.where, [f"{k}({n},{c})" for k, n, c in evs], shown, line=fi.node.lineno,
                       detail=f"{fi.qual} on '{topo}', {half} half-sweep: a local problem is skipped, repeated, or evolved with the wrong sign or a step other than tau/2: "
                              "the projector terms no longer sum to the tangent-space projector, so even at full bond dimension the propagator is wrong")
            if segs[1][1] != segs[0][1][::-1]:
                chk.note(f"{fi.qual} [{topo}]: the backward half-sweep is not the mirror image of the forward one (children are visited in the same order both times); "
                         "this does not affect exactness at sufficient bond dimension (the property), only the order of the splitting error at truncated bond dimension")


def gs_sweep_typestate(chk, src):
    chk.rule("tree-sweep", "abstract run of the tree DMRG sweep on symbolic trees: every two-site problem reads fresh environments, is solved at the gauge centre, every bond is "
             "optimised, and the centre returns to the root", 6)
    fi = src.func(TGS, "optimize_recursion")
    for topo in SWEEP_TOPOLOGIES:
        w, st = _sweep_world(src, topo, [(TGS, "optimize_recursion")])
        w.interp.call_function(fi, [w.ttns.root, w.ttns, w.ttno, w.ttne, "m", "percent"])
        bonds = sorted(n._name for n in w.snodes[1:])
        visited = sorted({n for k, n, c in st.events})
        ok = not st.problems and st.centre == ("node", w.snodes[0]._name) and visited == bonds
        found = st.problems[:3] if st.problems else {"centre": st.centre, "bonds optimised": visited}
        chk.ob("tree-sweep", f"optimize_recursion [{topo}]", ok, fi.where, found, {"centre": ("node", w.snodes[0]._name), "bonds optimised": bonds}, line=fi.node.lineno,
               detail=f"tree DMRG sweep on '{topo}': " + (st.problems[0] if st.problems else "a bond is never optimised or the centre is not returned to the root") +
                      " - the eigenproblem solved is not the projection of H on the current tangent space (energies are no longer variational upper bounds of the returned state)")



# ---------------------------------------------------------------------------------------------- VMF pack / unpack
class Mask(Sym):
    def __init__(self, owner, node):
        super().__init__(f"mask({owner},{node})")
        self.owner, self.node = owner, node

    def reshape(self, *a):
        return self


class Chunk(Sym):
    def __init__(self, what, mask):
        super().__init__(f"{what}[{mask!r}]")
        self.what, self.mask = what, mask

    def ravel(self):
        return self


class Deriv(Sym):
    def __init__(self, node):
        super().__init__(f"deriv({node})")
        self.node = node
        self.shape = "deriv-shape"

    def reshape(self, *a):
        return self

    def __getitem__(self, m):
        return Chunk(f"deriv({self.node})", m)


class PTensor(T):
    def __getitem__(self, m):
        return Chunk(self._name, m)

    def reshape(self, *a):
        return Blob("reshaped")


def pack_unpack(chk, src):
    chk.rule("pack-unpack", "the variable-mean-field state vector is packed, differentiated and unpacked node by node in one order, each node restricted by the sector mask of that node; "
             "the tangent-space projector and the inverse overlap of the node's own parent bond are applied to every node but the root", 6)
    ev = src.func(TEVO, "evolve_tdvp_vmf")
    td = src.func(TEVO, "time_derivative_vmf")
    ft = src.func(TREE, "TTNS.from_tensors")
    for topo in ("generic", "ternary"):
        w = World(src, topology=topo)
        for n in w.snodes:
            n.__dict__["tensor"] = PTensor(n.tensor._name, n.tensor.legs)
        w.overrides[("ttns", "get_qnmask")] = lambda node, *a: Mask("ttns", node._name)
        want = [(f"{n._name}", f"mask(ttns,{n._name})") for n in w.snodes]
        # pack: evolve_tdvp_vmf is run up to the call of the integrator, whose initial vector is recorded
        class _Reached(Exception):
            pass
        seen_y0 = []

        def _ivp(fun, span, y0, *a, **k):
            seen_y0.append(y0)
            raise _Reached()
        b0 = w.interp.builtins
        saved_np, saved_ivp = b0.get("np"), b0.get("solve_ivp")
        b0["np"] = Sym("np", concatenate=lambda l, **k: list(l))
        b0["solve_ivp"] = _ivp
        w.ttns.__dict__["evolve_config"] = Blob("evolve_config")
        try:
            w.interp.call_function(ev, [w.ttns, w.ttno, Blob("coeff"), Blob("tau")])
        except _Reached:
            pass
        finally:
            if saved_np is not None:
                b0["np"] = saved_np
            if saved_ivp is not None:
                b0["solve_ivp"] = saved_ivp
            else:
                b0.pop("solve_ivp", None)
        if len(seen_y0) != 1 or not isinstance(seen_y0[0], list):
            raise AnalysisError(f"{ev.where}: the initial vector handed to solve_ivp was not observed")
        packed = seen_y0[0]
        got = [(c.what.replace(".tensor", ""), repr(c.mask)) if isinstance(c, Chunk) else repr(c) for c in packed]
        chk.ob("pack-unpack", f"evolve_tdvp_vmf packs [{topo}]", got == want, ev.where, got, want, line=ev.node.lineno,
               detail="the initial vector must be the masked entries of the node tensors in node_list order")
        # derivative
        b = w.interp.builtins
        class Ovlp(Sym):
            """parent-bond overlap of one node (and its regularised inverse)"""
            def reshape(self, *a):
                return self

            @property
            def T(self):
                return self
        b["TTNEnviron"] = lambda ttns_, op_, *a: Sym("env", node_list=[Sym("enode", environ_parent=Ovlp(f"overlap above {n._name}", node=n._name, of=("identity" if op_ == "dummy" else "hamiltonian"))) for n in w.snodes])
        b["TTNO"] = Sym("TTNO", dummy=lambda basis: "dummy")
        b["hop_expr1"] = lambda node, *a: (lambda tensor: Deriv(node._name))
        b["regularized_inversion"] = lambda m, *a: Ovlp(f"inverse of the {m._name}", node=getattr(m, "node", None), of=getattr(m, "of", None), inverted=True) if isinstance(m, Ovlp) else Blob("inv")
        b["xp"] = Blob("xp")
        b["asxp"] = lambda x: x
        projections = {}

        def contract(spec, *a):
            d = [x for x in a if isinstance(x, Deriv)][0]
            inv = [x for x in a if isinstance(x, Ovlp)]
            projections[d.node] = [(x.node, x.of, getattr(x, "inverted", False)) for x in inv]
            return d
        b["oe_contract"] = contract
        b["np"] = Sym("np", concatenate=lambda l: l)
        w.ttns.__dict__["evolve_config"] = Blob("evolve_config")
        out = w.interp.call_function(td, [w.ttns, w.ttno])
        got = [(c.what.replace("deriv(", "").rstrip(")"), repr(c.mask)) if isinstance(c, Chunk) else repr(c) for c in out]
        chk.ob("pack-unpack", f"time_derivative_vmf emits [{topo}]", got == want, td.where, got, want, line=td.node.lineno,
               detail="derivative entries must line up with the packed state vector: same node order, same sector mask, derivative of that node")
        # gauge: every node below the root is projected on the complement of its own tensor and multiplied by the inverse overlap of its own parent bond; the root keeps the
        # full derivative (its component along the root tensor is the phase and the norm of the state)
        rootname = w.snodes[0]._name if w.snodes[0].parent is None else [n._name for n in w.snodes if n.parent is None][0]
        want_proj = {n._name: [(n._name, "identity", True)] for n in w.snodes if n._name != rootname}
        chk.ob("pack-unpack", f"time_derivative_vmf gauge [{topo}]", projections == want_proj, td.where, {k_: v_ for k_, v_ in projections.items() if want_proj.get(k_) != v_} or "as expected",
               "non-root nodes: projector and inverse overlap of their own parent bond (identity environment); root: unprojected", line=td.node.lineno,
               detail="projecting the root's derivative removes the global phase exp(-i<H>t) (real time) and the norm decay (imaginary time) from the evolved state; a node projected with "
                      "another node's overlap, or with the Hamiltonian environment, evolves in the wrong metric")
        # unpack
        w2 = World(src, topology=topo)
        stores = []

        class Z(Sym):
            def __setitem__(self, k, v):
                stores.append((self._name, repr(k), v))
        template = w2.ttns
        new = World(src, topology=topo).ttns
        for n in new.node_list:
            n.__dict__["_on_tensor_set"] = (lambda node, v: node.__dict__.__setitem__("tensor", v))
        w2.overrides[("ttns", "get_qnmask")] = lambda node, *a: Mask("ttns", node._name)
        w2.overrides[("ttns", "metacopy")] = lambda: new
        w2.overrides[("ttns", "check_shape")] = lambda: None

        class Vec(Sym):
            dtype = "dtype"

            def __getitem__(self, sl):
                return ("slice", sl.start, sl.stop)

            def __len__(self):
                return 0
        cur = [0]
        w2.interp.builtins["np"] = Sym("np", sum=lambda m: Cur(1, m), zeros=lambda shape, dtype=None: Z("zeros"))
        new.__dict__["check_shape"] = lambda: None
        for n in w2.snodes:
            n.__dict__["qn"] = "qn"
        for n in new.node_list:
            n.__dict__["qn"] = None
        out_tree = w2.interp.call_function(ft, ["cls", template, Vec("tensors")])
        if out_tree is not new:
            raise AnalysisError(f"{ft.where}: does not return the metacopy of the template")
        got = []
        okseq = True
        prev = Cur(0, None)
        for (name, key, v), nd in zip(stores, new.node_list):
            got.append((nd._name, key))
            if not (isinstance(v, tuple) and v[0] == "slice" and (v[1] == prev or (v[1] == 0 and not prev.terms)) and isinstance(v[2], Cur) and v[2].terms == prev.terms + (f"mask(ttns,{nd._name})",)):
                okseq = False
            prev = v[2] if isinstance(v, tuple) else prev
        ok = got == want and okseq and len(stores) == len(want) and all(nd.__dict__["tensor"].__class__.__name__ == "Z" for nd in new.node_list)
        chk.ob("pack-unpack", f"TTNS.from_tensors unpacks [{topo}]", ok, ft.where, {"stores": got, "consecutive slices": okseq}, {"stores": want, "consecutive slices": True}, line=ft.node.lineno,
               detail="the flat vector must be cut into consecutive slices, one per node in node_list order, each as long as that node's mask and scattered through the same mask")
    calls = [c for c in ast.walk(ev.node) if isinstance(c, ast.Call) and unparse(c.func) == "TTNS.from_tensors"]
    ok = len(calls) >= 2 and all(unparse(c.args[0]) == "ttns" for c in calls)
    chk.ob("pack-unpack", "evolve_tdvp_vmf unpacks with the state that was packed as template", ok, ev.where, [unparse(c) for c in calls], "TTNS.from_tensors(ttns, ...)", line=ev.node.lineno)


class Cur:
    """symbolic cursor: sum of mask lengths"""
    def __init__(self, n, mask, terms=()):
        self.terms = tuple(terms) if mask is None else (repr(mask),)

    def __add__(self, o):
        c = Cur(0, None)
        c.terms = self.terms + (o.terms if isinstance(o, Cur) else ())
        return c

    def __radd__(self, o):
        c = Cur(0, None)
        c.terms = self.terms
        return c

    def __eq__(self, o):
        return isinstance(o, Cur) and self.terms == o.terms

    def __hash__(self):
        return hash(self.terms)

    def __repr__(self):
        return "+".join(self.terms) or "0"


# ---------------------------------------------------------------------------------------------- TTNO builder: column bookkeeping
class ColTable(Sym):
    """abstract term table: only the identity of the columns is tracked"""
    def __init__(self, cols):
        super().__init__("table")
        self.cols = list(cols)

    @property
    def shape(self):
        return ("NTERMS", len(self.cols))

    def __getitem__(self, key):
        if isinstance(key, tuple) and len(key) == 2 and isinstance(key[0], slice) and isinstance(key[1], slice):
            return ColTable(self.cols[key[1]])
        raise AnalysisError("table indexing outside the column-tracking fragment")


def builder_columns(chk, src):
    """abstractly interpret construct_symbolic_ttno on symbolic trees: at every node the row part of the table must be
    [out column of each child, in child order] + [the node's own physical columns]"""
    chk.rule("builder-columns", "post-order TTNO construction: the one-site decomposition of a node sees exactly its children's bond columns (in child order) "
             "followed by its own physical columns, and receives the children's bond operators in the same order", 8)
    fi = src.func(TTNOB, "construct_symbolic_ttno")
    trees = []

    def mk(spec):
        nodes = {}
        for name, nsets, parent in spec:
            n = Node(name, nsets)
            n.basis_sets = [f"{name}.b{k}" for k in range(nsets)]
            n.n_sets = nsets
            nodes[name] = n
            if parent:
                nodes[parent].link(n)
        root = nodes[spec[0][0]]
        order = []

        def post(x):
            for c in x.children:
                post(c)
            order.append(x)
        post(root)
        return root, order
    trees.append(("chain", mk([("r", 1, None), ("a", 1, "r"), ("b", 1, "a")])))
    trees.append(("binary", mk([("r", 1, None), ("a", 1, "r"), ("b", 1, "r"), ("a1", 1, "a"), ("a2", 1, "a"), ("b1", 1, "b")])))
    trees.append(("ternary+multiset", mk([("r", 2, None), ("a", 1, "r"), ("b", 2, "r"), ("c", 1, "r"), ("b1", 1, "b"), ("c1", 1, "c"), ("c2", 3, "c")])))
    trees.append(("dummy-like inner node", mk([("r", 1, None), ("m", 1, "r"), ("x", 1, "m"), ("y", 1, "m"), ("z", 1, "r")])))
    for tname, (root, order) in trees:
        log = []

        class NP:
            uint16 = "uint16"

            @staticmethod
            def zeros(shape, dtype=None):
                return ColTable(["zero"])

            @staticmethod
            def concatenate(parts, axis=None):
                out = []
                for p in parts:
                    out += p.cols
                return ColTable(out)

            @staticmethod
            def roll(t, m, axis=None):
                m = m % len(t.cols) if t.cols else 0
                return ColTable(t.cols[-m:] + t.cols[:-m]) if m else ColTable(t.cols)

            @staticmethod
            def all(x):
                return True

            @staticmethod
            def array(x, **k):
                return x

        class OutOps(list):
            """outgoing operators of one node: a list of [operator tuple] rows, known to the rule by the node it belongs to"""
            def __init__(self, tag):
                super().__init__([[Sym("optuple", qn="qn", symbol=(0, 0), factor=1)]])
                self.tag = tag

            def __eq__(self, o):
                return self.tag == o if isinstance(o, str) else (isinstance(o, OutOps) and o.tag == self.tag)

            def __ne__(self, o):
                return not self.__eq__(o)

            def __hash__(self):
                return hash(self.tag)

            def __repr__(self):
                return self.tag

        def one_site(table_row, table_col, in_ops_list, factor, primary_ops, algo, k):
            log.append((list(table_row.cols), list(in_ops_list), k))
            node = order[len(log) - 1]
            return OutOps(f"out({node})"), ColTable([f"out({node})"] + table_col.cols), factor

        def terms_to_table(model, terms, const):
            return ColTable(model.basis), "primary_ops", "factor"
        tn = Sym("tn", postorder_list=lambda: list(order))
        builtins = {
            "np": Sym("np", zeros=NP.zeros, concatenate=NP.concatenate, roll=NP.roll, all=NP.all, array=lambda x, **k: _Cmp(x), uint16="uint16"),
            "chain": __import__("itertools").chain,
            "Model": lambda basis, terms: Sym("model", basis=list(basis), qn_size=1),
            "_terms_to_table": terms_to_table, "_construct_symbolic_mpo_one_site": one_site,
            "OpTuple": lambda *a, **k: "dummy", "compose_symbolic_mo_general": lambda *a: "mo", "List": None,
        }

        def resolver(recv, name):
            if isinstance(recv, Sym) and name in recv.__dict__ and callable(recv.__dict__[name]):
                return recv.__dict__[name]
            return None
        it = SymInterp(src, resolver, builtins)
        # the whole function is interpreted; the assembly of the symbolic matrices (checked by `layout`) and of the label arrays works on stand-ins
        env = it.new_env(fi, tn=tn, terms="terms", const=0, algo="qr")
        try:
            body = fi.node.body
            for s in body:
                if isinstance(s, ast.Return):
                    break
                if isinstance(s, ast.Expr):
                    continue
                if isinstance(s, ast.AnnAssign) and s.value is None:
                    continue
                it.stmt(s, env, fi)
        except AnalysisError as e:
            raise AnalysisError(f"construct_symbolic_ttno not interpretable on the symbolic tree '{tname}': {e}")
        except (IndexError, ValueError, KeyError) as e:
            chk.ob("builder-columns", f"{tname}: construction", False, fi.where, f"{type(e).__name__}: {e}", "every child is decomposed before its parent", line=fi.node.lineno,
                   detail=f"on the tree '{tname}' the construction loop uses the result of a node that has not been visited yet")
            continue
        if len(log) != len(order):
            raise AnalysisError(f"construct_symbolic_ttno: {len(log)} decompositions for {len(order)} nodes on tree '{tname}'")
        for node, (row, in_ops, k) in zip(order, log):
            want_row = [f"out({c})" for c in node.children] + list(node.basis_sets) if node.children else ["zero"] + list(node.basis_sets)
            want_in = [f"out({c})" for c in node.children] if node.children else None
            ok = row == want_row and k == node.nsets and (want_in is None or in_ops == want_in)
            chk.ob("builder-columns", f"{tname}: node {node}", ok, fi.where, {"row columns": row, "incoming operators": in_ops if want_in is not None else "dummy", "k": k},
                   {"row columns": want_row, "incoming operators": want_in or "dummy", "k": node.nsets}, line=fi.node.lineno,
                   detail=f"on the tree '{tname}' the decomposition at node {node} does not see its children's bond columns in child order followed by its own physical columns: "
                          f"the operator is wrong for this topology (it can still be right for chains)")


class _Cmp:
    def __init__(self, x):
        self.x = x

    def __lt__(self, o):
        return True


# ---------------------------------------------------------------------------------------------- decompositions: axis order, labels, bond index
class QItem:
    """quantum-number labels of one tensor leg; direction 'in' (flowing up from below) or 'out' (qntot - qn)"""
    def __init__(self, leg, direction, side=None):
        self.leg, self.direction, self.side = leg, direction, side

    def copy(self):
        return self

    def __repr__(self):
        return f"qn[{self.leg},{self.direction}]" if self.side is None else f"qn-new[{self.side}]"


class QTot:
    def __sub__(self, o):
        if isinstance(o, QItem) and o.side is not None:
            return QItem(o.leg, o.direction, {"L": "R", "R": "L"}[o.side])
        if isinstance(o, QItem):
            return QItem(o.leg, {"in": "out", "out": "in"}[o.direction])
        raise AnalysisError("qntot - <unknown>")


class QList(Sym):
    def __init__(self, items):
        super().__init__("qnlist")
        self.items = list(items)

    @property
    def shape(self):
        return tuple(Dim([str(i.leg)]) for i in self.items)


class ProdDim:
    def __init__(self, names):
        self.names = tuple(names)

    def __eq__(self, o):
        return isinstance(o, ProdDim) and self.names == o.names

    def __hash__(self):
        return hash(self.names)


class SumDim:
    def __init__(self, a, b):
        self.a, self.b = a, b

    def __eq__(self, o):
        return isinstance(o, SumDim) and (self.a, self.b) == (o.a, o.b)

    def __hash__(self):
        return hash((self.a, self.b))

    def __repr__(self):
        return f"{self.a}+{self.b}"


def _dim_of(leg):
    return 1 if (isinstance(leg[1], tuple) and leg[1][0] == "root") else Dim([str(leg)])


class DT(T):
    """tensor with reshape support: the result of a reshape to two dimensions remembers which legs went to rows / columns"""
    problems = None

    def reshape(self, *shape):
        sh = list(shape[0]) if len(shape) == 1 and isinstance(shape[0], (list, tuple)) else list(shape)
        if len(sh) == 2 and sh[0] == -1:
            if sh[1] == _dim_of(self.legs[-1]) or sh[1] == self.shape[-1]:
                return Flat2(self.legs[:-1], self.legs[-1:])
            DT.problems.append(f"reshape(-1, {sh[1]}) of {self!r}: the column dimension is not the last axis")
            return Flat2(self.legs[:-1], self.legs[-1:])
        if len(sh) == 2 and sh[1] == -1 and isinstance(sh[0], ProdDim):
            k = len(sh[0].names)
            if [str(l) for l in self.legs[:k]] != list(sh[0].names):
                DT.problems.append(f"reshape(prod(row labels), -1) of {self!r}: row labels {sh[0].names} are not the leading axes {self.legs[:k]}")
            return Flat2(self.legs[:k], self.legs[k:])
        raise AnalysisError(f"reshape{tuple(sh)} of {self!r} outside the fragment")

    def conj(self):
        return self


class Flat2(Sym):
    def __init__(self, rows, cols):
        super().__init__("matrix")
        self.rows, self.cols = list(rows), list(cols)


class Factor(Sym):
    """isometric factor of a decomposition: axes (rows..., new) or, transposed, (new, rows...)"""
    def __init__(self, rows, side, transposed=False):
        super().__init__(f"factor[{side}]" + (".T" if transposed else ""))
        self.rows, self.side, self.transposed = list(rows), side, transposed

    @property
    def shape(self):
        a, b = ProdDim([str(l) for l in self.rows]), Dim(["new"])
        return (b, a) if self.transposed else (a, b)

    @property
    def T(self):
        return Factor(self.rows, self.side, not self.transposed)

    def __getitem__(self, k):
        return self

    def __mul__(self, o):
        return self

    __rmul__ = __mul__

    def copy(self):
        return self

    def reshape(self, *shape):
        sh = list(shape[0]) if len(shape) == 1 and isinstance(shape[0], (list, tuple)) else list(shape)
        want = [_dim_of(l) for l in self.rows]
        new = ("new", self.side)
        def isnew(x):
            return x == -1 or x == Dim(["new"]) or isinstance(x, (str, MinOf))
        if not self.transposed and len(sh) == len(want) + 1 and sh[:-1] == want and isnew(sh[-1]):
            return DT("reshaped-factor", self.rows + [new])
        if self.transposed and len(sh) == len(want) + 1 and sh[1:] == want and isnew(sh[0]):
            return DT("reshaped-factor", [new] + self.rows)
        DT.problems.append(f"{self!r} with row axes {self.rows} is reshaped to {sh}: the axes of the node are restored in a different order")
        return DT("reshaped-factor", (self.rows + [new]) if not self.transposed else ([new] + self.rows))


def _moveaxis(t, a, b):
    legs = list(t.legs)
    n = len(legs)
    a, b = a % n, b % n
    x = legs.pop(a)
    legs.insert(b, x)
    return DT(t._name + ".moved", legs)


class MList(list):
    pass


def _decomp_world(src, topo, log):
    w = World(src, topology=topo)
    DT.problems = log["problems"]
    for n in w.snodes:
        n.__dict__["tensor"] = DT(n.tensor._name, n.tensor.legs)
        n.__dict__["qn"] = QItem(("ket", n.bond_up), "in")
    w.ttns.__dict__["qntot"] = QTot()
    w.ttns.__dict__["tn2bn"] = SymDict(lambda x: Sym(f"bn({x})", n_sets=x.nsets, basis_sets=[Sym("b", sigmaqn=QItem(("kphys", x._name, k), "in")) for k in range(x.nsets)]))
    for name in ("get_qnmat", "decompose_to_parent", "decompose_to_child", "merge_to_child", "compress_node", "update_2site"):
        w.methods["ttns"][name] = src.func(TREE, "TTNS." + name)
    fmove = src.func(TREE, "moveaxis")

    def add_outer(a, b):
        items = list(a.items) + (list(b.items) if isinstance(b, QList) else [b])
        return QList(items)

    def svd_qn(tensor, qnbigl, qnbigr, qntot, QR=False, system=None, full_matrices=True):
        cols = qnbigr.items if isinstance(qnbigr, QList) else [qnbigr]
        if not isinstance(tensor, Flat2):
            raise AnalysisError("svd_qn is given a tensor that was not reshaped to a matrix")
        rl, cl = [i.leg for i in qnbigl.items], [i.leg for i in cols]
        nodes = {l[1] for l in tensor.rows + tensor.cols if l[0] == "kphys"}
        log["svd"].append({"rows": tensor.rows, "row labels": rl, "cols": tensor.cols, "col labels": cl})
        if rl != tensor.rows:
            log["problems"].append(f"row labels are ordered {rl} but the matrix rows are the axes {tensor.rows}: labels do not belong to the rows they describe")
        if cl != tensor.cols:
            log["problems"].append(f"column labels are ordered {cl} but the matrix columns are the axes {tensor.cols}")
        for i in list(qnbigl.items) + list(cols):
            if i.leg[0] == "ket":
                want = "in" if i.leg[1][0] in nodes else "out"
                if i.direction != want:
                    log["problems"].append(f"labels of {i.leg} enter as '{i.direction}', expected '{want}' (only the bond towards the root carries qntot - qn)")
        u, v = Factor(tensor.rows, "L"), Factor(tensor.cols, "R")
        ql, qr = QItem(None, None, "L"), QItem(None, None, "R")
        if QR:
            return u, ql, v, qr
        return u, Blob("s"), ql, v, Blob("s"), qr

    def select_basis(u, s, qn, v, m, percent=0):
        log.setdefault("kept", []).append(m)
        return Factor(u.rows, u.side), Blob("msdim"), qn, Factor(v.rows, v.side)

    def tensordot(a, v, axes=None):
        if not (isinstance(v, Factor) and not v.transposed and len(v.rows) == 1 and list(axes) == [-1, 0]):
            raise AnalysisError("tensordot outside the fragment")
        if a.legs[-1] != v.rows[0]:
            log["problems"].append(f"bond matrix whose first axis is {v.rows[0]} is contracted with axis {a.legs[-1]} of {a!r}")
        return DT(a._name + "*v", a.legs[:-1] + [("new", v.side)])

    def compute_m_trunc(s, idx, left=None):
        log["bond"].append(("config", idx, left))
        return "m_trunc"
    w.ttns.__dict__["compress_config"] = Sym("compress_config", bonddim_should_set=False, compute_m_trunc=compute_m_trunc)
    b = w.interp.builtins
    b.update({"add_outer": add_outer, "svd_qn": svd_qn, "select_basis": select_basis, "tensordot": tensordot,
              "truncate_tensors": lambda u, s, v, ql, qr, m: (log.setdefault("kept", []).append(m), (u, s, v, ql, qr))[1],
              "moveaxis": lambda *a: w.interp.call_function(fmove, list(a)),
              "isinstance": lambda x, t: isinstance(x, MList), "min": _smin, "len": lambda x: Blob("len(s)") if isinstance(x, Blob) else len(x),
              "np": Sym("np", zeros=lambda *a, **k: QList([]), prod=lambda sh: ProdDim([d.names[0] for d in sh]), array=lambda x: x, moveaxis=_moveaxis, ndarray=None)})
    sets = {}
    for n in w.snodes:
        n.__dict__["_on_tensor_set"] = (lambda node, v: (sets.setdefault(node._name, []).append(v), node.__dict__.__setitem__("tensor", v)))
    return w, sets


class MinOf:
    """min over a set of named bounds"""
    def __init__(self, items):
        self.items = frozenset(items)

    def __repr__(self):
        return "min(" + ", ".join(sorted(self.items)) + ")"

    def __eq__(self, o):
        return isinstance(o, MinOf) and o.items == self.items

    def __hash__(self):
        return hash(self.items)


def _smin(*a):
    if any(not isinstance(x, (str, MinOf, Blob)) for x in a):
        return a[0]        # a size of a reshape target: the symbolic kept count stands for the new bond
    out = set()
    for x in (a[0] if len(a) == 1 and isinstance(a[0], (list, tuple)) else a):
        out |= x.items if isinstance(x, MinOf) else {x if isinstance(x, str) else repr(x)}
    return MinOf(out)


def _kept_ok(kept, explicit):
    """the kept count handed to the truncation: the configured count (possibly capped by the number of singular values), or the explicit limit capped by it"""
    if not kept:
        return False
    m = kept[-1]
    items = m.items if isinstance(m, MinOf) else {m if isinstance(m, str) else repr(m)}
    if explicit is None:
        return "m_trunc" in items and items <= {"m_trunc", "len(s)"}
    return items == {explicit, "len(s)"}


def decomposition_axes(chk, src, topologies=NET_TOPOLOGIES):
    chk.rule("decomposition-axes", "every blocked QR/SVD of a node (or node pair) is given row/column labels in the order of the matrix rows/columns it was reshaped to, "
             "the factors are reshaped back to the node's axis order (children, physical, parent) with the new bond at the position of the old one, the label list of the "
             "new bond is stored on the child end with the side that child's sub-tree is on, and the kept-count is looked up under the index of the bond's child end", 30)
    for topo in topologies:
        spec = TOPO_LEN(topo)
        for n_idx in range(len(spec)):
            # ---------------- towards the parent
            if n_idx > 0:
                log = {"problems": [], "svd": [], "bond": []}
                w, sets = _decomp_world(src, topo, log)
                n = w.snodes[n_idx]
                legs0 = list(n.tensor.legs)
                v = w.interp.call_function(src.func(TREE, "TTNS.decompose_to_parent"), [w.ttns, n])
                got = sets.get(n._name, [None])[-1]
                ok = not log["problems"] and isinstance(got, T) and got.legs == legs0[:-1] + [("new", "L")] and isinstance(n.qn, QItem) and n.qn.side == "L" \
                    and isinstance(v, Factor) and v.rows == [legs0[-1]] and not v.transposed
                chk.ob("decomposition-axes", f"decompose_to_parent [{topo}: {n}]", ok, src.func(TREE, "TTNS.decompose_to_parent").where,
                       log["problems"][:2] or {"node axes": getattr(got, "legs", None), "node.qn": repr(n.qn), "returned": repr(v)},
                       {"node axes": legs0[:-1] + [("new", "L")], "node.qn": "labels of the new bond, sub-tree side (L)", "returned": "bond matrix (old parent bond, new bond)"},
                       detail=f"QR of {n} towards its parent: " + (log["problems"][0] if log["problems"] else "the orthogonal factor / its labels / the returned bond matrix are not in the documented layout") +
                              " - for block-sparse tensors the decomposition then mixes symmetry sectors or restores the node with permuted axes")
            n_children = len([s for s in spec if s[2] == spec[n_idx][0]])
            for i in range(n_children):
                for fn, extra in (("decompose_to_child", {}), ("compress_node[config]", {"cano_child": True}), ("compress_node[list]", {"cano_child": False})):
                    log = {"problems": [], "svd": [], "bond": []}
                    w, sets = _decomp_world(src, topo, log)
                    n = w.snodes[n_idx]
                    c = n.children[i]
                    legs0, clegs0 = list(n.tensor.legs), list(c.tensor.legs)
                    qual = "TTNS." + fn.split("[")[0]
                    fi = src.func(TREE, qual)
                    if fn == "decompose_to_child":
                        v = w.interp.call_function(fi, [w.ttns, n, i])
                        okv = isinstance(v, Factor) and v.rows == [legs0[i]] and v.side == "R" and not v.transposed
                        # merge_to_child with that matrix
                        w.interp.call_function(src.func(TREE, "TTNS.merge_to_child"), [w.ttns, n, i, v])
                    else:
                        ml = MList([f"limit[{k}]" for k in range(len(w.snodes))])
                        w.interp.call_function(fi, [w.ttns, n, i], {"temp_m_trunc": ml if "list" in fn else None, **extra})
                        okv = True
                    got = sets.get(n._name, [None])[-1]
                    gotc = sets.get(c._name, [None])[-1]
                    want = legs0[:i] + [("new", "L")] + legs0[i + 1:]
                    ok = not log["problems"] and okv and isinstance(got, T) and got.legs == want and isinstance(gotc, T) and gotc.legs == clegs0[:-1] + [("new", "R")] \
                        and isinstance(c.qn, QItem) and c.qn.side == "R"
                    chk.ob("decomposition-axes", f"{fn} [{topo}: {n} -> child {i}]", ok, fi.where,
                           log["problems"][:2] or {"node axes": getattr(got, "legs", None), "child axes": getattr(gotc, "legs", None), "child.qn": repr(c.qn)},
                           {"node axes": want, "child axes": clegs0[:-1] + [("new", "R")], "child.qn": "labels of the new bond as seen from the child (R)"}, line=fi.node.lineno,
                           detail=f"decomposition of {n} towards child {i}: " + (log["problems"][0] if log["problems"] else "node / child tensors or the child's labels are not restored in the documented layout") +
                                  " - wrong only for particular arities / child positions")
                    if fn.startswith("compress_node"):
                        if "list" in fn:
                            # the explicit list is indexed like the configuration
                            idxs = [x for x in ml if False]
                        want_idx = c.idx
                        cfg = [b_ for b_ in log["bond"] if b_[0] == "config"]
                        if "config" in fn:
                            okb = cfg == [("config", want_idx, False)] and _kept_ok(log.get("kept"), None)
                            found = {"config lookups": cfg, "kept count": repr((log.get("kept") or [None])[-1])}
                        else:
                            okb = _kept_ok(log.get("kept"), f"limit[{want_idx}]")
                            found = {"kept count": repr((log.get("kept") or [None])[-1])}
                        chk.ob("decomposition-axes", f"{fn} bond index [{topo}: {n} -> child {i}]", okb, fi.where, found,
                               {"config lookups": [("config", want_idx, False)], "kept count": "m_trunc"} if "config" in fn else {"kept count": f"min(len(s), limit[{want_idx}])"}, line=fi.node.lineno,
                               detail="the bond between a node and its child is configured under the child's index in node_list; an explicit limit is capped by the number of singular values")
            # ---------------- two-site update
            if n_idx > 0:
                for cano_parent in (True, False):
                    for mode in ("config", "list"):
                        log = {"problems": [], "svd": [], "bond": []}
                        w, sets = _decomp_world(src, topo, log)
                        n = w.snodes[n_idx]
                        p = n.parent
                        legs0, plegs0 = list(n.tensor.legs), list(p.tensor.legs)
                        fi = src.func(TREE, "TTNS.update_2site")
                        x2 = DT("two-site", _two_site_legs(n))
                        picked = []

                        class PL(MList):
                            def __getitem__(self, k):
                                picked.append(k)
                                return f"limit[{k}]"
                        kw = {"cano_parent": cano_parent}
                        if mode == "list":
                            kw["m"] = PL()
                        w.interp.call_function(fi, [w.ttns, n, x2], kw)
                        got, gotp = sets.get(n._name, [None])[-1], sets.get(p._name, [None])[-1]
                        ip = n.idx_as_child
                        sideN = "L"
                        want_n = legs0[:-1] + [("new", "L")]
                        want_p = plegs0[:ip] + [("new", "R")] + plegs0[ip + 1:]
                        idx_used = [b_[1] for b_ in log["bond"]] if mode == "config" else picked
                        ok = not log["problems"] and isinstance(got, T) and got.legs == want_n and isinstance(gotp, T) and gotp.legs == want_p \
                            and isinstance(n.qn, QItem) and n.qn.side == sideN and idx_used == [n.idx] and (mode == "list" or log["bond"][0][2] is False) \
                            and _kept_ok(log.get("kept"), None if mode == "config" else f"limit[{n.idx}]")
                        chk.ob("decomposition-axes", f"update_2site[{mode}, cano_parent={cano_parent}] [{topo}: {n}+{p}]", ok, fi.where,
                               log["problems"][:2] or {"node axes": getattr(got, "legs", None), "parent axes": getattr(gotp, "legs", None), "node.qn": repr(n.qn), "bond index": idx_used, "kept count": repr((log.get("kept") or [None])[-1])},
                               {"node axes": want_n, "parent axes": want_p, "node.qn": "new-bond labels, sub-tree side (L)", "bond index": [n.idx], "kept count": "configured count / min(explicit limit, len(s))"}, line=fi.node.lineno,
                               detail=f"two-site update of {n} and its parent: " + (log["problems"][0] if log["problems"] else
                                      "the factors are not restored to the two nodes' axis orders, the labels are stored for the wrong side, or the kept-count is looked up under another bond's index") +
                                      " - the truncation then uses the limit of a different bond, or the state is silently permuted")
            # ---------------- get_qnmat: label order = axis order
            for inc in ((False, True) if n_idx > 0 else (False,)):
                log = {"problems": [], "svd": [], "bond": []}
                w, sets = _decomp_world(src, topo, log)
                n = w.snodes[n_idx]
                fi = src.func(TREE, "TTNS.get_qnmat")
                ql, qr, qm = w.interp.call_function(fi, [w.ttns, n], {"include_parent": inc})
                legs = [i.leg for i in qm.items]
                want = _two_site_legs(n) if inc else list(n.tensor.legs)
                chk.ob("decomposition-axes", f"get_qnmat[include_parent={inc}] [{topo}: {n}]", legs == want, fi.where, legs, want, line=fi.node.lineno,
                       detail="the label array that defines the symmetry mask must list the axes in the order of the tensor it masks (children, physical, parent; two-site: node part then parent part)")


def direct_sum(chk, src, topologies=NET_TOPOLOGIES):
    chk.rule("direct-sum", "TTNS.add: bond axes are direct sums (first summand first), physical axes and the bond above the root are shared, labels are concatenated in the same order", 6)
    fi = src.func(TREE, "TTNS.add")
    for topo in topologies:
        w1, w2 = World(src, topology=topo), World(src, topology=topo)
        for k, w in ((1, w1), (2, w2)):
            for n in w.snodes:
                t = T(n.tensor._name, n.tensor.legs)
                t.__dict__["shape"] = tuple(d if isinstance(d, int) else (Dim([f"{d}@{k}"]) if t.legs[j][0] == "ket" else d) for j, d in enumerate(t.shape))
                t.__dict__["dtype"] = ("dtype of summand", k)
                n.__dict__["tensor"] = t
                n.__dict__["qn"] = _QN(f"{n._name}.qn@{k}")
        stores, made = [], []

        class Z(Sym):
            def __setitem__(self, key, v):
                stores.append((self, key, v))

        def zeros(shape, dtype=None):
            made.append(Z("new-tensor"))
            made[-1].__dict__["made_shape"] = list(shape)
            made[-1].__dict__["made_dtype"] = dtype
            return made[-1]

        def promote(*ts):
            out = set()
            for t_ in ts:
                out |= t_ if isinstance(t_, frozenset) else {t_}
            return frozenset(out)
        new_nodes = [Sym(f"new({n})") for n in w1.snodes]
        new_tree = TreeSym("new", node_list=new_nodes, check_shape=lambda: None)
        w1.overrides[("ttns", "metacopy")] = lambda: new_tree
        interp = w1.interp
        interp.builtins["np"] = Sym("np", promote_types=promote, result_type=promote, find_common_type=lambda a_, b_=(): promote(*list(a_), *list(b_)), zeros=zeros,
                                    concatenate=lambda l, axis=None: ("concat",) + tuple(repr(x) for x in l),
                                    testing=Sym("testing", assert_allclose=lambda *x: None))
        Dim.__add__ = lambda s_, o: SumDim(s_, o)
        out = interp.call_function(fi, [w1.ttns, w2.ttns])
        if out is not new_tree:
            raise AnalysisError(f"{fi.where}: does not return the metacopy")
        for n_idx, (a, b2) in enumerate(zip(w1.snodes, w2.snodes)):
            new_node = new_nodes[n_idx]
            nt = new_node.__dict__.get("tensor")
            shape = nt.__dict__.get("made_shape") if isinstance(nt, Z) else None
            want_shape, want1, want2 = [], [], []
            for j, leg in enumerate(a.tensor.legs):
                d1, d2 = a.tensor.shape[j], b2.tensor.shape[j]
                if leg[0] == "ket" and not (leg[1][0] == "root"):
                    want_shape.append(SumDim(d1, d2))
                    want1.append(slice(0, d1))
                    want2.append(slice(d1, SumDim(d1, d2)))
                else:
                    want_shape.append(d1)
                    want1.append(slice(0, d1))
                    want2.append(slice(0, d1))
            got1 = [k for z, k, v in stores if v is a.tensor and z is nt]
            got2 = [k for z, k, v in stores if v is b2.tensor and z is nt]
            q = new_node.__dict__.get("qn")
            wantq = repr(a.qn) + ".copy" if a.parent is None else ("concat", repr(a.qn), repr(b2.qn))
            okq = (repr(q) == wantq) if a.parent is None else (q == wantq)
            dt = nt.__dict__.get("made_dtype") if isinstance(nt, Z) else None
            okd = dt == frozenset({("dtype of summand", 1), ("dtype of summand", 2)})
            ok = shape == want_shape and got1 == [tuple(want1)] and got2 == [tuple(want2)] and okq and okd
            chk.ob("direct-sum", f"TTNS.add [{topo}: {a}]", ok, fi.where, {"shape": [repr(x) for x in (shape or [])], "block 1": repr(got1), "block 2": repr(got2), "qn": repr(q),
                                                                         "element type": "the common type of both summands" if okd else repr(dt)},
                   {"shape": [repr(x) for x in want_shape], "block 1": repr([tuple(want1)]), "block 2": repr([tuple(want2)]), "qn": repr(wantq), "element type": "the common type of both summands"}, line=fi.node.lineno,
                   detail=f"sum of two states at node {a}: every bond axis must be the direct sum of the two bonds (summand 1 in the leading block), physical axes and the root's upper bond are shared; "
                          "misclassifying an axis adds amplitudes that belong to different bond states or doubles the physical dimension (depends on the number of children)")


class _QN(Sym):
    def copy(self):
        return _QN(self._name + ".copy")


def compress_sweep(chk, src):
    chk.rule("compress-sweep", "abstract run of TTNS.compress on symbolic trees: every bond is truncated exactly once, each time with the gauge centre on the bond's parent node "
             "(so that the discarded singular values are the truncation error) and with the temporary limit of the call, and the centre returns to the root", 6)
    fi = src.func(TREE, "compress_recursion")
    for topo in SWEEP_TOPOLOGIES:
        w, st = _sweep_world(src, topo, [(TREE, "compress_recursion")])
        done = []

        limit = Sym("the temporary bond limit of this call")
        limits = []

        def compress_node(node, ichild, temp_m_trunc=None, cano_child=True):
            c = node.children[ichild]
            limits.append((c._name, temp_m_trunc))
            if st.centre != ("node", node._name):
                st.bad(f"compress_node({node}, {ichild}) while the gauge centre is at {st.centre}: the singular values are not Schmidt coefficients")
            done.append(c._name)
            st.ver[node._name] += 1
            st.ver[c._name] += 1
            st.centre = ("node", c._name if cano_child else node._name)
            return Blob("s")
        w.overrides[("ttns", "compress_node")] = compress_node
        w.interp.call_function(fi, [w.ttns.root, w.ttns, {}, limit])
        bonds = sorted(n._name for n in w.snodes[1:])
        unlimited = [b for b, l_ in limits if l_ is not limit]
        if unlimited:
            st.bad(f"the bonds above {unlimited} are truncated without the temporary limit the caller gave (they fall back to the configuration and may exceed it)")
        ok = not st.problems and sorted(done) == bonds and st.centre == ("node", w.snodes[0]._name)
        chk.ob("compress-sweep", f"compress_recursion [{topo}]", ok, fi.where, st.problems[:3] or {"bonds truncated": done, "centre": st.centre},
               {"bonds truncated": bonds, "centre": ("node", w.snodes[0]._name)}, line=fi.node.lineno,
               detail=f"compression sweep on '{topo}': " + (st.problems[0] if st.problems else "a bond is skipped / truncated twice or the centre does not return to the root"))


# ---------------------------------------------------------------------------------------------- tree constructors
TBASE = "renormalizer/tn/treebase.py"


class BNode(Sym):
    """symbolic TreeNodeBasis"""
    def __init__(self, basis_sets):
        super().__init__("bnode")
        self.basis_sets = list(basis_sets)
        self.children, self.parent = [], None

    def add_child(self, node):
        nodes = [node] if isinstance(node, BNode) else list(node)
        for n in nodes:
            if n.parent is not None:
                raise ValueError("Node already has parent")
            self.children.append(n)
            n.parent = self
        return self


def tree_constructors(chk, src, nmax=14):
    chk.rule("constructors", "abstract run of the BasisTree constructors on lists of n distinct symbolic basis sets (n = 1..N): the result is one rooted tree that contains every "
             "given basis set exactly once, plus dummy basis sets only", 6)
    cases = [("BasisTree.linear", {}, 1), ("BasisTree.binary", {}, 1), ("BasisTree.t3ns", {}, 1)]
    for order in (2, 3, 4):
        cases.append(("BasisTree.general_mctdh", {"tree_order": order}, 2))
        cases.append(("BasisTree.general_mctdh", {"tree_order": order, "contract_primitive": True}, 2))
        cases.append(("BasisTree.general_mctdh", {"tree_order": order, "contract_primitive": True, "contract_label": "alt"}, 2))
        cases.append(("BasisTree.general_mctdh", {"tree_order": order, "contract_primitive": True, "contract_label": "none"}, 2))
    part = src.func(TBASE, "approximate_partition")
    for qual, kw, nmin in cases:
        fi = src.func(TBASE, qual)
        bad = []
        runs = 0
        for n in range(nmin, nmax + 1):
            basis = [f"b{k}" for k in range(n)]
            roots = []
            it = SymInterp(src, lambda recv, name: getattr(recv, name) if isinstance(recv, BNode) and name == "add_child" else None,
                           {"TreeNodeBasis": lambda bs=None: BNode(bs if isinstance(bs, list) else [bs]), "BasisDummy": lambda dof, *a: ("dummy", dof),
                            "cls": lambda root: roots.append(root) or root})
            it.max_depth = 60
            it.builtins["approximate_partition"] = lambda seq, k: it.call_function(part, [seq, k])
            kws = dict(kw)
            if kws.get("contract_label") == "alt":
                kws["contract_label"] = [k % 2 == 0 for k in range(n)]
            elif kws.get("contract_label") == "none":
                kws["contract_label"] = [False] * n
            try:
                it.call_function(fi, [lambda root: roots.append(root) or root, list(basis)], kws)
            except (IndexError, ValueError, KeyError, TypeError) as e:
                bad.append(f"n={n}: {type(e).__name__}: {e}")
                continue
            runs += 1
            if len(roots) != 1:
                bad.append(f"n={n}: {len(roots)} trees constructed")
                continue
            seen, phys = [], []

            def pre(x):
                if any(x is y for y in seen):
                    bad.append(f"n={n}: a node is reachable twice")
                    return
                seen.append(x)
                phys.extend(b for b in x.basis_sets if not (isinstance(b, tuple) and b[0] == "dummy"))
                if not x.basis_sets:
                    bad.append(f"n={n}: a node without basis set")
                for c in x.children:
                    if c.parent is not x:
                        bad.append(f"n={n}: child/parent links disagree")
                    pre(c)
            pre(roots[0])
            if roots[0].parent is not None:
                bad.append(f"n={n}: the returned root has a parent")
            if sorted(phys) != sorted(basis):
                bad.append(f"n={n}: basis sets in the tree {phys} != given {basis}")
        key = f"{qual}({', '.join(f'{k}={v}' for k, v in kw.items())}) n={nmin}..{nmax}"
        chk.ob("constructors", key, not bad and runs == nmax - nmin + 1, fi.where, bad[:3] or f"{runs} sizes: every basis set exactly once", "every basis set exactly once", line=fi.node.lineno,
               detail=f"{qual}: " + (bad[0] if bad else "") + " - a degree of freedom is dropped or duplicated for particular list lengths, so the operator/state lives on a different space")


# ---------------------------------------------------------------------------------------------- TTNO numeric layout
def ttno_layout(chk, src):
    chk.rule("layout", "numeric TTNO node tensors are laid out (children bonds..., (row, column) per basis set..., parent bond): the axes the label schema names; "
             "symbolic node matrices are indexed [children...][parent]; construction and numeric conversion traverse the tree in the same order", 6)
    fi = src.func(TTNOB, "symbolic_mo_to_numeric_mo_general")
    # 1. shape and final axis move: abstract run of the whole function on symbolic shapes for 0..3 children and 1..3 basis sets
    bad = []
    for nch in range(0, 4):
        for k in range(1, 4):
            shp = tuple([f"in{c}" for c in range(nch)] + ["out"])
            mo = _MoSym([(tuple([0] * (nch + 1)), [_TermSym("t", [_OpSym(f"s{j}") for j in range(k)])])], ndim=nch + 1, shape=shp)
            made = []

            def zeros(shape, dtype=None):
                made.append(_Acc())
                made[-1].__dict__["made_shape"] = list(shape)
                return made[-1]
            it0 = SymInterp(src, None, {"Model": lambda basis, terms_: Sym("model", dof_to_siteidx="d2s"), "chain": lambda *a_: [x for p_ in a_ for x in p_],
                                        "np": Sym("np", zeros=zeros, ndenumerate=lambda m: list(m.entries), eye=lambda n: _Elem([], None),
                                                  tensordot=lambda a_, b_, axes=None: _Elem(a_.blocks + [b_], a_.factor), iscomplexobj=lambda x: False,
                                                  moveaxis=lambda t, a_, b_: ("permuted", t, _perm_moveaxis(t.ndim, a_, b_)), transpose=lambda t, axes=None: t.transpose(axes))})
            res = it0.call_function(fi, [[_BasisSym(f"b{j}", "B", f"p{j}") for j in range(k)], mo, "dtype"])
            want = [f"in{c}" for c in range(nch)] + [x for j in range(k) for x in (f"p{j}", f"p{j}")] + ["out"]
            if not (isinstance(res, tuple) and res[0] == "permuted" and made and res[1] is made[-1]):
                bad.append(f"{nch} children, {k} basis sets: the accumulated tensor is not returned through one axis permutation")
                continue
            got = [made[-1].__dict__["made_shape"][a_] for a_ in res[2]]
            if got != want:
                bad.append(f"{nch} children, {k} basis sets: axes {got}, expected {want}")
    chk.ob("layout", "symbolic_mo_to_numeric_mo_general: children, (row, col)*, parent", not bad, fi.where, bad[:2] or "12 (arity, basis-count) combinations", "children..., (p, p) per basis set..., parent",
           line=fi.node.lineno, detail="the bond to the parent must be moved behind the physical axes for every number of children and basis sets: " + (bad[0] if bad else ""))
    # 2. provenance of the local matrices: an abstract run of the conversion on symbolic basis sets, twice in one "process" (module-level
    #    names persist between the runs) with different basis objects of the same class and size
    it = SymInterp(src, None, {})
    problems = []
    n_blocks = 0
    # the operator symbols are the same (equal) objects in both runs: Op compares by value
    terms = [_TermSym(f"t{q}", [_OpSym(f"sym{q}.{j}") for j in range(3)]) for q in range(2)]
    for run in (1, 2):
        bsets = [_BasisSym(f"b{j}@run{run}", "BasisSHO", "nbas") for j in range(3)]
        mo = _MoSym([((0, 0), [terms[0], terms[1]]), ((0, 1), [terms[1]])], ndim=2, shape=("in0", "out"))
        acc = _Acc()

        def tensordot(a_, b_, axes=None):
            # the running product (.., 1) is chained with the next local matrix (1, row, column, 1): last axis with first axis
            last = 1 + 2 * len(a_.blocks) if isinstance(a_, _Elem) else None
            one = axes == 1 or (isinstance(axes, (list, tuple)) and len(axes) == 2 and [list(x) if isinstance(x, (list, tuple)) else [x] for x in axes] in ([[-1], [0]], [[last], [0]]))
            if not isinstance(a_, _Elem) or not one:
                raise AnalysisError("tensordot in symbolic_mo_to_numeric_mo_general outside the fragment")
            return _Elem(a_.blocks + [b_], a_.factor)
        it.builtins.update({"Model": lambda basis, terms_: Sym("model", dof_to_siteidx="dof_to_siteidx"), "chain": lambda *a_: [x for p_ in a_ for x in p_],
                            "np": Sym("np", zeros=lambda shape, dtype=None, acc=acc: (acc.__dict__.__setitem__("made_shape", list(shape)), acc)[1], ndenumerate=lambda m: list(m.entries), eye=lambda n: _Elem([], None),
                                      tensordot=tensordot, iscomplexobj=lambda x: False, moveaxis=lambda t, a_, b_: ("permuted", t), transpose=lambda t, axes=None: ("permuted", t))})
        it.call_function(fi, [bsets, mo, "dtype"])
        for (idx, terms_here) in mo.entries:
            got = acc.cells.get(idx, [])
            if len(got) != len(terms_here):
                problems.append(f"run {run}: entry {idx} accumulates {len(got)} blocks for {len(terms_here)} terms")
                continue
            for term, elem in zip(terms_here, got):
                want = [(b_._name, o._name) for o, b_ in zip(term.ops, bsets)]
                have = []
                for blk in (elem.blocks if isinstance(elem, _Elem) else []):
                    if isinstance(blk, _OpMatSlice) and blk.key == (None, "ALL", "ALL", None):
                        have.append((blk.basis._name, blk.symbol._name))
                    else:
                        have.append(repr(blk))
                n_blocks += len(have)
                if have != want or not (isinstance(elem, _Elem) and elem.stripped and elem.factor == term.factor):
                    problems.append(f"run {run}, entry {idx}, term {term!r}: blocks {have}, expected {want} (each as op_mat(symbol)[None, :, :, None], scaled by the term's factor, unit axes stripped)")
    chk.ob("layout", "local matrices: op_mat of *this* basis set and *this* symbol, (row, column), basis sets in order", not problems and n_blocks == 18, fi.where, problems[:2] or f"{n_blocks} blocks in 2 consecutive runs",
           "b.op_mat(symbol)[None, :, :, None] for (symbol, b) in zip(term_split, basis_sets), accumulated per entry", line=fi.node.lineno,
           detail="each basis set contributes the matrix of its own operator symbol, computed from that basis set's parameters, as (row, column) = (up, down) in basis-set order: " +
                  (problems[0] if problems else "") + " - a transposed / reordered block gives another operator; a value remembered from an earlier basis object makes the second operator built in a process wrong")
    # 3. compose: abstract run - entry [child indices...][parent index] = factor * product of the last k primary operators, in order
    cs = src.func(TTNOB, "compose_symbolic_mo_general")

    class _GridN(Sym):
        def __init__(self, shape):
            super().__init__("grid")
            self.shape = tuple(shape)
            import itertools
            self.cells = {idx: None for idx in itertools.product(*[range(d) for d in self.shape])}

        def __getitem__(self, k):
            k = k if isinstance(k, tuple) else (k,)
            if len(k) == len(self.shape):
                return self.cells[k]
            if len(k) == len(self.shape) - 1:
                return [self.cells[k + (j,)] for j in range(self.shape[-1])]
            raise AnalysisError("symbolic node matrix indexed with an unexpected number of indices")

        def __setitem__(self, k, v):
            self.cells[k if isinstance(k, tuple) else (k,)] = v

    class _P(Sym):
        def __init__(self, items):
            super().__init__("*".join(items))
            self.items = list(items)

        def __mul__(self, o):
            return _P(self.items + [o if isinstance(o, str) else repr(o)])
    probs3 = []
    for nch, k in ((0, 1), (0, 2), (1, 1), (2, 1), (2, 2), (3, 2)):
        import itertools as _it
        it3 = SymInterp(src, None, {"np": Sym("np", full=lambda shape, fill, dtype=None: _GridN(shape), ndenumerate=lambda g: [(i, g.cells[i]) for i in sorted(g.cells)],
                                              ndindex=lambda *shape: list(_it.product(*[range(d) for d in (shape[0] if len(shape) == 1 and isinstance(shape[0], (list, tuple)) else shape)])),
                                              empty=lambda shape, dtype=None: _GridN(shape)),
                                   # an explicit operator product keeps every factor of every operand, in order
                                   "Op": Sym("Op", product=lambda ps: _P([x for p_ in ps for x in (p_.items if isinstance(p_, _P) else [repr(p_)])]))})
        in_ops_list = [[f"c{c}op{j}" for j in range(2)] for c in range(nch)]
        prim = {j: f"prim{j}" for j in range(5)}
        comp = []
        if nch:
            comp = [[Sym("x", symbol=tuple([1] * nch + list(range(k))), factor=_P(["fa"]))], [Sym("y", symbol=tuple([0] * nch + list(range(1, k + 1))), factor=_P(["fb"])),
                                                                                             Sym("z", symbol=tuple([1] + [0] * (nch - 1) + list(range(2, k + 2))), factor=_P(["fc"]))]]
        else:
            comp = [[Sym("x", symbol=tuple(range(k)), factor=_P(["fa"]))], [Sym("y", symbol=tuple(range(1, k + 1)), factor=_P(["fb"]))]]
        try:
            g = it3.call_function(cs, [in_ops_list, comp, prim, k])
        except (KeyError, IndexError) as e:
            probs3.append(f"{nch} children, k={k}: {type(e).__name__}: {e}")
            continue
        want = {}
        for iop, outs in enumerate(comp):
            for c_ in outs:
                idx = tuple(c_.symbol[:nch]) + (iop,)
                want.setdefault(idx, []).append([c_.factor.items[0]] + [f"prim{j}" for j in c_.symbol[nch:]])
        got = {i: [x.items for x in v] for i, v in getattr(g, "cells", {}).items() if v}
        if not isinstance(g, _GridN) or g.shape != tuple([2] * nch + [len(comp)]) or got != want:
            probs3.append(f"{nch} children, k={k}: entries {got}, expected {want}")
    chk.ob("layout", "compose_symbolic_mo_general: [children...][parent] indexing, last k symbols physical", not probs3, cs.where, probs3[:2] or "6 (arity, k) combinations",
           "entry[child indices + (parent index,)] = factor * primary operators of the last k symbols, in order", line=cs.node.lineno,
           detail="the composed symbol is (one index per child bond..., k physical symbols): the builder lays the table rows out in this order (builder-columns rule): " + (probs3[0] if probs3 else ""))
    # 4. same traversal in construction and conversion; connection copied in that order (abstract runs; the traversal is identified by the method called on the basis tree)
    ct = src.func(TTNOB, "construct_symbolic_ttno")
    init = src.func(TREE, "TTNO.__init__")
    w4 = World(src, topology="binary")
    trav = {"postorder_list": _postorder(w4.snodes[0]), "preorder_list": list(w4.snodes), "node_list": list(w4.snodes)}
    used = {"construct": [], "init": []}

    def mk_basis(tag):
        d = {nm: (lambda nm=nm: (used[tag].append(nm), list(trav[nm]))[1]) for nm in ("postorder_list", "preorder_list")}
        return Sym("basis-tree", node_list=trav["node_list"], **d)
    for n in w4.snodes:
        n.__dict__["basis_sets"] = [f"{n._name}.b{k_}" for k_ in range(n.nsets)]
        n.__dict__["n_sets"] = n.nsets
    # which traversal does the construction use?
    itc = SymInterp(src, None, {"chain": lambda *a_: [x for p_ in a_ for x in p_], "Model": lambda basis, terms_: Sym("model", basis=list(basis), qn_size=1),
                                "_terms_to_table": lambda *a_: (_StopRun(),), "np": Blob("np")})
    try:
        itc.call_function(ct, [mk_basis("construct"), "terms"])
    except (_StopRun, AnalysisError, TypeError, ValueError):
        pass
    conv, conn = [], []

    passed_terms = []

    def construct(basis, terms, algo=None):
        passed_terms.append(list(terms))
        order = trav[used["construct"][0]] if used["construct"] else []
        return [("mo", n._name) for n in order], [("qn", n._name) for n in order]
    from .chain_rules import class_resolver
    iti = SymInterp(src, class_resolver(src, {"TTNO": TREE}), {"construct_symbolic_ttno": construct, "Op": None, "backend": Blob("backend"),
                                "symbolic_mo_to_numeric_mo_general": lambda bs, mo, dtype: conv.append((list(bs), mo)) or ("mat",) + tuple(mo[1:]),
                                "TreeNodeTensor": lambda mat, qn=None: Sym(f"tnode({mat[1]})", made_from=(mat, qn)),
                                "copy_connection": lambda a_, b_: conn.append((list(a_), list(b_))) or "root",
                                "super": lambda: Sym("super", __init__=lambda *a_: None)})
    me = Sym("ttno")
    me._cls = "TTNO"
    given = [Sym("term0", factor=Sym("factor0")), Sym("term1", factor=Sym("factor1"))]
    # the operator terms must reach the builder as given: value-dependent filters (tolerances) are run with both outcomes
    for verdict in (True, False):
        iti.builtins["np"] = OpenSym("np", isclose=lambda *a, **k: verdict, allclose=lambda *a, **k: verdict, abs=lambda x: Sym("abs"))
        me_ = Sym("ttno")
        me_._cls = "TTNO"
        iti.call_function(init, [me_, mk_basis("init"), list(given)])
    terms_ok = all(len(t) == len(given) and all(a is b for a, b in zip(t, given)) for t in passed_terms) and len(passed_terms) == 2
    chk.ob("layout", "TTNO.__init__ hands every given term to the builder", terms_ok, init.where, [[repr(x) for x in t] for t in passed_terms], "the given terms, unfiltered (exact zeros may be dropped)", line=init.node.lineno,
           detail="a term dropped because its coefficient is below some tolerance makes the operator differ from the sum of its terms (small couplings are still couplings)")
    conv.clear()
    conn.clear()
    used["init"].clear()
    iti.builtins["np"] = OpenSym("np")
    iti.call_function(init, [me, mk_basis("init"), list(given)])
    pair_ok = bool(conv) and all(bs == [f"{mo[1]}.b{k_}" for k_ in range(len(bs))] for bs, mo in conv) and len(conv) == len(w4.snodes)
    conn_ok = len(conn) == 1 and [x._name for x in conn[0][0]] == [y.made_from[0][1] for y in conn[0][1]] and [y.made_from[1][1] for y in conn[0][1]] == [x._name for x in conn[0][0]]
    chk.ob("layout", "construction order = conversion order = connection order", pair_ok and conn_ok and len(used["construct"]) == 1, init.where,
           {"construction traverses": used["construct"], "conversion traverses": used["init"], "pairs": [(bs, mo) for bs, mo in conv][:3], "connections": len(conn)},
           "the i-th symbolic node matrix is converted with the basis sets of the node it was built for and wired to that node's position", line=init.node.lineno,
           detail="the i-th symbolic node matrix must be converted with the basis sets of the i-th node of the same traversal, and wired with that traversal's connectivity; "
                  "a post-order / pre-order mix-up gives a wrong operator for every tree that is not a chain")
    # 5. post-order really lists children before parents, pre-order parents before children (node_list / node_idx convention)
    tb = src.func(TBASE, "Tree.postorder_list")
    pb = src.func(TBASE, "Tree.preorder_list")
    for fi2, kind in ((tb, "post"), (pb, "pre")):
        for topo in ("generic", "ternary", "binary"):
            w = World(src, topology=topo)
            tree = Sym("tree", root=w.snodes[0])
            it = SymInterp(src, None, {})
            it.max_depth = 30
            out = it.call_function(fi2, [tree])
            pos = {n._name: i for i, n in enumerate(out)}
            ok = sorted(pos) == sorted(n._name for n in w.snodes) and all((pos[c._name] < pos[n._name]) == (kind == "post") for n in w.snodes for c in n.children) and \
                all(pos[a._name] < pos[b_._name] for n in w.snodes for a, b_ in zip(n.children, n.children[1:]))
            chk.ob("layout", f"Tree.{kind}order_list [{topo}]", ok, fi2.where, [repr(n) for n in out], f"{kind}-order, children left to right", line=fi2.node.lineno)


class _BasisSym(Sym):
    def __init__(self, name, cls, nbas):
        super().__init__(name)
        self.__dict__["__class__"] = cls
        self.nbas = nbas

    def op_mat(self, symbol):
        return _OpMat(self, symbol)


class _OpMat(Sym):
    def __init__(self, basis, symbol):
        super().__init__(f"op_mat({basis!r},{symbol!r})")
        self.basis, self.symbol = basis, symbol

    def __getitem__(self, k):
        key = tuple((None if x is None else "ALL" if x == slice(None, None, None) else repr(x)) for x in (k if isinstance(k, tuple) else (k,)))
        return _OpMatSlice(self.basis, self.symbol, key)


class _OpMatSlice(Sym):
    def __init__(self, basis, symbol, key):
        super().__init__(f"op_mat({basis!r},{symbol!r})[{key}]")
        self.basis, self.symbol, self.key = basis, symbol, key


class _OpSym(Sym):
    pass


class _TermSym(Sym):
    def __init__(self, name, ops):
        super().__init__(name)
        self.ops = ops
        self.factor = f"factor({name})"

    def split_elementary(self, d2s):
        return list(self.ops), self.factor


class _MoSym(Sym):
    def __init__(self, entries, ndim, shape):
        super().__init__("mo")
        self.entries, self.ndim, self.shape = entries, ndim, shape


class _Elem(Sym):
    def __init__(self, blocks, factor, stripped=False):
        super().__init__("elem")
        self.blocks, self.factor, self.stripped = list(blocks), factor, stripped

    def __mul__(self, f):
        return _Elem(self.blocks, f, self.stripped)

    def __getitem__(self, k):
        if isinstance(k, tuple) and len(k) == 3 and k[0] == 0 and k[1] is Ellipsis and k[2] == 0:
            return _Elem(self.blocks, self.factor, True)
        raise AnalysisError("indexing of the accumulated local operator outside the fragment")


class _Acc(Sym):
    """accumulation array of the numeric conversion; an axis permutation of it (moveaxis / transpose / .T spelled any way) is ("permuted", array, permutation)"""
    def __init__(self):
        super().__init__("mo_tensor")
        self.cells = {}

    @property
    def ndim(self):
        return len(self.__dict__.get("made_shape", ()))

    @property
    def shape(self):
        return tuple(self.__dict__.get("made_shape", ()))

    def transpose(self, *axes):
        axes = list(axes[0]) if len(axes) == 1 and isinstance(axes[0], (list, tuple)) else list(axes)
        return ("permuted", self, [a % self.ndim for a in axes])

    def __getitem__(self, i):
        return _Cell(list(self.cells.get(i, [])))

    def __setitem__(self, i, v):
        self.cells[i] = v.items


class _Cell:
    def __init__(self, items):
        self.items = items

    def __add__(self, o):
        return _Cell(self.items + [o])


class _StopRun(Exception):
    def __iter__(self):
        raise self


def _postorder(root):
    out = []

    def rec(x):
        for c in x.children:
            rec(c)
        out.append(x)
    rec(root)
    return out


def _perm_moveaxis(n, a, b):
    order = [k for k in range(n) if k != a % n]
    order.insert(b % n, a % n)
    return order


def _mv(t, a, b):
    t = list(t)
    n = len(t)
    x = t.pop(a % n)
    t.insert(b % n, x)
    return t


# ---------------------------------------------------------------------------------------------- RDMs of single degrees of freedom (partial traces with integer labels)
def dof_rdm(chk, src, topologies=("ternary", "generic")):
    chk.rule("dof-rdm", "calc_1dof_rdm / calc_2dof_rdm: the site RDM (ket indices then bra indices, nodes in the requested order) is traced over every physical index except the "
             "requested ones - ket and bra of the same index share a label, the requested indices keep (ket1[, ket2], bra1[, bra2])", 10)
    f1 = src.func(TREE, "TTNS.calc_1dof_rdm")
    f2 = src.func(TREE, "TTNS.calc_2dof_rdm")
    for topo in topologies:
        w = World(src, topology=topo)
        nodes = w.snodes
        dofs = [(n, k) for n in nodes for k in range(n.nsets)]
        dofname = {(n._name, k): f"{n._name}.s{k}" for n, k in dofs}
        bsets = {d: Sym(f"basis({d})") for d in dofname.values()}
        bnodes = [Sym(f"bn({n})", n_sets=n.nsets, basis_sets=[bsets[dofname[(n._name, k)]] for k in range(n.nsets)], pbond_dims=[Blob("d")] * n.nsets) for n in nodes]
        basis = Sym("basis", dof2idx={dofname[(n._name, k)]: n.idx for n, k in dofs}, dof2basis={d: b for d, b in bsets.items()}, node_list=bnodes, dof_list=list(dofname.values()))

        def site_legs(idxs):
            ns = [nodes[i] for i in idxs]
            return [("kphys", n._name, k) for n in ns for k in range(n.nsets)] + [("bphys", n._name, k) for n in ns for k in range(n.nsets)]

        def decide(fi, key, rec, targets, site_idxs):
            args = rec[-1]
            t, labels, out = args[0], list(args[1]), list(args[2])
            probs = []
            if len(labels) != len(t.legs):
                probs.append(f"{len(labels)} labels for {len(t.legs)} axes")
            lab_of = {}
            for leg, lab in zip(t.legs, labels):
                lab_of.setdefault(lab, []).append(leg)
            want_out = [("kphys",) + d for d in targets] + [("bphys",) + d for d in targets]
            got_out = []
            for lab in out:
                legs = lab_of.get(lab, [])
                if len(legs) != 1:
                    probs.append(f"output label {lab} is on {len(legs)} axes")
                got_out.append(legs[0] if legs else None)
            for lab, legs in lab_of.items():
                if lab in out:
                    continue
                if len(legs) != 2 or legs[0][1:] != legs[1][1:] or {legs[0][0], legs[1][0]} != {"kphys", "bphys"}:
                    probs.append(f"label {lab} joins {legs}: a traced index must join the ket and bra axis of one physical index")
            ok = not probs and got_out == want_out
            chk.ob("dof-rdm", key, ok, fi.where, probs[:2] or got_out, want_out, line=fi.node.lineno,
                   detail=f"{key}: " + (probs[0] if probs else "the kept axes are not the requested degrees of freedom in (ket..., bra...) order") +
                          " - wrong only when nodes carry different numbers of basis sets or the degree of freedom is not the first of its node")
        # ---- one dof
        for n, k in dofs:
            if n.nsets == 1 and n.idx not in (0, 1):
                continue
            rec = []
            it = SymInterp(src, None, {"oe_contract": lambda *a: rec.append(a) or Blob("res"), "list": list})
            d = dofname[(n._name, k)]
            me = Sym("ttns", basis=basis, calc_1site_rdm=lambda idxs: SymDict(lambda i: T("rdm", site_legs([i]))))
            it.call_function(f1, [me, d])
            decide(f1, f"calc_1dof_rdm [{topo}: {d}]", rec, [(n._name, k)], [n.idx])
        # ---- two dofs
        pairs = [(a, b) for a in dofs for b in dofs if a != b and (a[0].nsets > 1 or b[0].nsets > 1 or (a[0].idx, b[0].idx) in ((0, 1), (1, 0)))]
        for (n1, k1), (n2, k2) in pairs:
            rec = []
            it = SymInterp(src, None, {"oe_contract": lambda *a: rec.append(a) or Blob("res")})
            d1, d2 = dofname[(n1._name, k1)], dofname[(n2._name, k2)]
            me = Sym("ttns", basis=basis, calc_1site_rdm=lambda idxs: SymDict(lambda i: T("rdm1", site_legs([i]))),
                     calc_2site_rdm=lambda idxs: SymDict(lambda ij: T("rdm2", site_legs(list(ij)))))
            try:
                it.call_function(f2, [me, [(d1, d2)]])
            except (IndexError, ValueError) as e:
                chk.ob("dof-rdm", f"calc_2dof_rdm [{topo}: {d1},{d2}]", False, f2.where, f"{type(e).__name__}: {e}", "a partial trace", line=f2.node.lineno,
                       detail=f"calc_2dof_rdm({d1}, {d2}) indexes outside the RDM's axes")
                continue
            decide(f2, f"calc_2dof_rdm [{topo}: {d1},{d2}]", rec, [(n1._name, k1), (n2._name, k2)], [n1.idx, n2.idx])


# ---------------------------------------------------------------------------------------------- gauge precondition of the tree compression
def compress_precondition(chk, src):
    """TTNS.compress truncates with the centre at the root (compress-sweep rule): every place that compresses a tree state it has just produced
    (copy, sum, operator application) must canonicalise it first"""
    chk.rule("compress-gauge", "a tree state produced inside a function is canonicalised before it is compressed", 3)
    from .. import qn as Q
    n = 0
    for rel in (TREE, TEVO, TGS, "renormalizer/tn/utils_eph.py", "renormalizer/mps/lib.py"):
        for fi in src.funcs_in(rel):
            if fi.parent is not None:
                continue
            order = Q.stmts_in_order(fi.node)
            for pos, st in enumerate(order):
                for c in ast.walk(st) if not isinstance(st, (ast.For, ast.While, ast.If, ast.FunctionDef)) else []:
                    if not (isinstance(c, ast.Call) and isinstance(c.func, ast.Attribute) and c.func.attr == "compress" and isinstance(c.func.value, ast.Name)):
                        continue
                    name = c.func.value.id
                    defs = [p_ for p_, s_ in enumerate(order[:pos]) if isinstance(s_, ast.Assign) and any(isinstance(t, ast.Name) and t.id == name for t in s_.targets)]
                    if not defs:
                        continue      # a parameter: the precondition is the caller's
                    d = defs[-1]
                    dv = order[d].value
                    produced_canonical = isinstance(dv, ast.Call) and isinstance(dv.func, ast.Attribute) and dv.func.attr == "canonicalise"
                    cano = any(isinstance(s_, ast.Expr) and isinstance(s_.value, ast.Call) and unparse(s_.value.func) == f"{name}.canonicalise" for s_ in order[d + 1:pos]) or produced_canonical \
                        or (isinstance(dv, ast.Call) and "canonicalise" in unparse(dv))
                    n += 1
                    chk.ob("compress-gauge", f"{fi.qual}: {name}.compress(...)", cano, fi.where, "no canonicalise() between the creation of the state and its compression" if not cano else "canonicalised first",
                           f"{name}.canonicalise() before {name}.compress()", line=c.lineno,
                           detail=f"{fi.qual} compresses `{name}` (= {unparse(dv)[:50]}) without bringing it to canonical form with the centre at the root: the singular values it truncates / returns "
                                  "are not Schmidt coefficients unless the state happens to be canonical already (fresh random states and optimiser output are)")
    return n


# ---------------------------------------------------------------------------------------------- decoding of the time argument
def time_decoding(chk, src):
    """TTNS.evolve hands (coeff, tau) to the evolvers, which apply exp(coeff * H * tau): for every kind of step this must be exp(-i H tau_given)"""
    import sympy as sp
    chk.rule("time-decoding", "TTNS.evolve: coeff * tau passed to the evolver equals -i * (the step the caller gave), for real steps and imaginary steps of either sign", 2)
    fi = src.func(TREE, "TTNS.evolve")
    t, s_any = sp.Symbol("t", real=True), sp.Symbol("s", real=True)
    for label, tau_in, is_c in (("real step t", t, False), ("imaginary step i*s (s of either sign)", sp.I * s_any, True)):
        got = []

        class Z(Sym):
            pass
        state = Z("state", evolve_config=Sym("cfg", method="m"))
        state.__dict__["copy"] = lambda: Z("copy", normalize=lambda kind: None)

        def to_complex(inplace=False):
            if inplace:
                raise AnalysisError("TTNS.evolve converts its receiver in place (not modelled by this run; the effect rule of C13 judges it)")
            return Z("complex-copy", normalize=lambda kind: None)
        state.__dict__["to_complex"] = to_complex

        class TV(Sym):
            """the step handed in by the caller"""
            def __init__(self, value):
                super().__init__(str(value))
                self.value = value

            @property
            def imag(self):
                return sp.im(self.value)

            @property
            def real(self):
                return sp.re(self.value)

        def method(ttns, ttno, coeff, tau):
            got.append((repr(ttns), coeff, tau.value if isinstance(tau, TV) else tau))
            return Z("evolved", normalize=lambda kind: None)
        it = SymInterp(src, None, {"np": Sym("np", iscomplex=lambda x: is_c), "EVOLVE_METHODS": {"m": method}, "abs": lambda x: sp.Abs(x.value if isinstance(x, TV) else x)})
        it.call_function(fi, [state, "ttno", TV(tau_in)])
        ok = len(got) == 1 and sp.simplify(sp.sympify(got[0][1]) * got[0][2] + sp.I * tau_in) == 0 and got[0][0] != "state"
        chk.ob("time-decoding", f"TTNS.evolve [{label}]", ok, fi.where, {"state passed": got[0][0], "coeff * tau": str(sp.simplify(sp.sympify(got[0][1]) * got[0][2]))} if got else "no evolver call",
               {"state passed": "a copy", "coeff * tau": str(sp.simplify(-sp.I * tau_in))}, line=fi.node.lineno,
               detail="the evolvers apply exp(coeff * H * tau); for a step tau_given this must be exp(-i H tau_given) - in particular an imaginary step +i*s must heat (exp(+sH)) and -i*s must cool")


# ---------------------------------------------------------------------------------------------- every exit of a decomposition has written both sides of the bond
def must_update(chk, src):
    """definite-assignment analysis: on every path to every return statement the decomposition functions have stored the new tensors of both ends of the bond and the
    bond's labels (a shortcut exit that skips one of them leaves the gauge centre where the caller does not expect it)"""
    chk.rule("must-update", "every exit of a tree decomposition function has updated the node tensor, the neighbour tensor (or returns the matrix to merge) and the bond labels", 4)
    REQUIRED = {
        "TTNS.compress_node": ({"tensor@node", "tensor@child", "qn@child"}, "node, child tensors and the child's labels"),
        "TTNS.update_2site": ({"tensor@node", "tensor@parent", "qn@node"}, "node, parent tensors and the node's labels"),
        "TTNS.decompose_to_parent": ({"tensor@node", "qn@node"}, "node tensor and labels (the bond matrix is returned)"),
        "TTNS.decompose_to_child": ({"tensor@node", "qn@child"}, "node tensor and the child's labels (the bond matrix is returned)"),
    }
    for qual, (req, what) in REQUIRED.items():
        fi = src.func(TREE, qual)
        params = fi.params()
        # which local names denote the child / parent
        alias = {}
        for st in ast.walk(fi.node):
            if isinstance(st, ast.Assign) and isinstance(st.targets[0], ast.Name):
                v = unparse(st.value).replace(" ", "")
                if v in ("node.children[ichild]",):
                    alias[st.targets[0].id] = "child"
                if v in ("node.parent",):
                    alias[st.targets[0].id] = "parent"

        def target_key(t):
            if not isinstance(t, ast.Attribute) or t.attr not in ("tensor", "qn"):
                return None
            base = unparse(t.value).replace(" ", "")
            who = {"node": "node", "node.children[ichild]": "child", "node.parent": "parent"}.get(base) or alias.get(base)
            return f"{t.attr}@{who}" if who else None

        returns = []

        def da(stmts, have):
            have = set(have)
            for st in stmts:
                if isinstance(st, ast.Return):
                    returns.append((st, set(have)))
                    return have, True
                if isinstance(st, (ast.Assign, ast.AugAssign)):
                    for t in (st.targets if isinstance(st, ast.Assign) else [st.target]):
                        k = target_key(t)
                        if k:
                            have.add(k)
                elif isinstance(st, ast.If):
                    h1, r1 = da(st.body, have)
                    h2, r2 = da(st.orelse, have)
                    if r1 and r2:
                        return have, True
                    have = h2 if r1 else (h1 if r2 else (h1 & h2))
                elif isinstance(st, (ast.For, ast.While)):
                    da(st.body, have)        # the body may run zero times: nothing it assigns is definite
                elif isinstance(st, (ast.With, ast.Try)):
                    have, r = da(getattr(st, "body", []), have)
                    if r:
                        return have, True
            return have, False
        end, returned = da(fi.node.body, set())
        if not returned:
            returns.append((fi.node.body[-1], end))
        for r, have in returns:
            missing = sorted(req - have)
            chk.ob("must-update", f"{qual}: exit at statement `{unparse(r)[:40]}`", not missing, fi.where, {"not yet written": missing} if missing else "all written", what, line=r.lineno,
                   detail=f"{qual} can return before it has written {missing}: e.g. a `nothing to truncate` shortcut that skips handing the singular values to the neighbour leaves the "
                          "canonical centre behind, so the bonds below are truncated against a non-orthonormal environment (the result still passes the shape and canonical checks)")


# ---------------------------------------------------------------------------------------------- chain -> tree conversion
def chain_conversion(chk, src, n=4):
    """abstract run of tn/tree.py::from_mps on a symbolic n-site chain state; MatrixProduct.move_qnidx is run from its own source on tagged bond labels
    ('L' = quantum number of the sites to the left of the bond, 'R' = of the sites to the right).  Expected: the chain is left-canonical when its
    tensors are read; tree node k (counted from the leaf) receives the tensor of chain site k, the leaf without the dummy left bond; its label is the
    'L' label of bond k+1 (the quantum number of its subtree), in particular the root carries the total."""
    chk.rule("chain-conversion", "from_mps: node k gets site k's tensor and the subtree ('left system') label of bond k+1, the root the total; the chain is left-canonical first", 1)
    fi = src.func(TREE, "from_mps")
    mv = src.func("renormalizer/mps/mp.py", "MatrixProduct.move_qnidx")
    problems = []

    class QTag:
        def __init__(self, side, idx):
            self.side, self.idx = side, idx

        def __repr__(self):
            return f"{self.side}{self.idx}"

        def __eq__(self, o):
            return isinstance(o, QTag) and (self.side, self.idx) == (o.side, o.idx)

        __hash__ = None

    class QTot(Sym):
        def __sub__(self, o):
            if not isinstance(o, QTag):
                raise AnalysisError(f"qntot - {o!r}")
            return QTag("R" if o.side == "L" else "L", o.idx)

    class SiteT(Sym):
        def __init__(self, i, cut=None):
            super().__init__(f"site{i}")
            self.i, self.cut = i, cut

        @property
        def array(self):
            return self

        def __getitem__(self, k):
            kk = k if isinstance(k, tuple) else (k,)
            if self.cut is None and kk and kk[0] == 0 and all(x is Ellipsis or x == slice(None) for x in kk[1:]):
                return SiteT(self.i, "[left bond 0]")
            return SiteT(self.i, (self.cut or "") + f"[{k!r}]")

        def reshape(self, *shape):
            return SiteT(self.i, (self.cut or "") + f".reshape{shape!r}")

        def __repr__(self):
            return f"site{self.i}" + (self.cut or "")

    class Chain(Sym):
        def __len__(self):
            return n

        def __getitem__(self, i):
            if isinstance(i, int) and 0 <= i < n:
                reads.append((i, self.state))
                return SiteT(i)
            raise AnalysisError(f"chain site {i!r}")

    reads = []
    from .chain_rules import class_resolver
    it = SymInterp(src, class_resolver(src, {"Mps": "renormalizer/mps/mps.py"}), {})
    it.max_depth = 12
    # the chain as handed in: arbitrary centre c (labels left of c are 'L', right of c are 'R'), not canonical
    for c in (0, 1, n - 1):
        reads.clear()
        mps = Chain("mps", _cls="Mps", state="any", qnidx=c, site_num=n, qntot=QTot("qntot"), qn=[QTag("L" if b <= c else "R", b) for b in range(n + 1)],
                    model=Sym("model", basis=[f"b{k}" for k in range(n)], ham_terms="ham_terms"))

        def ensure_left(mps=mps):
            # MatrixProduct.ensure_left_canonical (decided in C04 'ensure-consistency'): labels moved to the last site, state left-canonical
            it.call_function(mv, [mps, n - 1])
            mps.state = "left-canonical"
        mps.__dict__.update(copy=lambda mps=mps: mps, ensure_left_canonical=ensure_left, ensure_right_canonical=lambda: setattr(mps, "state", "right-canonical"),
                            move_qnidx=lambda k, mps=mps: it.call_function(mv, [mps, k]), canonicalise=lambda *a, **k: setattr(mps, "state", "unknown"))
        nodes = [Sym(f"node{k}", tensor=None, qn=None) for k in range(n)]   # node_list[0] = root (pre-order), node_list[-1] = leaf
        ttns = Sym("ttns", node_list=nodes, check_shape=lambda: None, check_canonical=lambda: None, root=nodes[0])
        lin = []
        it.builtins.update({"BasisTree": Sym("BasisTree", linear=lambda bs: lin.append(list(bs)) or "basis"), "TTNS": lambda b, *a, **k: ttns, "TTNO": lambda b, t, *a, **k: ("ttno", b, t)})
        try:
            res = it.call_function(fi, [mps])
        except (SymRaise, IndexError, KeyError) as e:
            problems.append(f"centre {c}: {type(e).__name__}: {e}")
            continue
        if not (isinstance(res, tuple) and len(res) == 3 and res[1] is ttns):
            problems.append(f"centre {c}: the converted state is not returned")
            continue
        if lin != [[f"b{k}" for k in range(n)][::-1]]:
            problems.append(f"centre {c}: linear tree built on {lin}, expected the reversed basis list (root = last site)")
        for k in range(n):
            node = nodes[n - 1 - k]
            want_t = f"site{k}" + ("[left bond 0]" if k == 0 else "")
            if repr(node.tensor) != want_t:
                problems.append(f"centre {c}: node {k} from the leaf gets tensor {node.tensor!r}, expected {want_t}")
            if node.qn != QTag("L", k + 1):
                problems.append(f"centre {c}: node {k} from the leaf gets label {node.qn!r}, expected L{k + 1} (quantum number of its subtree" + ("; the root must carry the total)" if k == n - 1 else ")"))
        if any(st != "left-canonical" for _, st in reads) or sorted({i for i, _ in reads}) != list(range(n)):
            problems.append(f"centre {c}: site tensors read in state {sorted({st for _, st in reads})}; the root is the gauge centre only if the chain is left-canonical")
    chk.ob("chain-conversion", "from_mps on a symbolic chain (centres 0, 1, last)", not problems, fi.where, problems[:2] or "as expected", "as expected", line=fi.node.lineno,
           detail="chain -> tree conversion: " + (problems[0] if problems else "") + " - a node label that is not the quantum number of its subtree makes every symmetry-blocked decomposition "
                  "(compress, canonicalise, entropies) discard wrong blocks in non-zero sectors")


# ---------------------------------------------------------------------------------------------- the local propagation steps of the tree sweeps
def local_step_rule(chk, src, rule):
    """abstract runs of evolve_0site / evolve_1site / evolve_2site with recorders for the effective-Hamiltonian builders and the Krylov exponential: whatever the shape of the
    local tensor (a 1 x 1 bond matrix included) the step returns exp(coeff * tau * H_eff) applied to the local tensor: H_eff of the right kind for the node, the vector = the
    flattened local tensor, the matrix-vector product = H_eff on the argument brought back to the tensor's shape and flattened again"""
    import sympy as sp
    from ..syminterp import SymInterp, Sym
    c, t = sp.Symbol("coeff"), sp.Symbol("tau")

    class Tens(Sym):
        def __init__(self, name, shape):
            super().__init__(name)
            self.shape = tuple(shape)
            self.ndim = len(self.shape)
            n = 1
            for d in self.shape:
                n *= d
            self.size = n

        def ravel(self):
            return Flat(self)

        flatten = ravel

        def reshape(self, *shape):
            shape = tuple(shape[0]) if len(shape) == 1 and isinstance(shape[0], (tuple, list)) else tuple(shape)
            if shape == (-1,):
                return Flat(self)
            return self if shape == self.shape else Tens(f"{self._name} reshaped to {shape}", shape)

    class Flat(Sym):
        def __init__(self, of):
            super().__init__(f"flat({of._name})")
            self.of, self.shape, self.size, self.ndim = of, (of.size,), of.size, 1

        def reshape(self, *shape):
            shape = tuple(shape[0]) if len(shape) == 1 and isinstance(shape[0], (tuple, list)) else tuple(shape)
            return self.of.reshape(shape)

        def ravel(self):
            return self

    class Hop(Sym):
        def __init__(self, kind, node):
            super().__init__(f"{kind}({node!r})")
            self.kind, self.node = kind, node

        def __call__(self, x):
            return Tens(f"{self._name} applied to [{x._name}]", x.shape) if isinstance(x, Tens) else Sym(f"{self._name} applied to a flat vector")
    cases = [("evolve_0site", "hop_expr0", [(1, 1), (3, 5), (1, 4)]), ("evolve_1site", "hop_expr1", [(2, 3, 4), (1, 2, 1), (1, 1)]), ("evolve_2site", "hop_expr2", [(2, 3, 3, 4), (1, 2, 2, 1)])]
    for fname, hname, shapes in cases:
        fi = src.func(TEVO, fname)
        for shape in shapes:
            local = Tens("local tensor", shape)
            snode = Sym("snode", tensor=local, shape=shape)
            ttns = Sym("ttns", merge_with_parent=lambda n_: local)
            rec = {}

            def hop_builder(kind):
                def build(node, *a, **k):
                    rec.setdefault("built", []).append((kind, node))
                    h = Hop(kind, node)
                    return (h, "extra") if kind == "hop_expr2" else h
                return build

            def expm(fn, scalar, vec, *a, **k):
                size = getattr(vec, "size", None)
                probe = Flat(Tens("probe", local.shape)) if size == local.size else Flat(Tens("probe", (size,)))
                rec["calls"] = rec.get("calls", 0) + 1
                rec["vec"], rec["scalar"], rec["image"] = vec, scalar, fn(probe)
                return Sym("exp(scalar * H) vec", shape=(size,)), "j"
            it = SymInterp(src, None, {"hop_expr0": hop_builder("hop_expr0"), "hop_expr1": hop_builder("hop_expr1"), "hop_expr2": hop_builder("hop_expr2"), "expm_krylov": expm})
            args = ([local] if fname == "evolve_0site" else []) + [snode, ttns, Sym("ttno"), Sym("ttne"), c, t]
            out = it.call_function(fi, args)
            probs = []
            if rec.get("calls") != 1:
                probs.append(f"the exponential is applied {rec.get('calls', 0)} times; the step returns {out!r}")
            else:
                if rec.get("built") != [(hname, snode)]:
                    probs.append(f"effective Hamiltonian built as {rec.get('built')}")
                if not (isinstance(rec["vec"], Flat) and rec["vec"].of is local):
                    probs.append(f"vector handed to the exponential: {rec['vec']!r}")
                if sp.simplify(sp.sympify(rec["scalar"]) - c * t) != 0:
                    probs.append(f"exponent scalar {rec['scalar']}")
                img = rec["image"]
                if not (isinstance(img, Flat) and img.of._name == f"{hname}(snode) applied to [probe]" and img.of.shape == local.shape):
                    probs.append(f"matrix-vector product gives {img!r}")
                if not (isinstance(out, tuple) and len(out) == 2 and repr(out[0]) == "exp(scalar * H) vec" and out[1] == "j"):
                    probs.append(f"returns {out!r}")
            chk.ob(rule, f"{fname}[local tensor of shape {shape}]", not probs, fi.where, probs[:2] or "exp(coeff * tau * H_eff) on the flattened local tensor", "one Krylov exponential of coeff * tau * H_eff on the local tensor",
                   line=fi.node.lineno, detail="every local step of the projector splitting is an exponential of the effective Hamiltonian, also where the local tensor is a single number "
                   "(a bond of dimension one carries the phase / weight exp(coeff tau <H>) that cancels the double counting of its neighbours): " + (probs[0] if probs else ""))


def regularized_inversion_rule(chk, src, rule):
    """regularized_inversion interpreted on a 2 x 2 complex Hermitian overlap whose eigendecomposition is handed in as an oracle (exact, sympy): the result is
    V diag(1 / (e + eps exp(-e / eps))) V^dagger - with the conjugated eigenvectors, not their transpose"""
    import sympy as sp
    from ..syminterp import SymInterp, Sym
    fi = src.func(TEVO, "regularized_inversion")
    e1, e2, eps = sp.Symbol("e1", positive=True), sp.Symbol("e2", positive=True), sp.Symbol("eps", positive=True)
    V = sp.Matrix([[1, sp.I], [sp.I, 1]]) / sp.sqrt(2)

    class Vec(Sym):
        def __init__(self, v):
            super().__init__("vector")
            self.v = list(v)
            self.shape = (len(self.v),)

        def _b(self, o, f):
            ov = o.v if isinstance(o, Vec) else [o] * len(self.v)
            return Vec([f(a, b) for a, b in zip(self.v, ov)])

        def __add__(self, o):
            return self._b(o, lambda a, b: a + b)

        __radd__ = __add__

        def __mul__(self, o):
            return self._b(o, lambda a, b: a * b)

        __rmul__ = __mul__

        def __truediv__(self, o):
            return self._b(o, lambda a, b: a / b)

        def __rtruediv__(self, o):
            return self._b(o, lambda a, b: b / a)

        def __neg__(self):
            return Vec([-a for a in self.v])

    class Mat(Sym):
        def __init__(self, m):
            super().__init__("matrix")
            self.m = sp.Matrix(m)
            self.shape = self.m.shape

        @property
        def T(self):
            return Mat(self.m.T)

        def conj(self):
            return Mat(self.m.conjugate())

        conjugate = conj

        def __matmul__(self, o):
            return Mat(self.m * o.m)

        dot = __matmul__

        def __truediv__(self, o):
            if isinstance(o, Vec):                     # numpy broadcasting: column j divided by o[j]
                return Mat(self.m * sp.diag(*[1 / x for x in o.v]))
            return Mat(self.m / o)

        def __mul__(self, o):
            if isinstance(o, Vec):
                return Mat(self.m * sp.diag(*o.v))
            return Mat(self.m * o)

        __rmul__ = __mul__
    npx = Sym("np", exp=lambda v: Vec([sp.exp(x) for x in v.v]) if isinstance(v, Vec) else sp.exp(v), diag=lambda v: Mat(sp.diag(*v.v)) if isinstance(v, Vec) else Vec([v.m[i, i] for i in range(v.m.shape[0])]),
              conj=lambda x: x.conj(), conjugate=lambda x: x.conj(), transpose=lambda x: x.T, reciprocal=lambda v: 1 / v)
    eigh = lambda m, **k: (Vec([e1, e2]), Mat(V))       # noqa: E731
    it = SymInterp(src, None, {"np": npx, "xp": npx, "scipy": Sym("scipy", linalg=Sym("linalg", eigh=eigh)), "asxp": lambda x: x, "asnumpy": lambda x: x})
    out = it.call_function(fi, [Sym("overlap"), eps])
    want = V * sp.diag(1 / (e1 + eps * sp.exp(-e1 / eps)), 1 / (e2 + eps * sp.exp(-e2 / eps))) * V.H
    ok = isinstance(out, Mat) and sp.simplify(out.m - want) == sp.zeros(2, 2)
    chk.ob(rule, "regularized_inversion: V diag(1 / regularised eigenvalues) V^dagger for a complex Hermitian overlap", ok, fi.where, str(getattr(out, "m", out))[:200], "V D^-1 V^dagger", line=fi.node.lineno,
           detail="the parent-bond overlap of a complex state is complex Hermitian: with the transposed instead of the conjugated eigenvectors the result is its inverse only for real overlaps, and every "
                  "non-root node of a variable-mean-field step in real time gets a wrong derivative")
