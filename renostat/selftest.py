"""Self-test battery (DESIGN.md 2.3): mutants that must be detected, twins that must stay silent.
Filled in by renostat/selftest_specs.py; an empty battery is reported as such."""
import sys


def run_for(pid, out=sys.stdout):
    try:
        from . import selftest_run
    except ImportError:
        print(f"{pid}: selftest battery not available", file=out)
        return 0
    return selftest_run.run_for(pid, out=out)


def main(pids, jobs=16):
    try:
        from . import selftest_run
    except ImportError:
        print("selftest battery not available")
        return 0
    return selftest_run.main(pids, jobs=jobs)
