"""Self-test battery runner: applies single text edits to scratch copies of /repo/renormalizer and checks that
mutants are reported (exit 1, finding mentions the expected rule / construct) and twins keep the finding set.
Scratch copies live under $TMPDIR (outside /repo and /verif) and are removed in a finally block."""
import io
import json
import os
import shutil
import sys
import tempfile
import time
from concurrent.futures import ProcessPoolExecutor

from . import report

REPO = os.environ.get("RENOSTAT_REPO", "/repo")


def _copy_tree(dst):
    src = os.path.join(REPO, "renormalizer")
    for dp, dn, fn in os.walk(src):
        dn[:] = [d for d in dn if d not in ("__pycache__", "tests")]
        rel = os.path.relpath(dp, REPO)
        os.makedirs(os.path.join(dst, rel), exist_ok=True)
        for f in fn:
            if f.endswith(".py"):
                shutil.copyfile(os.path.join(dp, f), os.path.join(dst, rel, f))


def _run_variant(spec):
    from .__main__ import run_one
    t0 = time.time()
    tmp = tempfile.mkdtemp(prefix="renostat-")
    try:
        _copy_tree(tmp)
        for ed in spec["edits"]:
            if "patch" in ed:
                import subprocess
                pf = os.path.join(report.VERIF, ed["patch"])
                r = subprocess.run(["patch", "-p1", "-s", "-f", "--no-backup-if-mismatch", "-d", tmp] + (["-R"] if ed.get("reverse") else []) + ["-i", pf], capture_output=True, text=True)
                if r.returncode != 0:
                    return dict(spec, status="skipped", why=f"patch {ed['patch']} does not apply: {(r.stdout + r.stderr)[-200:]}")
                continue
            p = os.path.join(tmp, ed["file"])
            if not os.path.exists(p):
                return dict(spec, status="skipped", why=f"file {ed['file']} missing")
            txt = open(p).read()
            if txt.count(ed["old"]) != 1:
                return dict(spec, status="skipped", why=f"anchor text occurs {txt.count(ed['old'])}x in {ed['file']}")
            open(p, "w").write(txt.replace(ed["old"], ed["new"]))
            try:
                compile(open(p).read(), p, "exec")
            except SyntaxError as e:
                return dict(spec, status="skipped", why=f"edited file does not compile: {e}")
        buf = io.StringIO()
        st = run_one(spec["property"], "quick", tmp, write=False, out=buf)
        out = buf.getvalue()
        viol = [l for l in out.splitlines() if l.startswith("  " + spec["property"] + " ")]
        res = dict(spec, exit=st, wall_s=round(time.time() - t0, 2))
        res.pop("edits", None)
        if spec["kind"] == "mutant":
            hit = st == 1 and any(all(x in l for x in spec.get("expect", [])) for l in viol)
            res["status"] = "detected" if hit else "MISSED"
            if not hit:
                res["output"] = out[-1500:]
            else:
                res["report"] = [l for l in viol if all(x in l for x in spec.get("expect", []))][0][:300]
        else:
            res["status"] = "silent" if st == 0 else "FALSE-ALARM"
            if st != 0:
                res["output"] = out[-1500:]
        return res
    except Exception as e:  # noqa
        import traceback
        return dict(spec, status="error", why=traceback.format_exc()[-800:])
    finally:
        shutil.rmtree(tmp, ignore_errors=True)


def load_specs(pids=None):
    from .selftest_specs import SPECS
    out = [s for s in SPECS if not pids or s["property"] in pids]
    return out


def run_specs(specs, jobs=16):
    if not specs:
        return []
    with ProcessPoolExecutor(max_workers=min(jobs, len(specs))) as ex:
        return list(ex.map(_run_variant, specs))


def summarise(results, out=sys.stdout):
    bad = [r for r in results if r["status"] in ("MISSED", "FALSE-ALARM", "error")]
    n = {k: sum(1 for r in results if r["status"] == k) for k in ("detected", "silent", "skipped", "MISSED", "FALSE-ALARM", "error")}
    print(f"selftest: {len(results)} variants: {n}", file=out)
    for r in bad:
        print(f"  SELFTEST-{r['status']} {r['property']} {r['id']}: {r.get('why', '')}\n{r.get('output', '')}", file=out)
    return bad


def run_for(pid, out=sys.stdout, jobs=16):
    specs = load_specs([pid])
    results = run_specs(specs, jobs)
    bad = summarise(results, out)
    # append the ledger to the evidence file of this property
    evp = os.path.join(report.EVIDENCE_DIR, f"{pid}.json")
    if os.path.exists(evp):
        ev = json.load(open(evp))
        ev["coverage"]["selftest"] = [{k: r.get(k) for k in ("id", "kind", "status", "expect", "what", "report", "why", "wall_s")} for r in results]
        json.dump(ev, open(evp, "w"), indent=1, default=repr)
    if bad:
        print(f"ANALYSIS-ERROR property={pid} self-test: a checker that cannot tell the difference is not believed", file=out)
        return 2
    return 0


def main(pids, jobs=16):
    specs = load_specs(pids)
    t0 = time.time()
    results = run_specs(specs, jobs)
    bad = summarise(results)
    for r in results:
        print(f"  {r['status']:12s} {r['property']} {r['kind']:6s} {r['id']}  {r.get('what', '')[:70]}")
    print(f"selftest wall {time.time() - t0:.1f}s")
    return 2 if bad else 0
