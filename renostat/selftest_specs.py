"""Mutants (must be detected) and twins (behaviour-preserving, must stay silent) for the self-test battery.
Every entry is one or more exact text edits of the current /repo source; an edit whose anchor text no longer
occurs exactly once is reported as skipped (the repository moved on), never as a pass."""

MP = "renormalizer/mps/mp.py"
MPS = "renormalizer/mps/mps.py"
MPO = "renormalizer/mps/mpo.py"
MPDM = "renormalizer/mps/mpdm.py"
LIB = "renormalizer/mps/lib.py"
GS = "renormalizer/mps/gs.py"
HOP = "renormalizer/mps/hop_expr.py"
TREE = "renormalizer/tn/tree.py"
TEVO = "renormalizer/tn/time_evolution.py"
TGS = "renormalizer/tn/gs.py"
THOP = "renormalizer/tn/hop_expr.py"
OP = "renormalizer/model/op.py"
BASIS = "renormalizer/model/basis.py"
RK = "renormalizer/utils/rk.py"
TDMPS = "renormalizer/utils/tdmps.py"
CONFIGS = "renormalizer/utils/configs.py"
SYMMPO = "renormalizer/mps/symbolic_mpo.py"
SVDQN = "renormalizer/mps/svd_qn.py"

SPECS = []


def M(pid, id_, file, old, new, expect, what, more=()):
    SPECS.append({"property": pid, "kind": "mutant", "id": id_, "edits": [{"file": file, "old": old, "new": new}] + list(more),
                  "expect": list(expect), "what": what})


def T(pid, id_, file, old, new, what, more=()):
    SPECS.append({"property": pid, "kind": "twin", "id": id_, "edits": [{"file": file, "old": old, "new": new}] + list(more), "what": what})


# ------------------------------------------------------------------------------------------------ C19
M("C19", "ck45-a", RK, "[3/10, -9/10, 6/5, 0, 0, 0],", "[3/10, -9/10, 6/5 + 1/1000, 0, 0, 0],", ["Cash-Karp45"], "one coefficient of the Cash-Karp matrix changed")
M("C19", "rk4-node", RK, "c = np.array([0, 0.5, 0.5, 1.0])", "c = np.array([0, 0.5, 0.75, 1.0])", ["row-sum", "C_RK4"], "a node c_i of classic RK4 (never seen by test_rk)")
M("C19", "rkf45-embedded", RK, "[25.0 / 216, 0.0, 1408.0 / 2565, 2197.0 / 4104, -1.0 / 5, 0.0],", "[25.0 / 216, 0.0, 1408.0 / 2565, 2197.0 / 4104, -1.0 / 4, 0.0],", ["RKF45", "row1"],
  "embedded 4th-order row of RKF45")
M("C19", "order-raised", RK, """            Nstage = 3
            order = (3,)""", """            Nstage = 3
            order = (4,)""", ["Kutta_RK3", "order-condition"], "advertised order raised")
M("C19", "fehlberg-b", RK, "[16.0 / 135, 0.0, 6656.0 / 12825, 28561.0 / 56430, -9.0 / 50, 2.0 / 55]\n            )\n            c = np.array([0.0, 1.0 / 4, 3.0 / 8, 12.0 / 13, 1.0, 1.0 / 2])",
  "[16.0 / 135, 0.0, 6656.0 / 12825, 28561.0 / 56431, -9.0 / 50, 2.0 / 55]\n            )\n            c = np.array([0.0, 1.0 / 4, 3.0 / 8, 12.0 / 13, 1.0, 1.0 / 2])", ["Fehlberg5"],
  "a weight of Fehlberg5 (not covered by test_rk)")
M("C19", "taylor", RK, "[1.0 / factorial(i) for i in range(self.order + 1)]", "[1.0 / factorial(i + 1) for i in range(self.order + 1)]", ["taylor"], "Taylor coefficients shifted")
M("C19", "ralston", RK, "alpha = 2.0 / 3.0", "alpha = 3.0 / 4.0", ["tableau-layout"], "placeholder", )
SPECS.pop()  # Ralston with another alpha is still a valid 2nd order method: not a mutant
T("C19", "twin-decimal", RK, "[1 / 4.0, 0.0, 0.0, 0.0, 0.0, 0.0],", "[0.25, 0.0, 0.0, 0.0, 0.0, 0.0],", "1/4.0 -> 0.25")
T("C19", "twin-ralston-alpha", RK, "alpha = 2.0 / 3.0", "alpha = 3.0 / 4.0", "another alpha of the RK2 family is still second order with consistent nodes")

# ------------------------------------------------------------------------------------------------ C14
M("C14", "key-renamed", MP, 'for attr in ["qnidx", "qntot", "qn", "to_right"] + other_attrs:', 'for attr in ["qnidx", "qn_tot", "qn", "to_right"] + other_attrs:',
  ["chain-round-trip"], "key renamed in dump only (getattr would fail at run time, key set disagrees)")
M("C14", "coeff-not-dumped", MPS, 'super().dump(fname, other_attrs=["coeff"])', "super().dump(fname, other_attrs=[])", ["coeff"], "coeff no longer dumped")
M("C14", "version-bump", MP, 'data_dict["version"] = "0.4"', 'data_dict["version"] = "0.5"', ["chain-round-trip"], "version bumped without a reader branch")
M("C14", "cross-wired", MP, 'mp.qnidx = int(npload["qnidx"])\n        mp.qntot = npload["qntot"].astype(int)\n        mp.to_right = bool(npload["to_right"])\n        return mp\n\n    def __init__',
  'mp.qnidx = int(npload["qnidx"])\n        mp.qntot = npload["qntot"].astype(int)\n        mp.to_right = bool(npload["qnidx"])\n        return mp\n\n    def __init__', ["MatrixProduct"],
  "to_right restored from the wrong key")
M("C14", "tree-qn-dropped", TREE, '            data_dict[f"qn_{i}"] = node.qn\n', "", ["TTNS"], "tree bond labels no longer dumped")
M("C14", "old-protocol", TDMPS, """        np.savez(tmp_path, **d)
        os.replace(tmp_path, file_path)
""", """        if os.path.exists(file_path):
            if os.path.exists(bak_path):
                os.remove(bak_path)
            os.rename(file_path, bak_path)
        np.savez(file_path, **d)
""", ["crash-points"], "the original rename-to-.bak protocol (delete backup first)")
M("C14", "write-in-place", TDMPS, """        np.savez(tmp_path, **d)
        os.replace(tmp_path, file_path)
""", """        np.savez(file_path, **d)
""", ["crash-points"], "result file overwritten in place")
M("C14", "remove-before-write", TDMPS, """        np.savez(tmp_path, **d)
        os.replace(tmp_path, file_path)
""", """        if os.path.exists(file_path):
            os.remove(file_path)
        np.savez(tmp_path, **d)
        os.replace(tmp_path, file_path)
""", ["crash-points"], "old result removed before the new one is complete")
T("C14", "twin-order", MP, """        data_dict["version"] = "0.4"
        data_dict["nsites"] = self.site_num""", """        data_dict["nsites"] = self.site_num
        data_dict["version"] = "0.4\"""", "independent data_dict lines reordered")
T("C14", "twin-rename-tmp", TDMPS, 'tmp_path = file_path + ".tmp.npz"', 'tmp_path = file_path + ".partial.npz"', "temporary name changed")
T("C14", "twin-bak-first", TDMPS, """        np.savez(tmp_path, **d)
        os.replace(tmp_path, file_path)

        # backup left by a previous version / previous crash
        if os.path.exists(bak_path):
            os.remove(bak_path)
""", """        np.savez(tmp_path, **d)
        os.replace(tmp_path, file_path)
""", "legacy backup cleanup dropped (still safe)")

# ------------------------------------------------------------------------------------------------ C15
M("C15", "qn-eq-zero", OP, "assert qn is None or np.all(qn == 0)", "assert qn is None or qn == 0", ["array-truth"], "the original defect")
M("C15", "neg-drops-qn", OP, "return Op(self.symbol, self.dofs, -self.factor, self.qn_list)", "return Op(self.symbol, self.dofs, -self.factor)", ["qn-carry", "__neg__"], "qn_list dropped in __neg__")
M("C15", "hash-other-key", OP, "return hash(self.to_tuple())", "return hash((self.symbol, tuple(self.dofs), self._label))", ["eq-hash-key"], "hash over a field eq does not compare")
M("C15", "product-order", OP, "qn = list(chain.from_iterable(op.qn_list for op in op_list))", "qn = list(chain.from_iterable(op.qn_list for op in reversed(op_list)))", ["product-order"],
  "quantum numbers aggregated in reverse order")
M("C15", "mul-factor", OP, "return Op(self.symbol, self.dofs, self.factor * other, self.qn_list)", "return Op(self.symbol, self.dofs, self.factor + other, self.qn_list)", ["factor-algebra"],
  "scalar multiple adds instead of multiplies")
M("C15", "truediv", OP, "return self * (1/other)", "return self * other", ["operand-order", "OpSum / "], "division multiplies")
M("C15", "simplify-drops-qn", OP, "op = Op(op.symbol, op.dofs, op.factor + sum([old_opsum[i].factor for i in identical_indices]), op.qn_list)",
  "op = Op(op.symbol, op.dofs, op.factor + sum([old_opsum[i].factor for i in identical_indices]))", ["qn-carry", "simplify"], "merged term loses its quantum numbers")
M("C15", "sub", OP, """    def __sub__(self, other):
        return self + (-other)

    def __mul__(self, other) -> Union["Op", List["Op"]]:""", """    def __sub__(self, other):
        return self + other

    def __mul__(self, other) -> Union["Op", List["Op"]]:""", ["operand-order", "Op - Op"], "a - b computed as a + b")
T("C15", "twin-totuple", OP, "return self.symbol, tuple(self.dofs), self.factor, tuple(tuple(t) for t in self.qn_list)",
  "return tuple(self.dofs), self.symbol, self.factor, tuple(tuple(t) for t in self.qn_list)", "key tuple reordered (shared by eq and hash)")
T("C15", "twin-neg", OP, "return OpSum([-op for op in self])", "return OpSum([op * -1 for op in self])", "negation written as multiplication")
T("C15", "twin-anyall", OP, "assert qn is None or np.all(qn == 0)", "assert qn is None or not np.any(qn != 0)", "all(==0) written as not any(!=0)")

# ------------------------------------------------------------------------------------------------ C16
M("C16", "xp-swapped", BASIS, """                    - self.op_mat(r"b^\\dagger b^\\dagger")
                    - self.op_mat(r"b b^\\dagger")
                    + self.op_mat(r"b^\\dagger b"))
            mat = mat + self.x0 * 1j * np.sqrt(self.omega / 2) * (self.op_mat(r"b^\\dagger") - self.op_mat("b"))
            if self.dvr:
                mat = self.dvr_v.T @ mat @ self.dvr_v

        elif op_symbol == "x dx":""", """                    - self.op_mat(r"b^\\dagger b^\\dagger")
                    + self.op_mat(r"b b^\\dagger")
                    - self.op_mat(r"b^\\dagger b"))
            mat = mat + self.x0 * 1j * np.sqrt(self.omega / 2) * (self.op_mat(r"b^\\dagger") - self.op_mat("b"))
            if self.dvr:
                mat = self.dvr_v.T @ mat @ self.dvr_v

        elif op_symbol == "x dx":""", ["sho-product", "x p"], "'x p' branch given the p x formula (the original defect)")
M("C16", "x2-term", BASIS, "mat += 2 * self.x0 * np.sqrt(0.5/self.omega) * self.op_mat(r\"b^\\dagger+b\")", "mat += self.x0 * np.sqrt(0.5/self.omega) * self.op_mat(r\"b^\\dagger+b\")",
  ["sho-product", "x^2"], "cross term of the shifted x^2 halved (invisible for x0 = 0)")
M("C16", "p2-sign", BASIS, """            mat = -self.omega / 2 * (self.op_mat(r"b^\\dagger b^\\dagger")
                                     - self.op_mat(r"b^\\dagger b")
                                     - self.op_mat(r"b b^\\dagger")""", """            mat = -self.omega / 2 * (self.op_mat(r"b^\\dagger b^\\dagger")
                                     - self.op_mat(r"b^\\dagger b")
                                     + self.op_mat(r"b b^\\dagger")""", ["sho-product", "p^2"], "sign of one term of p^2")
M("C16", "dvr-not-rotated", BASIS, """            mat = mat + self.x0 * 1j * np.sqrt(self.omega / 2) * (self.op_mat(r"b^\\dagger") - self.op_mat("b"))
            if self.dvr:
                mat = self.dvr_v.T @ mat @ self.dvr_v

        elif op_symbol == "dx x":""", """            mat = mat + self.x0 * 1j * np.sqrt(self.omega / 2) * (self.op_mat(r"b^\\dagger") - self.op_mat("b"))

        elif op_symbol == "dx x":""", ["sho-dvr", "p x"], "'p x' not rotated to the DVR basis")
M("C16", "sigma-y", BASIS, "mat = np.diag([-1.0j], k=1)", "mat = np.diag([1.0j], k=1)", ["pauli"], "sign of sigma_y flipped (Y stays Hermitian, X Y = i Z breaks)")
M("C16", "sigma-minus", BASIS, """            elif op_symbol in ["sigma_-", "-"]:
                mat = np.diag([1.], k=-1)""", """            elif op_symbol in ["sigma_-", "-"]:
                mat = np.diag([1.], k=1)""", ["pauli", "sigma_-"], "sigma_- given the raising matrix")
M("C16", "electron-adag", BASIS, """        if op_symbol == r"a^\\dagger":
            mat[1, 0] = 1.
        elif op_symbol == "a":
            mat[0, 1] = 1.""", """        if op_symbol == r"a^\\dagger":
            mat[0, 1] = 1.
        elif op_symbol == "a":
            mat[1, 0] = 1.""", ["pauli", "BasisSimpleElectron"], "a and a^dagger exchanged")
M("C16", "sinedvr-x2", BASIS, "mat = self._I()*self.xi**2+self._u()*self.xi*2+self._uu()", "mat = self._I()*self.xi**2+self._u()*self.xi+self._uu()", ["sinedvr-algebra", "x^2"],
  "binomial coefficient of the sine-DVR x^2")
M("C16", "sinedvr-x2dx", BASIS, "mat = self._uudu() + 2*self.xi*self._udu() + self.xi**2*self._du()", "mat = self._uudu() + 2*self.xi*self._udu() + self.xi*self._du()", ["sinedvr-algebra", "x^2 dx"],
  "power of xi in x^2 dx")
M("C16", "copy-sho-x0", BASIS, "nbas=self.nbas, x0=self.x0,", "nbas=self.nbas,", ["copy-forward", "BasisSHO"], "BasisSHO.copy drops x0")
M("C16", "copy-halfspin", BASIS, """            for o in op_symbol:
                mat = mat @ self.op_mat(o)

        return mat * op_factor

    def copy(self, new_dof):
        return self.__class__(new_dof, self.sigmaqn)""", """            for o in op_symbol:
                mat = mat @ self.op_mat(o)

        return mat * op_factor

    def copy(self, new_dof):
        return self.__class__(new_dof)""", ["copy-forward", "BasisHalfSpin"], "BasisHalfSpin.copy drops sigmaqn")
M("C16", "multi-e-transposed", BASIS, """            if op_symbol1 == r"a^\\dagger" and op_symbol2 == "a":
                mat[int(op_symbol1_idx), int(op_symbol2_idx)] = 1.""", """            if op_symbol1 == r"a^\\dagger" and op_symbol2 == "a":
                mat[int(op_symbol2_idx), int(op_symbol1_idx)] = 1.""", ["multi-electron"], "a^dagger_i a_j placed at [j, i]")
T("C16", "twin-distribute", BASIS, "mat = np.sqrt(0.5/self.omega) * self.op_mat(r\"b^\\dagger+b\") + np.eye(self.nbas) * self.x0",
  "mat = np.sqrt(0.5/self.omega) * (self.op_mat(r\"b^\\dagger\") + self.op_mat(\"b\")) + self.x0 * np.eye(self.nbas)", "x written with the sum distributed")
T("C16", "twin-factor", BASIS, "mat = 1j * np.sqrt(self.omega / 2) * (self.op_mat(r\"b^\\dagger\") - self.op_mat(\"b\"))",
  "mat = -1j * np.sqrt(self.omega / 2) * (self.op_mat(\"b\") - self.op_mat(r\"b^\\dagger\"))", "p written with the sign moved inside")
T("C16", "twin-copy-kw", BASIS, "return self.__class__(new_dof, self.nbas, self.sigmaqn)", "return self.__class__(new_dof, sigmaqn=self.sigmaqn, nbas=self.nbas)", "BasisDummy.copy with keywords")

# ------------------------------------------------------------------------------------------------ C13
M("C13", "ps-no-copy", MPS, """        # one-site
        if np.iscomplex(evolve_dt):
            mps = self.copy()""", """        # one-site
        if np.iscomplex(evolve_dt):
            mps = self""", ["effect-bound", "_evolve_tdvp_ps"], "imaginary-time TDVP-PS sweeps over self instead of a copy")
M("C13", "metacopy-qn-shared", MP, "new.qn = [qn.copy() for qn in self.qn]\n        new.qnidx = self.qnidx\n        new.qntot = self.qntot.copy()\n        new.to_right = self.to_right\n        return new",
  "new.qn = self.qn\n        new.qnidx = self.qnidx\n        new.qntot = self.qntot.copy()\n        new.to_right = self.to_right\n        return new", ["copy-complete", "qn"], "metacopy shares the bond labels")
M("C13", "fold-half", MPS, """            self.coeff = 1
            other.coeff = 1
        return super().add(other)""", """            self.coeff = 1
        return super().add(other)""", ["effect-bound", "Mps.add"], "prefactor folded into other's tensors without resetting other.coeff")
M("C13", "apply-no-copy", MPO, "new_mps = self.promote_mt_type(mp.copy())", "new_mps = self.promote_mt_type(mp)", ["Mpo.apply"], "Mpo.apply writes the product into its argument")
M("C13", "bond-sv-no-copy", MPS, """        mps = self.copy()
        mps.ensure_right_canonical()
        _, s_array = mps.compress(temp_m_trunc=np.inf, ret_s=True)""", """        mps = self
        mps.ensure_right_canonical()
        _, s_array = mps.compress(temp_m_trunc=np.inf, ret_s=True)""", ["effect-bound", "calc_bond_singular_values"], "measurement compresses the state itself")
M("C13", "ttns-scale-inplace", TREE, """        if inplace:
            new_mp = self
        else:
            new_mp = self.copy()
        if np.iscomplex(val):""", """        new_mp = self
        if np.iscomplex(val):""", ["TTNS.scale"], "TTNS.scale ignores inplace=False")
M("C13", "ttns-evolve-self", TREE, "            ttns = self.copy()\n", "            ttns = self\n", ["effect-bound", "TTNS.evolve"], "the original defect (imaginary time in place)")
M("C13", "evolve-exact-self", MPS, "new_mps.coeff *= np.exp(-1j * h_mpo.offset * evolve_dt)", "self.coeff *= np.exp(-1j * h_mpo.offset * evolve_dt)", ["effect-bound", "evolve_exact"], "the original defect")
M("C13", "csum-single", LIB, "new_mps = mps_list[0].copy().canonicalise()", "new_mps = mps_list[0].canonicalise()", ["effect-bound", "compressed_sum"], "the original defect")
M("C13", "conj-in-place", MP, """        new_mp = self.metacopy()
        for idx, mt in enumerate(self):
            new_mp[idx] = mt.conj()
        return new_mp""", """        new_mp = self
        for idx, mt in enumerate(self):
            new_mp[idx] = mt.conj()
        return new_mp""", ["conj"], "conj conjugates in place")
M("C13", "ttns-copy-shares", TREE, "            node1.tensor = node2.tensor.copy()\n            node1.qn = node2.qn.copy()\n        return new\n\n    def to_complex",
  "            node1.tensor = node2.tensor\n            node1.qn = node2.qn.copy()\n        return new\n\n    def to_complex", ["copy-complete", "TTNS.copy"], "TTNS.copy shares node tensors")
M("C13", "vmf-no-copy", MPS, """        # `self` should not be modified during the evolution
        if imag_time:
            mps = self.copy()
        else:
            mps = self.to_complex()

        # the quantum number symmetry is used""", """        # `self` should not be modified during the evolution
        if imag_time:
            mps = self
        else:
            mps = self.to_complex()

        # the quantum number symmetry is used""", ["effect-bound", "_evolve_tdvp_mu_vmf"], "VMF imaginary time writes into self")
M("C13", "tdrk-return-self", MPS, "            new_mps, _ = sub_time_step_evolve(self, evolve_dt, 0)\n\n        return new_mps", "            new_mps, _ = sub_time_step_evolve(self, evolve_dt, 0)\n            new_mps = self\n\n        return new_mps",
  ["fresh-result"], "evolver returns its input")
T("C13", "twin-metacopy-explicit", MPS, """            mps = self.copy()
            if self.evolve_config.ivp_solver != "krylov":
                evolve_dt = -evolve_dt.imag
                # used in calculating derivatives
                coef = -1
        else:
            mps = self.to_complex()
            if self.evolve_config.ivp_solver != "krylov":
                coef = 1j

        # the sweep starts at the site `to_right` points away from and treats it as the
        # canonical center. The flags alone do not guarantee that (e.g. a sum of two states)
        if mps.to_right:
            mps.ensure_right_canonical()
        else:
            mps.ensure_left_canonical()

        # construct the environment matrix
        # almost half is not used. Not a big deal.
        environ = Environ(mps, mpo)

        # statistics for debug output
        local_steps = []
        # sweep for 2 rounds
        for i in range(2):
            for imps in mps.iter_idx_list(full=True):""", """            mps = self.metacopy()
            for isite in range(self.site_num):
                mps[isite] = self[isite].copy()
            if self.evolve_config.ivp_solver != "krylov":
                evolve_dt = -evolve_dt.imag
                # used in calculating derivatives
                coef = -1
        else:
            mps = self.to_complex()
            if self.evolve_config.ivp_solver != "krylov":
                coef = 1j

        # the sweep starts at the site `to_right` points away from and treats it as the
        # canonical center. The flags alone do not guarantee that (e.g. a sum of two states)
        if mps.to_right:
            mps.ensure_right_canonical()
        else:
            mps.ensure_left_canonical()

        # construct the environment matrix
        # almost half is not used. Not a big deal.
        environ = Environ(mps, mpo)

        # statistics for debug output
        local_steps = []
        # sweep for 2 rounds
        for i in range(2):
            for imps in mps.iter_idx_list(full=True):""", "copy() replaced by metacopy() + explicit tensor copies")
T("C13", "twin-rename-local", MPS, """        mps = self.copy()
        mps.ensure_right_canonical()
        _, s_array = mps.compress(temp_m_trunc=np.inf, ret_s=True)
        return s_array""", """        work = self.copy()
        work.ensure_right_canonical()
        _, s_array = work.compress(temp_m_trunc=np.inf, ret_s=True)
        return s_array""", "local variable renamed")
T("C13", "twin-helper", LIB, """    else:
        new_mps = mps_list[0].copy().canonicalise()
        new_mps.compress(temp_m_trunc=temp_m_trunc)
        return new_mps""", """    else:
        first = mps_list[0]
        new_mps = first.copy()
        new_mps.canonicalise()
        new_mps.compress(temp_m_trunc=temp_m_trunc)
        return new_mps""", "single-term branch re-wrapped over several statements")

# ------------------------------------------------------------------------------------------------ tree rules (C02, C11, C12, C08 tree part)
TTNOB = "renormalizer/tn/symbolic_ttno.py"
TBASE = "renormalizer/tn/treebase.py"
M("C02", "updown-swapped", TREE, "            indices.append((prefix_up, str(dofs)))\n            indices.append((prefix_down, str(dofs)))",
  "            indices.append((prefix_down, str(dofs)))\n            indices.append((prefix_up, str(dofs)))", ["label-schema"], "operator physical labels (down, up) instead of (up, down)")
M("C02", "children-ops-reversed", TTNOB, "in_ops_list = [out_ops_list[i] for i in children_idx]\n            m = len", "in_ops_list = [out_ops_list[i] for i in children_idx[::-1]]\n            m = len",
  ["builder-columns"], "incoming bond operators handed over in reversed child order (invisible for chains)")
M("C02", "roll-direction", TTNOB, "table = np.roll(table, -1, axis=1)", "table = np.roll(table, 1, axis=1)", ["builder-columns"], "new bond column rolled to the wrong end")
M("C02", "moveaxis-target", TTNOB, "return np.moveaxis(mo_tensor, mo.ndim - 1, -1)", "return np.moveaxis(mo_tensor, mo.ndim - 1, mo.ndim)", ["layout"], "parent bond moved behind the first physical axis only")
M("C02", "partition-size", TBASE, "size = (len(sequence) - 1) // ngroups + 1", "size = len(sequence) // ngroups", ["constructors"], "approximate_partition drops the tail for lengths not divisible by the group count")
M("C02", "binary-skips-one", TBASE, "new_offspring = offspring[2:]", "new_offspring = offspring[3:]", ["constructors"], "binary tree constructor loses a basis set for n >= 4")
M("C02", "todense-rows-cols", TREE, "output_indices = indices_up + indices_down", "output_indices = indices_down + indices_up", ["state-network"], "TTNO.todense returns the transpose")
T("C02", "twin-roll-as-concat", TTNOB, "table = np.roll(table, -1, axis=1)", "table = np.concatenate((table[:, 1:], table[:, :1]), axis=1)", "roll written as a concatenation of slices")
T("C02", "twin-extend", TREE, "            indices.append((prefix_up, str(dofs)))\n            indices.append((prefix_down, str(dofs)))",
  "            indices.extend([(prefix_up, str(dofs)), (prefix_down, str(dofs))])", "two appends written as one extend")

M("C11", "env-conj-labels-swapped", TREE, """        args.append(snode.tensor.conj())
        args.append(ttns.get_node_indices(snode, conj=True))

        args.append(onode.tensor)
        args.append(ttno.get_node_indices(onode))

        args.append(snode.tensor)
        args.append(ttns.get_node_indices(snode, ttno=ttno))

        # indices for the resulting tensor
        indices = self.get_parent_indices(enode, ttns, ttno)""", """        args.append(snode.tensor.conj())
        args.append(ttns.get_node_indices(snode, ttno=ttno))

        args.append(onode.tensor)
        args.append(ttno.get_node_indices(onode))

        args.append(snode.tensor)
        args.append(ttns.get_node_indices(snode, conj=True))

        # indices for the resulting tensor
        indices = self.get_parent_indices(enode, ttns, ttno)""", ["env-network"], "bra and ket labels exchanged in the children environment (invisible for real states)")
M("C11", "parent-env-includes-target-child", TREE, "            if j == ichild:\n                continue\n            indices = self.get_child_indices(enode, j, ttns, ttno)",
  "            if j == ichild and j > 0:\n                continue\n            indices = self.get_child_indices(enode, j, ttns, ttno)", ["env-network"], "parent environment of child 0 contains child 0's own environment")
M("C11", "qnmat-phys-reversed", TREE, "        for b in self.tn2bn[node].basis_sets:\n            qnbigl = add_outer(qnbigl, b.sigmaqn)\n        if not include_parent:",
  "        for b in self.tn2bn[node].basis_sets[::-1]:\n            qnbigl = add_outer(qnbigl, b.sigmaqn)\n        if not include_parent:", ["decomposition-axes"], "physical labels of multi-basis nodes listed in reverse axis order")
M("C11", "decompose-child-axis", TREE, "node.tensor = np.moveaxis(u.reshape(shape), -1, ichild)\n        node.children[ichild].qn = qnr", "node.tensor = np.moveaxis(u.reshape(shape), -1, 0)\n        node.children[ichild].qn = qnr",
  ["decomposition-axes"], "new bond restored at axis 0 instead of the child's position (wrong for ichild > 0)")
M("C11", "update2site-qn-side", TREE, "node.qn = self.qntot - msqn", "node.qn = msqn", ["decomposition-axes"], "labels of the new bond stored for the wrong side when the centre stays on the child")
M("C11", "add-physical-classified-virtual", TREE, "is_physical_idx = len(node1.children) <= i and", "is_physical_idx = len(node1.children) < i and", ["direct-sum"], "first physical axis treated as a bond in TTNS.add")
M("C11", "add-qn-order", TREE, "new_node.qn = np.concatenate([node1.qn, node2.qn], axis=0)", "new_node.qn = np.concatenate([node2.qn, node1.qn], axis=0)", ["direct-sum"], "labels concatenated in the other order than the blocks")
M("C11", "apply-qn-order", TREE, "snode2.qn = add_outer(snode1.qn, onode.qn)", "snode2.qn = add_outer(onode.qn, snode1.qn)", ["state-network"], "merged-bond labels (operator, state) vs tensor (state, operator)")
M("C11", "rdm2-skip-parent-env", TREE, "                    elif node.parent is neighbour_node:\n                        skip_parent = True", "                    elif node.parent is neighbour_node:\n                        skip_parent = False",
  ["state-network"], "two-site RDM contracts the parent environment of a node whose parent is on the path (double counting)")
M("C11", "merge-to-parent-position", TREE, "output_indices[node.idx_as_child] = child_idx2", "output_indices[0] = child_idx2", ["state-network"], "new bond label placed at child position 0 regardless of the child index")
T("C11", "twin-remove-twice", TREE, "            for i in range(2):\n                indices.remove(shared_bond)", "            indices.remove(shared_bond)\n            indices.remove(shared_bond)", "loop unrolled")
T("C11", "twin-args-order", TREE, """        args.append(snode.tensor.conj())
        args.append(ttns.get_node_indices(snode, conj=True))

        args.append(onode.tensor)
        args.append(ttno.get_node_indices(onode))

        args.append(snode.tensor)
        args.append(ttns.get_node_indices(snode, ttno=ttno))

        # indices for the resulting tensor
        indices = self.get_parent_indices(enode, ttns, ttno)""", """        args.append(onode.tensor)
        args.append(ttno.get_node_indices(onode))

        args.extend([snode.tensor.conj(), ttns.get_node_indices(snode, conj=True)])

        args.append(snode.tensor)
        args.append(ttns.get_node_indices(snode, ttno=ttno))

        # indices for the resulting tensor
        indices = self.get_parent_indices(enode, ttns, ttno)""", "operands of the contraction listed in another order")

M("C12", "ps1-missing-env-refresh", TEVO, "            ms = ttns.decompose_to_parent(snode)\n            # update env\n            ttne.build_children_environ_node(snode, ttns, ttno)", "            ms = ttns.decompose_to_parent(snode)",
  ["sweep-typestate"], "children environment not rebuilt after the QR in the forward one-site sweep")
M("C12", "ps1-zero-site-sign", TEVO, "ms_t, j = evolve_0site(ms.T, snode, ttns, ttno, ttne, coeff, -tau)", "ms_t, j = evolve_0site(ms.T, snode, ttns, ttno, ttne, coeff, tau)", ["sweep-splitting"], "bond matrix evolved forward instead of backward")
M("C12", "ps1-bond-orientation", TEVO, "ms_t, j = evolve_0site(ms.T, snode,", "ms_t, j = evolve_0site(ms, snode,", ["sweep-typestate"], "bond matrix passed as (parent, child) to a kernel expecting (child, parent)")
M("C12", "ps2-skip-backward-1site", TEVO, "        if snode is ttns.root and ichild == len(snode.children) - 1:\n            continue", "        if snode is ttns.root:\n            continue", ["sweep-splitting"],
  "root never evolved backward between its children's two-site problems")
M("C12", "hop1-labels-exchanged", THOP, "    input_indices = ttns.get_node_indices(snode, ttno=ttno)\n    output_indices = ttns.get_node_indices(snode, conj=True)\n\n    shape = snode.shape",
  "    input_indices = ttns.get_node_indices(snode, conj=True)\n    output_indices = ttns.get_node_indices(snode, ttno=ttno)\n\n    shape = snode.shape", ["heff-network"], "one-site effective Hamiltonian transposed")
M("C12", "hop2-missing-sibling-skip", THOP, "        if eparent.children[i] is enode:\n            continue", "        if eparent.children[i] is enode and i > 0:\n            continue", ["heff-network"], "two-site H_eff contains the node's own environment when it is child 0")
M("C12", "hop0-output", THOP, "    output_indices.append(indices[0])\n    input_indices.append(indices[2])\n    args.append(indices)\n\n    tensor = enode.environ_parent", "    output_indices.append(indices[2])\n    input_indices.append(indices[0])\n    args.append(indices)\n\n    tensor = enode.environ_parent",
  ["heff-network"], "zero-site H_eff: bra/ket of the child environment exchanged")
M("C12", "vmf-unpack-reversed", TREE, "for node, tnode in zip(ttns.node_list, template.node_list):", "for node, tnode in zip(ttns.node_list[::-1], template.node_list[::-1]):", ["pack-unpack"], "VMF vector unpacked in reverse node order")
M("C12", "vmf-mask-of-root", TEVO, "qnmask = ttns.get_qnmask(node).reshape(deriv.shape)", "qnmask = ttns.get_qnmask(ttns.root).reshape(deriv.shape)", ["pack-unpack"], "derivative masked with the root's mask")
M("C12", "update2site-parent-index", TREE, "m_trunc = self.compress_config.compute_m_trunc(s, self.node_idx[node], left=False)", "m_trunc = self.compress_config.compute_m_trunc(s, self.node_idx[parent], left=False)",
  ["decomposition-axes"], "two-site update reads the bond limit of another bond")
T("C12", "twin-redundant-refresh-removed", TEVO, "        local_steps.append(j)\n        # update env\n        ttne.update_1site(snode, ttns, ttno)\n    return local_steps", "        local_steps.append(j)\n    return local_steps",
  "the last environment refresh of the forward two-site sweep rebuilds environments nobody reads before they are rebuilt again")
T("C12", "twin-1bond-to-children-only", TEVO, "            ttns.push_cano_to_parent(child)\n            # update env\n            ttne.update_1bond(child, ttns, ttno)", "            ttns.push_cano_to_parent(child)\n            ttne.build_children_environ_node(child, ttns, ttno)",
  "after the last push of the backward two-site sweep only the children environment is read again")

M("C08", "tree-gs-centre", TGS, "ttns.update_2site(child, c, m, percent, cano_parent=False)", "ttns.update_2site(child, c, m, percent, cano_parent=True)", ["tree-sweep"], "centre left on the parent before descending into the child's sub-tree")
M("C08", "tree-gs-no-env-update", TGS, "            ttns.update_2site(child, c, m, percent, cano_parent=False)\n            # update env\n            ttne.update_2site(child, ttns, ttno)", "            ttns.update_2site(child, c, m, percent, cano_parent=False)",
  ["tree-sweep"], "environments not rebuilt before descending")

# ------------------------------------------------------------------------------------------------ rules added from missed seeds
M("C07", "rdm-bridge-conj", MPS, "                    tensor = tensordot(tensor, self[kms].conj(), ([2],[0]))\n                    if self[kms].ndim == 3:\n                        tensor = tensordot(tensor, self[kms], ([2,3],[0,1]))",
  "                    tensor = tensordot(tensor, self[kms], ([2],[0]))\n                    if self[kms].ndim == 3:\n                        tensor = tensordot(tensor, self[kms].conj(), ([2,3],[0,1]))", ["rdm-network"], "conj moved to the ket line in the bridging step (rank 3)")
M("C07", "rdm1-conj-dropped", MPS, "            tensor = tensordot(ltensor, ms.conj(), ([0],[0]))\n            tensor = tensordot(tensor, rtensor, ([-1],[0]))\n            if ms.ndim == 3:\n                tensor = tensordot(tensor, ms, ([0,-1],[0,-1]))",
  "            tensor = tensordot(ltensor, ms, ([0],[0]))\n            tensor = tensordot(tensor, rtensor, ([-1],[0]))\n            if ms.ndim == 3:\n                tensor = tensordot(tensor, ms.conj(), ([0,-1],[0,-1]))", ["rdm-network"], "1-site RDM conjugated (rank 3 only)")
M("C09", "error-bare-over-full", MPS, "error = error.norm / new_mps.norm", "error = error.mp_norm / new_mps.norm", ["relative-error-homogeneous"], "numerator without the prefactor")
M("C17", "jw-sign-or", SYMMPO, "n_permutes = op2_new_sigma_z * (op1_n_sigma_plus + op1_n_sigma_minus)", "n_permutes = op2_new_sigma_z * (op1_n_sigma_plus or op1_n_sigma_minus)", ["jw-sign-parity"], "number operators get a sign")
T("C17", "twin-jw-parity", SYMMPO, "n_permutes = op2_new_sigma_z * (op1_n_sigma_plus + op1_n_sigma_minus)", "n_permutes = op2_new_sigma_z * ((op1_n_sigma_plus + op1_n_sigma_minus) % 2)", "same parity")
M("C01", "qr-shortcut-min", SYMMPO, "    if gamma.shape[1] != 1:", "    if min(gamma.shape) != 1:", ["qr-shortcut-shape"], "single-row matrices take the single-column shortcut")
T("C01", "twin-qr-guard", SYMMPO, "    if gamma.shape[1] != 1:", "    if gamma.shape[1] > 1:", "same guard")

# ------------------------------------------------------------------------------------------------ regression mutants: every repaired defect, reverted
import json as _json
import os as _os

_V = _os.path.dirname(_os.path.dirname(_os.path.abspath(__file__)))
# ------------------------------------------------------------------------------------------------ wave 8 (C01 term table, C11 chain conversion, C09 entry gauge, TTNO.apply convention)
_TREE = "renormalizer/tn/tree.py"
_APPLY_MORE = [{"file": _TREE, "old": "output_indices.extend([indices1[-1], indices2[-1]])", "new": "output_indices.extend([indices2[-1], indices1[-1]])"},
               {"file": _TREE, "old": "add_outer(snode1.qn, onode.qn).reshape(output_shape[-1]", "new": "add_outer(onode.qn, snode1.qn).reshape(output_shape[-1]"},
               {"file": _TREE, "old": "output_shape.append(snode1.shape[i] * onode.shape[i])", "new": "output_shape.append(onode.shape[i] * snode1.shape[i])"}]
for _p in ("C03", "C11", "C12"):
    T(_p, f"twin-apply-operator-major-{_p}", _TREE, "output_indices.extend([indices1[i], indices2[i]])", "output_indices.extend([indices2[i], indices1[i]])",
      "TTNO.apply merges every bond operator-major and builds the labels in the same order: a consistent change of convention", more=_APPLY_MORE)
M("C12", "apply-labels-operator-major", _TREE, "add_outer(snode1.qn, onode.qn).reshape(output_shape[-1]", "add_outer(onode.qn, snode1.qn).reshape(output_shape[-1]", ["state-network"],
  "labels of the merged parent bond built operator-major while the tensor is state-major")
T("C11", "twin-from-mps-qnidx-len", _TREE, "mps.move_qnidx(len(mps) + 1)", "mps.move_qnidx(len(mps))", "any boundary at or beyond the last bond leaves every label a left-system label")
M("C11", "from-mps-qnidx-last-site", _TREE, "mps.move_qnidx(len(mps) + 1)", "mps.move_qnidx(len(mps) - 1)", ["chain-conversion"], "root label becomes the right-system label (zero) instead of the total")
M("C11", "from-mps-no-canonical", _TREE, "    mps.ensure_left_canonical()\n    mps.move_qnidx", "    mps.move_qnidx", ["chain-conversion"], "chain not brought to left-canonical form: the root is not the centre")
M("C11", "from-mps-label-shift", _TREE, "node.qn = mps.qn[i + 1]", "node.qn = mps.qn[i]", ["chain-conversion"], "node gets the label of the bond below it")
_SYMF = "renormalizer/mps/symbolic_mpo.py"
M("C01", "term-table-factor-of-term", _SYMF, "        factor_list.append(factor)\n\n    # const", "        factor_list.append(op.factor)\n\n    # const", ["term-table"],
  "coefficient taken before split_elementary folded the elementary operators' factors in")
M("C01", "term-table-const-first", _SYMF, "        factor_list.append(const)\n        table.append(table_entry)", "        factor_list.insert(0, const)\n        table.append(table_entry)", ["term-table"],
  "constant's coefficient put first while its row is last")
T("C01", "twin-term-table-enumerate", _SYMF, "    for op in terms:\n        elem_ops, factor = op.split_elementary(model.dof_to_siteidx)", "    for _k, op in enumerate(terms):\n        elem_ops, factor = op.split_elementary(model.dof_to_siteidx)",
  "loop written with enumerate")
_MPSF = "renormalizer/mps/mps.py"
M("C09", "vmf-gauge-on-flag", _MPSF, "        if not (self.evolve_config.force_ovlp and not self.to_right):\n            self.ensure_left_canonical()", "        if self.to_right:\n            self.ensure_left_canonical()", ["entry-gauge"],
  "VMF trusts the direction flag")
M("C09", "cmf-no-gauge", _MPSF, "            coef = 1j\n\n        self.ensure_left_canonical()\n", "            coef = 1j\n\n", ["entry-gauge"], "CMF no longer orthonormalises its input")
M("C09", "ps-gauge-wrong-end", _MPSF, "        if mps.to_right:\n            mps.ensure_right_canonical()\n        else:\n            mps.ensure_left_canonical()\n\n        # construct the environment matrix\n        # almost half is not used. Not a big deal.\n        environ = Environ(mps, mpo)\n\n        # statistics for debug output\n        local_steps = []\n        # sweep for 2 rounds\n        for i in range(2):\n            for imps in mps.iter_idx_list(full=True):",
  "        mps.ensure_left_canonical()\n        mps.to_right = True\n\n        # construct the environment matrix\n        # almost half is not used. Not a big deal.\n        environ = Environ(mps, mpo)\n\n        # statistics for debug output\n        local_steps = []\n        # sweep for 2 rounds\n        for i in range(2):\n            for imps in mps.iter_idx_list(full=True):", ["entry-gauge"],
  "PS1: centre brought to the last site but the sweep told to start at the first")
T("C09", "twin-ps-gauge-before-copy", _MPSF, "        if mps.to_right:\n            mps.ensure_right_canonical()\n        else:\n            mps.ensure_left_canonical()\n\n        # construct the environment matrix\n        # almost half is not used. Not a big deal.\n        environ = Environ(mps, mpo)\n\n        # statistics for debug output\n        local_steps = []\n        # sweep for 2 rounds\n        for i in range(2):\n            for imps in mps.iter_idx_list(full=True):",
  "        mps = mps.canonicalise() if False else mps\n        if mps.to_right:\n            mps.ensure_right_canonical()\n        else:\n            mps.ensure_left_canonical()\n\n        # construct the environment matrix\n        # almost half is not used. Not a big deal.\n        environ = Environ(mps, mpo)\n\n        # statistics for debug output\n        local_steps = []\n        # sweep for 2 rounds\n        for i in range(2):\n            for imps in mps.iter_idx_list(full=True):",
  "dead conditional expression in front of the gauge preparation")

# ------------------------------------------------------------------------------------------------ wave 9
T("C07", "twin-real-shortcut-all-inputs", _MPSF, "        if np.allclose(results.imag, 0):\n            return results.real",
  "        all_real = not self.is_complex and not self_conj.is_complex and not any(mpo.is_complex for mpo in mpos)\n        if all_real or np.allclose(results.imag, 0):\n            return results.real",
  "realness shortcut that looks at ket, bra and every operator")
M("C07", "real-cast-unguarded-single", _MPSF, "        if np.isclose(float(val.imag), 0):\n            return float(val.real)\n        else:\n            return complex(val)\n        # This is time",
  "        if not self.is_complex:\n            return float(val.real)\n        else:\n            return complex(val)\n        # This is time", ["real-cast-guard"],
  "single expectation returns the real part whenever the ket is real")
M("C08", "omega-identity-of-other-model", "renormalizer/mps/gs.py", "identity = Mpo.identity(mpo.model)", "identity = Mpo.identity(mps.model)", ["shift-operator"],
  "identity built on the state's model (differs after on-the-fly swaps / for a sub-model operator)")
M("C08", "omega-shift-sign", "renormalizer/mps/gs.py", "mpo = mpo.add(identity.scale(-omega))", "mpo = mpo.add(identity.scale(omega))", ["shift-operator"], "H + omega instead of H - omega")
T("C08", "twin-omega-sub", "renormalizer/mps/gs.py", "mpo = mpo.add(identity.scale(-omega))", "mpo = mpo.add(identity.scale(omega).scale(-1))", "shift written as two scalings")
M("C04", "push-cano-system-swapped", MP, '        qnbigl, qnbigr, _ = self._get_big_qn([idx])\n        system = "L" if self.to_right else "R"', '        qnbigl, qnbigr, _ = self._get_big_qn([idx])\n        system = "R" if self.to_right else "L"',
  ["system-direction", "_push_cano"], "_push_cano derives the system side from the direction with the opposite mapping")
M("C04", "ensure-left-wrong-end", MP, "            self.move_qnidx(0)\n            self.to_right = True", "            self.move_qnidx(self.site_num - 1)\n            self.to_right = True",
  ["ensure-consistency", "ensure_left_canonical"], "ensure_left_canonical starts the sweep to the right with the label centre at the last site")
M("C04", "ensure-right-flag", MP, "            self.move_qnidx(self.site_num - 1)\n            self.to_right = False", "            self.move_qnidx(self.site_num - 1)\n            self.to_right = True",
  ["ensure-consistency", "ensure_right_canonical"], "ensure_right_canonical sets the direction flag the wrong way")
M("C04", "ensure-left-trusts-flag", MP, "            self.to_right\n            or self.qnidx != self.site_num - 1\n            or (not self.check_left_canonical(rtol, atol))", "            self.qnidx != self.site_num - 1\n            or (not self.check_left_canonical(rtol, atol))",
  ["ensure-consistency", "ensure_left_canonical"], "ensure_left_canonical no longer looks at the direction flag: a left-canonical state keeps to_right=True")
M("C04", "check-left-short", MP, "        for i in range(len(self) - 1):\n            if not self[i].check_lortho(rtol, atol):", "        for i in range(len(self) - 2):\n            if not self[i].check_lortho(rtol, atol):",
  ["check-mirror", "check_left_canonical"], "check_left_canonical skips the last-but-one site")
M("C04", "check-right-wrong-orth", MP, "            if not self[i].check_rortho(rtol, atol):", "            if not self[i].check_lortho(rtol, atol):",
  ["check-mirror", "check_right_canonical"], "check_right_canonical tests left-orthogonality")
# ---- mutants of the abstract runs of _update_mps / select_basis / single_sweep (found by hand while writing them)
M("C05", "update-mps-trunc-site", MP, "                    SUset, cidx[0], self.to_right", "                    SUset, cidx[-1], self.to_right", ["bond-index", "_update_mps[2-site"], "two-site update to the right limits the wrong bond")
M("C06", "update-mps-label-bond", MP, "                    self.qn[cidx[0] + 1] = msqn", "                    self.qn[cidx[0]] = msqn", ["label-co-update", "_update_mps[1-site"], "kept labels stored on the bond behind the site")
M("C06", "update-mps-labels-of-other-factor", MP, "                    Vset, SVset, qnrnew, Uset, m_trunc, percent=percent", "                    Vset, SVset, qnlnew, Uset, m_trunc, percent=percent",
  ["label-co-update", "_update_mps["], "left sweep selects the right factor's vectors with the left factor's labels")
M("C06", "update-mps-centre", MP, "                self.qnidx = cidx[1]\n            else:\n                self[cidx[1]] = ms", "                self.qnidx = cidx[0]\n            else:\n                self[cidx[1]] = ms",
  ["label-co-update", "_update_mps[2-site"], "label centre left behind after a two-site update to the right")
M("C17", "ofs-sign-in-place", MP, "                    cstruct2 = cstruct2.copy()\n", "", ["state-swap", "Jordan-Wigner"], "the fermionic sign is written through the transposed view into the caller's two-site tensor")
M("C17", "ofs-mixed-sets", MP, "Uset2, SUset2, qnlnew2, Vset2, SVset2, qnrnew2\n                    qnbigl", "Uset2, SUset2, qnlnew1, Vset2, SVset2, qnrnew1\n                    qnbigl",
  ["state-swap"], "accepted swap keeps the labels of the unswapped decomposition")
M("C17", "ofs-basis-in-place", MP, "new_basis = self.model.basis.copy()", "new_basis = self.model.basis", ["state-swap", "in place"], "accepted swap reorders the old model's basis list in place")
M("C17", "ofs-ancilla-transposition", MP, "cstruct2 = asnumpy(cstruct).transpose(0, 3, 4, 1, 2, 5)", "cstruct2 = asnumpy(cstruct).transpose(0, 4, 3, 1, 2, 5)", ["state-swap", "density operator"],
  "density-operator swap exchanges physical and ancilla axis of the second site")
M("C05", "select-ascending", LIB, "sortbasdic = sorted(basdic.items(), key=lambda x: x[1][1], reverse=True)", "sortbasdic = sorted(basdic.items(), key=lambda x: x[1][1])", ["select-sorts"], "select_basis keeps the smallest values")
M("C05", "select-comp-value-index", LIB, "compset[:, sidx[idim]].copy() * sset[sidx[idim]]\n        mpsqn.append", "compset[:, sidx[idim]].copy() * sset[idim]\n        mpsqn.append", ["co-truncate", "select_basis"], "complement column scaled by the value of another column")
M("C05", "select-label-index", LIB, "mpsqn.append(qnlist[sidx[idim]])", "mpsqn.append(qnlist[idim])", ["co-truncate", "select_basis"], "labels of the kept columns taken by position, not by selected index")
M("C05", "select-block-not-removed", LIB, "        sidx = [i[0] for i in sort_block_basdic[0:nget]]\n        for idx in sidx:\n            del basdic[idx]\n", "        sidx = [i[0] for i in sort_block_basdic[0:nget]]\n", ["select_basis[percent 0.7]"], "columns taken by the per-sector quota stay candidates for the global selection")
M("C17", "sweep-no-operator-swap", GS, "            mpo.try_swap_site(mps.model, mps.compress_config.ofs_swap_jw)", "            pass", ["ofs-pair", "single_sweep"], "ground-state sweep swaps the state but not the operator")
M("C17", "sweep-swap-old-model", GS, "        averaged_ms = mps._update_mps(cstruct, cidx, qnbigl, qnbigr, percent)\n        if mps.compress_config.ofs is not None:\n            mpo.try_swap_site(mps.model, mps.compress_config.ofs_swap_jw)",
  "        model_before = mps.model\n        averaged_ms = mps._update_mps(cstruct, cidx, qnbigl, qnbigr, percent)\n        if mps.compress_config.ofs is not None:\n            mpo.try_swap_site(model_before, mps.compress_config.ofs_swap_jw)",
  ["ofs-pair", "single_sweep"], "operator swapped towards the model the state had before its update")
M("C08", "sweep-env-off-by-one", GS, "                lidx = imps - 2\n", "                lidx = imps - 1\n", ["sweep-driver"], "two-site sweep to the left asks for the left environment of the wrong site")
M("C06", "sweep-stale-copy", GS, "                res_mps = mps.copy()\n                res_mps._update_mps(cstruct, cidx, qnbigl, qnbigr, percent)", "                res_mps = mps.copy()\n                res_mps._update_mps(cstruct, cidx, qnbigr, qnbigl, percent)",
  ["fresh-labels", "single_sweep"], "stored optimum updated with the block labels of the two sides exchanged")
M("C14", "spill-one-file-per-object", MP, '            dump_name = os.path.join(dir_with_id, f"{idx}.npy")', '            dump_name = os.path.join(dir_with_id, "site.npy")', ["spill-protocol", "file of its own"],
  "all spilled sites of an object share one file")
M("C14", "spill-shared-directory", MP, "            dir_with_id = os.path.join(self.compress_config.dump_matrix_dir, str(id(self)))\n            if not os.path.exists(dir_with_id):\n                try:",
  "            dir_with_id = os.path.join(self.compress_config.dump_matrix_dir, str(os.getpid()))\n            if not os.path.exists(dir_with_id):\n                try:", ["spill-protocol"],
  "spill directory named after the process, not the object: two live objects overwrite each other's sites")
M("C14", "spill-reader-dtype", MP, "                mt = Matrix(np.load(mt_or_str_or_list), dtype=self.dtype)", "                mt = Matrix(np.load(mt_or_str_or_list))", ["spill-protocol", "reading a spilled site"],
  "reloaded site tensor is not converted to the object's dtype")
M("C14", "spill-reader-labels", MP, "                mt.sigmaqn = self._get_sigmaqn(item)\n            except:", "                mt.sigmaqn = self._get_sigmaqn(0)\n            except:", ["spill-protocol", "reading a spilled site"],
  "reloaded site tensor gets the physical labels of site 0")
M("C14", "spill-cleanup-everything", MP, "        dir_with_id = os.path.join(self.compress_config.dump_matrix_dir, str(id(self)))\n        if os.path.exists(dir_with_id):\n            try:\n                shutil.rmtree(dir_with_id)",
  "        dir_with_id = self.compress_config.dump_matrix_dir\n        if os.path.exists(dir_with_id):\n            try:\n                shutil.rmtree(dir_with_id)", ["spill-protocol", "deleting an object"],
  "deleting one object removes the whole spill directory, including the files of live objects")
M("C10", "evolve-exact-phase-sign", MPS, "        new_mps.coeff *= np.exp(-1j * h_mpo.offset * evolve_dt)", "        new_mps.coeff *= np.exp(1j * h_mpo.offset * evolve_dt)", ["evolve-exact-siblings", "offset cancels"],
  "compensating phase of Mps.evolve_exact with the wrong sign")
M("C10", "evolve-exact-mpdm-shift", MPDM, "space=space, shift=-h_mpo.offset", "space=space, shift=h_mpo.offset", ["evolve-exact-siblings"], "MpDm.evolve_exact shifts the propagator the wrong way")
M("C10", "evolve-exact-phase-on-input", MPS, "        new_mps.coeff *= np.exp(-1j * h_mpo.offset * evolve_dt)", "        self.coeff *= np.exp(-1j * h_mpo.offset * evolve_dt)", ["evolve-exact-siblings"],
  "phase multiplied into the input state instead of the result")
M("C01", "split-site-order-reversed", OP, "        for site_idx in sorted(grouped_op_info.keys()):", "        for site_idx in sorted(grouped_op_info.keys(), reverse=True):", ["split-order"],
  "per-site operators come out with the sites descending")
M("C01", "split-prepend", OP, "            grouped_op_info[site_idx].append(Op(elem_symbol, elem_name, qn=qn))", "            grouped_op_info[site_idx].insert(0, Op(elem_symbol, elem_name, qn=qn))", ["split-order"],
  "factors on one site are collected in reverse order")
M("C01", "split-unknown-dof-dropped", OP, "            if site_idx is None:\n                raise ValueError(f\"Unknown DoF name {elem_name} in {self}.\")", "            if site_idx is None:\n                continue", ["split-order", "unknown"],
  "a factor on an unknown degree of freedom is dropped silently")
M("C10", "from-mps-off-diagonal", MPDM, "                mo[:, iaxis, iaxis, :] = ms[:, iaxis, :].array", "                mo[:, iaxis, -1 - iaxis, :] = ms[:, iaxis, :].array", ["purification", "from_mps"],
  "purification puts the state on the anti-diagonal of (physical, ancilla)")
M("C10", "from-mps-shared-config", MPDM, "        mpo.compress_config = mps.compress_config.copy()\n        return mpo", "        mpo.compress_config = mps.compress_config\n        return mpo", ["purification", "from_mps"],
  "purified state shares its compression configuration with the source state")
M("C06", "ps-label-bond", MPS, "                    mps.qn[imps] = qnrset\n", "                    mps.qn[imps + 1] = qnrset\n", ["label-co-update", "_evolve_tdvp_ps"], "left sweep of the projector splitting stores the kept labels one bond off")
M("C06", "ps-centre-not-moved", MPS, "                    mps.qn[imps + 1] = qnlset\n                    mps.qnidx = imps+1", "                    mps.qn[imps + 1] = qnlset", ["label-co-update", "_evolve_tdvp_ps"],
  "right sweep of the projector splitting leaves the label centre behind")
M("C06", "ps2-stale-sites", MPS, "                qnbigl, qnbigr, _ = mps._get_big_qn([cidx0, cidx1])\n                mps._update_mps", "                qnbigl, qnbigr, _ = mps._get_big_qn([cidx0, cidx2])\n                mps._update_mps",
  ["fresh-labels", "_evolve_tdvp_ps2"], "two-site projector splitting computes the block labels for other sites than it updates")
M("C17", "ps2-no-operator-swap", MPS, "                mps._update_mps(mps_t, [cidx0, cidx1], qnbigl, qnbigr)\n                if mps.compress_config.ofs is not None:\n                    mpo.try_swap_site(mps.model, mps.compress_config.ofs_swap_jw)",
  "                mps._update_mps(mps_t, [cidx0, cidx1], qnbigl, qnbigr)", ["ofs-pair", "_evolve_tdvp_ps2"], "two-site time evolution swaps sites of the state but not of the operator")
# ------------------------------------------------------------------------------------------------ round trip: narrowing conversions of numerical content are seen by the run
M("C14", "load-tensors-cast-to-real", "renormalizer/mps/mp.py", '            mt = npload[f"mt_{i}"]\n            if np.iscomplexobj(mt):\n                mp.dtype = backend.complex_dtype',
  '            mt = npload[f"mt_{i}"].astype(np.float64)\n            if np.iscomplexobj(mt):\n                mp.dtype = backend.complex_dtype', ["chain-round-trip"],
  "site tensors of a reloaded operator / state cast to a real type")
# ------------------------------------------------------------------------------------------------ twin wave 7: the one-site decompositions reproduce the coefficient table (abstract runs on exact data)
_SYMD = "renormalizer/mps/symbolic_mpo.py"
M("C01", "graph-cover-sides-swapped", _SYMD, "        colbool, rowbool = bipartite_vertex_cover(bigraph, algo=algo)", "        rowbool, colbool = bipartite_vertex_cover(bigraph, algo=algo)", ["decomposition-exact"],
  "cover of the column-side graph read as (rows, columns)")
M("C01", "graph-row-factor-off-by-one", _SYMD, "        new_factor.append(factor[non_red[row_idx, col_link].toarray() - 1])", "        new_factor.append(factor[non_red[row_idx, col_link].toarray() - 2])", ["decomposition-exact"],
  "coefficient of the neighbouring term")
M("C01", "graph-complementary-factor-dropped", _SYMD, "            out_op = OpTuple(symbol, qn, factor=factor[non_red_one_col[i] - 1])", "            out_op = OpTuple(symbol, qn, factor=1.0)", ["decomposition-exact"],
  "complementary operators lose their coefficients")
M("C01", "graph-covered-rows-not-cleared", _SYMD, "        non_red.data[non_red.indptr[row_idx]:non_red.indptr[row_idx + 1]] = 0\n", "", ["decomposition-exact"],
  "entries covered by a row and a column are counted twice")
M("C01", "qr-permutation-not-inverted", _SYMD, "    r2 = r[:rank, np.argsort(p)]", "    r2 = r[:rank, p]", ["decomposition-exact"], "columns of R put back with the permutation instead of its inverse")
M("C01", "qr-q-threshold-relative-to-r", _SYMD, "    for i, j in zip(*np.where(np.abs(q[:, :rank]) > atol)):", "    for i, j in zip(*np.where(np.abs(q[:, :rank]) > np.abs(r[0][0]) * 0.05)):", ["decomposition-exact"],
  "entries of Q dropped by a threshold scaled with R")
M("C01", "qr-table-uses-pivoted-columns", _SYMD, "    new_table = np.concatenate([idx1.reshape(-1, 1), [term_col[i] for i in idx2]], axis=1)", "    new_table = np.concatenate([idx1.reshape(-1, 1), [term_col[p[i]] for i in idx2]], axis=1)", ["decomposition-exact"],
  "right operators permuted twice")
T("C01", "twin-qr-fancy-pair", _SYMD, "    new_factor = r2[(idx1, idx2)]", "    new_factor = r2[idx1, idx2]", "same element-wise selection")
T("C01", "twin-graph-mask-select", _SYMD, "        for i in nonzero_row_idx[np.nonzero(nonzero_col_idx == col_idx)[0]]:", "        for i in nonzero_row_idx[nonzero_col_idx == col_idx]:", "boolean mask instead of nonzero positions")
M("C02", "graph-prefers-rows-on-square", _SYMD, "    if non_red.shape[0] < non_red.shape[1]:", "    if non_red.shape[0] <= non_red.shape[1]:", ["terminal-cover"],
  "a 1 x 1 table is handed over from the row side: Koenig's construction then covers it by the row")
# ------------------------------------------------------------------------------------------------ twin wave 7: centre and charge bookkeeping of the chain products (abstract run)
_MPDMF, _MPOF = "renormalizer/mps/mpdm.py", "renormalizer/mps/mpo.py"
for _p in ("C03", "C06"):
    M(_p, f"mpdm-apply-real-labels-{_p}", _MPDMF, "        qn = mp.dummy_qn\n", "        qn = mp.qn\n", ["qn-align"],
      "MpDm.apply combines its labels with the operator's labels without bringing them to one centre and without adding the operator's charge")
    M(_p, f"mpo-apply-charge-twice-{_p}", _MPOF, "        new_mps.qntot += self.qntot\n", "        new_mps.qntot += self.qntot\n        new_mps.qntot += self.qntot\n", ["qn-charge"],
      "operator's total charge added twice")
    M(_p, f"mpo-apply-labels-before-move-{_p}", _MPOF, "        orig_idx = new_mps.qnidx\n        new_mps.move_qnidx(self.qnidx)\n        new_mps.qn = [", "        orig_idx = new_mps.qnidx\n        new_mps.qn = [", ["qn-align"],
      "labels combined before the operand is moved to the operator's centre", more=[{"file": _MPOF, "old": "        new_mps.qntot += self.qntot\n        new_mps.move_qnidx(orig_idx)", "new": "        new_mps.qntot += self.qntot\n        new_mps.move_qnidx(self.qnidx)\n        new_mps.move_qnidx(orig_idx)"}])
    T(_p, f"twin-mpdm-apply-inline-dummy-{_p}", _MPDMF, "        qn = mp.dummy_qn\n        new_mpdm.qn = [\n            add_outer(np.array(qn_o), np.array(qn_m)).reshape(-1, qn_o.shape[1])\n            for qn_o, qn_m in zip(self.qn, qn)",
      "        new_mpdm.qn = [\n            add_outer(np.array(qn_o), np.array(qn_m)).reshape(-1, qn_o.shape[1])\n            for qn_o, qn_m in zip(self.qn, mp.dummy_qn)", "temporary inlined")
M("C06", "canonicalise-switch-always", "renormalizer/mps/mp.py", "        if (not self.to_right and idx == 1) or (self.to_right and idx == self.site_num - 2):\n            self._switch_direction()", "        self._switch_direction()", ["sweep-centre"],
  "direction switched after partial sweeps too")
M("C02", "graph-cover-le", "renormalizer/mps/symbolic_mpo.py", "    if non_red.shape[0] < non_red.shape[1]:\n        for i in range(non_red.shape[0]):", "    if non_red.shape[0] <= non_red.shape[1]:\n        for i in range(non_red.shape[0]):", ["terminal-cover"],
  "square tables covered from the row side: a 1 x 1 root table keeps its coefficient in the discarded vector")

# ------------------------------------------------------------------------------------------------ wave 10
_BASF = "renormalizer/model/basis.py"
T("C16", "twin-sinedvr-identity-early-return-balanced", _BASF, "        if op_symbol == \"I\":\n            mat = np.eye(self.nbas)\n\n        elif op_symbol == \"x\":\n            # legacy for check",
  "        if op_symbol == \"I\":\n            self._recursion_flag -= 1\n            return np.eye(self.nbas) * op_factor\n\n        elif op_symbol == \"x\":\n            # legacy for check",
  "identity returned early after lowering the recursion counter")
M("C16", "sho-counter-early-return", _BASF, "        self._recursion_flag += 1\n\n        # prevent side effect of split(\" \")", "        self._recursion_flag += 1\n        if op_symbol == \"I\":\n            return np.eye(self.nbas) * op_factor\n\n        # prevent side effect of split(\" \")", ["counter-balance"],
  "BasisSHO.op_mat: identity shortcut leaves the counter raised")
_OPF2 = "renormalizer/model/op.py"
M("C15", "op-mul-drops-numpy-unwrap", _OPF2, "        if isinstance(other, np.generic):\n            other = other.item()\n        if isinstance(other, Op):", "        if isinstance(other, Op):", ["operand-order"],
  "Op.__mul__ no longer unwraps numpy scalars: TypeError for np.int64 * Op")
M("C15", "opsum-truediv-python-only", _OPF2, "        assert isinstance(other, (int, float, complex, np.generic))", "        assert isinstance(other, (int, float, complex))", ["operand-order"], "OpSum / numpy scalar rejected")
_CFGF = "renormalizer/utils/configs.py"
M("C05", "config-copy-shares-max-dims", _CFGF, "        if self.max_dims is not None:\n            new.max_dims = self.max_dims.copy()\n        return new", "        return new", ["config-copy"],
  "per-bond limit array shared between a state and its copies (set_bonddim of one rewrites the other's limits)")
_RKF = "renormalizer/utils/rk.py"
M("C19", "ti-table-off-by-one", _RKF, "            table[istage + 1, 2:] = a[istage, :].dot(table[1:, 1:])[:-1]", "            table[istage + 1, 2:] = a[istage, :].dot(table[1:, 1:])[1:]", ["ti-expansion"], "recursion of the expansion table shifted by one power")
T("C19", "twin-ti-no-1d-branch", _RKF, "        if b.ndim == 1:\n            # before RK4\n            coeff = np.zeros(Nstage + 1)\n            coeff[0] = 1.0\n            coeff[1:] = b.dot(table[1:, 1:])\n        else:\n            # after RK4\n            coeff = np.zeros((b.shape[0], Nstage + 1))\n            coeff[:, 0] = 1.0\n            coeff[:, 1:] = b.dot(table[1:, 1:])",
  "        coeff = np.zeros((b.shape[0], Nstage + 1))\n        coeff[:, 0] = 1.0\n        coeff[:, 1:] = b.dot(table[1:, 1:])", "dead one-dimensional branch removed")
_THF = "renormalizer/mps/thermalprop.py"
T("C10", "twin-thermal-exact-scale-shift", _THF, "        MPOprop = Mpo.exact_propagator(\n            self.h_mpo.model, evolve_dt.imag, space=self.space, shift=-self.energies[-1]\n        )",
  "        MPOprop = Mpo.exact_propagator(self.h_mpo.model, evolve_dt.imag, space=self.space).scale(np.exp(-self.energies[-1] * evolve_dt.imag))",
  "energy shift applied as a scalar factor of a propagator rebuilt at every call")
M("C10", "thermal-exact-first-energy", _THF, "self.h_mpo.model, evolve_dt.imag, space=self.space, shift=-self.energies[-1]", "self.h_mpo.model, evolve_dt.imag, space=self.space, shift=-self.energies[0]", ["thermal-"],
  "shift taken from the first instead of the latest energy")
_MPF = "renormalizer/mps/mp.py"
M("C13", "scale-in-place-buffer", _MPF, "        new_mp[self.qnidx] = new_mp[self.qnidx] * val\n        return new_mp", "        new_mp[self.qnidx].array *= val\n        return new_mp", ["buffer-immutable"],
  "gauge-centre tensor rescaled inside its buffer (shared with conj() of a real object)")

_FIX_EXPECT = {1: ("C03", ["qn-align"]), 2: ("C03", ["qn-charge"]), 3: ("C10", ["evolve"]), 4: ("C13", ["effect-bound", "TTNS.evolve"]), 5: ("C13", ["compressed_sum"]),
               6: ("C15", ["array-truth"]), 7: ("C16", ["sho-product"]), 8: ("C16", ["copy-forward"]), 9: ("C14", ["crash-points"]), 10: ("C09", ["krylov-hermitian"]),
               11: ("C08", ["heff-network"]), 12: ("C09", ["adaptive-reject"]), 13: ("C17", ["jw-vocabulary"]), 14: ("C10", ["midpoint-reentry"]), 15: ("C10", ["thermal-hamiltonian"]), 16: ("C09", ["entry-gauge"]), 17: ("C07", ["rdm-network"]), 18: ("C17", ["out-ops-shape"]), 19: ("C16", ["factor-applied"]), 20: ("C01", ["qr-shortcut-shape"])}
for _f in sorted(_os.listdir(_os.path.join(_V, "renostat", "selftest_patches"))):
    if _f.startswith("fix-"):
        _n = int(_f.split("-")[1])
        _pid, _exp = _FIX_EXPECT[_n]
        SPECS.append({"property": _pid, "kind": "mutant", "id": "revert-" + _f[:-5], "edits": [{"patch": "renostat/selftest_patches/" + _f, "reverse": True}], "expect": _exp,
                      "what": "the repaired defect comes back (fix commit reverted)"})
# the same two defects are also violations of C06 / C13
SPECS.append({"property": "C06", "kind": "mutant", "id": "revert-fix-01-C06", "edits": [{"patch": "renostat/selftest_patches/" + [f for f in sorted(_os.listdir(_os.path.join(_V, "renostat", "selftest_patches"))) if f.startswith("fix-01")][0], "reverse": True}],
              "expect": ["qn-align"], "what": "fix 1 reverted, seen from C06"})
SPECS.append({"property": "C13", "kind": "mutant", "id": "revert-fix-03-C13", "edits": [{"patch": "renostat/selftest_patches/" + [f for f in sorted(_os.listdir(_os.path.join(_V, "renostat", "selftest_patches"))) if f.startswith("fix-03")][0], "reverse": True}],
              "expect": ["evolve_exact"], "what": "fix 3 reverted, seen from C13"})

# ------------------------------------------------------------------------------------------------ every kept seeded change is a mutant of its own property's check
_SEED_RULE = {
    "C01-qr-drops-imaginary-factors": "factor-dtype", "C01-qr-shortcut-single-row": "qr-shortcut-shape", "C02-ttno-updown-labels-swapped": "label-schema",
    "C03-metacopy-shares-qntot": "label-freshness", "C04-check-right-canonical-skips-last": "check-mirror", "C05-compress-double-bond-offset": "bond-index",
    "C06-add-align-after-concat": "qn-align", "C07-freq-environ-off-by-one": "freq-env-bound", "C07-2site-rdm-conj-moved": "rdm-network", "C08-direct-2site-transposed": "heff-network",
    "C09-rk-stage-time-parenthesis": "adaptive-reject", "C09-adaptive-error-drops-prefactor": "relative-error-homogeneous", "C10-term10-loses-displacement-sign": "holstein-square",
    "C11-ttno-apply-label-order": "state-network", "C12-update2site-parent-index": "decomposition-axes", "C13-load-coeff-ndarray": "scalar-prefactor",
    "C13-variational-compress-mutates-mpo": "effect-bound", "C14-bak-removed-before-write": "crash-points", "C15-simplify-filters-before-merge": "filter-after-merge",
    "C16-holstein-linear-coupling-omega": "holstein-square", "C16-multielectron-branches-merged": "multi-electron", "C17-stacked-drops-2e-orbitals": "qc-term-coverage",
    "C17-jw-sign-parity-or": "jw-sign-parity", "C19-cash-karp-nodes-swapped": "row-sum",
    "C04-svd-qn-skips-tiny-blocks": "svd-blocks", "C05-compress-ret-s-normalises-in-place": "bond-index", "C06-apply-moves-centre-to-last-site": "qn-align",
    "C08-tree-arpack-smallest-magnitude": "eigen-selection", "C10-cmf-midpoint-full-imaginary-step": "midpoint-reentry", "C14-periodic-dump-only-on-info-steps": "periodic-dump",
    "C16-ti1d-drops-coinciding-images": "model-terms", "C17-int-to-h-drops-spin-delta": "spin-orbital-integrals",
    "C01-dedup-threshold-before-merge": "split-order", "C02-composer-factor-per-basis-set": "layout", "C03-canonicalise-always-switches-direction": "sweep-centre",
    "C07-edof-rdm-transposed": "observable-cache", "C09-taylor-adaptive-scales-in-place": "adaptive-reject", "C11-moveaxis-sibling-label-order": "decomposition-axes",
    "C12-get-qnmat-parent-label-order": "decomposition-axes", "C13-add-leaves-other-prefactor": "effect-bound",
    "C01-offset-unit-ignored": "offset-sign", "C03-add-folds-relative-prefactor": "prefactor", "C06-hartree-guard-wrong-axis": "sector-constructor",
    "C08-eigh-qn-skips-negative-partner": "eigh-blocks", "C12-0site-skipped-for-1x1-bond": "local-step", "C14-ttns-load-drops-coeff-with-user-attrs": "tree-round-trip",
    "C15-squeeze-identity-drops-factor": "factor-algebra", "C19-fehlberg5-last-row-swapped": "order-condition",
    "C02-row-dedup-integer-key-collision": "tree-builder-exact", "C04-canonicalise-partial-sweep-switches-direction": "sweep-centre", "C07-entropy-unnormalised-spectrum": "observable-cache",
    "C09-ps2-left-sweep-uses-left-bond-limit": "bond-limit", "C10-ps-ode-backward-sign-imag-time": "solver-sibling", "C11-2site-rdm-path-bra-not-conjugated": "state-network",
    "C13-ttns-to-complex-shares-buffers": "copy-complete", "C16-reorganisation-energy-ground-frequency": "holstein-square", "C17-one-term-bond-operator-loses-coefficient": "out-ops-shape",
    "C05-compress-recursion-drops-temporary-limit": "compress-sweep",
    "C01-small-factor-terms-dropped": "term-validation", "C03-distance-clamps-small-distances": "prefactor", "C06-mpdm-apply-uses-operator-labels": "qn-",
    "C08-direct-solver-transpose-symmetrisation": "eigen-selection", "C12-vmf-root-projected": "pack-unpack", "C14-mpdm-load-returns-mps": "chain-round-trip",
    "C15-opsum-add-empty-returns-self": "operand-order", "C19-rkf45-weights-interleaved": "order-condition",
    "C02-todense-order-rows-only": "state-network", "C04-update-ms-drops-sigma-for-left-mpo": "absorb-direction", "C05-svd-qn-two-sort-orders": "svd-sort",
    "C07-entropy-dm-transpose-symmetrised": "observable-cache", "C09-fehlberg5-digit-typo": "tableau-order", "C10-exact-propagator-gs-excited-frequency": "exact-propagator",
    "C11-ttns-add-left-dtype": "direct-sum", "C13-vmf-imag-time-in-place": "effect-bound", "C16-sinedvr-endpoint-grid-shift": "sinedvr-grid", "C17-jw-swap-real-factor-array": "factor-dtype",
    "C01-one-term-builder-drops-swap-coefficient": "builder-exact", "C03-conj-returns-self-for-real": "adjoint", "C06-random-last-site-component-sum": "sector-constructor",
    "C08-iterative-matvec-without-inverse": "inverse-sibling", "C12-regularized-inversion-no-conjugate": "pack-unpack", "C14-dump-real-part-of-real-valued-tensors": "chain-round-trip",
}
_sd = _os.path.join(_V, "seeded")
for _name in sorted(_os.listdir(_sd)):
    if _os.path.isfile(_os.path.join(_sd, _name, "patch.diff")):
        _meta = _json.load(open(_os.path.join(_sd, _name, "meta.json")))
        SPECS.append({"property": _meta["property"], "kind": "mutant", "id": "seed-" + _name, "edits": [{"patch": "seeded/" + _name + "/patch.diff"}],
                      "expect": [_SEED_RULE[_name]] if _name in _SEED_RULE else [], "what": "seeded change: " + _meta.get("summary", "")[:80]})

# ------------------------------------------------------------------------------------------------ C01 layout (abstract run of the builder)
M("C01", "mpo-axes", SYMMPO, "axes = axes[:-3] + axes[-2:] + [axes[-3]]", "axes = axes[:-3] + [axes[-1], axes[-2]] + [axes[-3]]", ["layout"], "row and column axes exchanged: every site operator transposed")
M("C01", "mpo-compose-index", SYMMPO, "            in_idx = composed_op.symbol[0]\n            op = primary_ops[composed_op.symbol[1]]", "            in_idx = composed_op.symbol[1]\n            op = primary_ops[composed_op.symbol[0]]",
  ["layout"], "incoming index and primary operator index exchanged")
T("C01", "twin-mpo-moveaxis", SYMMPO, "    axes = list(range(mo.ndim + 2))\n    axes = axes[:-3] + axes[-2:] + [axes[-3]]\n    return mo_mat.transpose(axes)", "    return np.moveaxis(mo_mat, mo.ndim - 1, -1)",
  "the permutation written as one moveaxis")
T("C01", "twin-mpo-local", SYMMPO, "            mo_mat[i] += basis.op_mat(term)", "            local = basis.op_mat(term)\n            mo_mat[i] += local", "local matrix bound to a name first")
T("C02", "twin-opmat-local", "renormalizer/tn/symbolic_ttno.py", "                mo_elem = np.tensordot(mo_elem, b.op_mat(symbol)[None, :, :, None], axes=1)",
  "                local = b.op_mat(symbol)\n                mo_elem = np.tensordot(mo_elem, local[None, :, :, None], axes=1)", "local matrix bound to a name first")
T("C02", "twin-opmat-cache-by-object", "renormalizer/tn/symbolic_ttno.py", "                mo_elem = np.tensordot(mo_elem, b.op_mat(symbol)[None, :, :, None], axes=1)",
  "                if (b, symbol) not in _CACHE:\n                    _CACHE[(b, symbol)] = b.op_mat(symbol)\n                mo_elem = np.tensordot(mo_elem, _CACHE[(b, symbol)][None, :, :, None], axes=1)",
  "a module-level cache keyed by the basis object itself is sound", more=[{"file": "renormalizer/tn/symbolic_ttno.py", "old": "logger = logging.getLogger(__name__)\n", "new": "logger = logging.getLogger(__name__)\n_CACHE = {}\n"}])

# ------------------------------------------------------------------------------------------------ C16 unit table / model builders, C08 entry gauge, C05 dispatch, C15 operand order
QUANT = "renormalizer/utils/quantity.py"
MODEL = "renormalizer/model/model.py"
M("C16", "unit-fs-inverse", QUANT, '"fs": constant.au2fs,', '"fs": constant.fs2au,', ["unit-table"], "femtosecond factor inverted")
M("C16", "unit-mev-power", QUANT, '"meV": constant.au2ev * 1e3,', '"meV": constant.au2ev * 1e-3,', ["unit-table"], "milli prefix applied the wrong way")
M("C16", "ti1d-no-wrap", MODEL, "new_cell_id = (i + old_dof[0]) % ncell", "new_cell_id = min(i + old_dof[0], ncell - 1)", ["model-terms"], "no periodic wrap of non-local terms")
M("C16", "jmat-one-corner", MODEL, "j_matrix[-1, 0] = j_matrix[0, -1] = j_constant_au", "j_matrix[-1, 0] = j_constant_au", ["model-terms"], "periodic coupling set on one corner only (non-Hermitian)")
T("C16", "twin-unit-reciprocal", QUANT, '"fs": constant.au2fs,', '"fs": 1 / constant.fs2au,', "the same factor through the reciprocal constant")
T("C16", "twin-ti1d-wrap", MODEL, "new_cell_id = (i + old_dof[0]) % ncell", "new_cell_id = (old_dof[0] + i) % ncell", "operands of the sum exchanged")
M("C08", "gs-no-canonicalise", GS, "    else:\n        mps.ensure_left_canonical()\n        env = \"L\"", "    else:\n        env = \"L\"", ["entry-gauge"], "no orthonormalisation on the default path")
M("C08", "gs-env-side", GS, "        mps.ensure_right_canonical()\n        env = \"R\"", "        mps.ensure_right_canonical()\n        env = \"L\"", ["entry-gauge"], "environments of the wrong side for the gauge")
M("C05", "both-max", CONFIGS, "            trunc = min(\n                self._threshold_m_trunc(sigma), self._fixed_m_trunc(sigma, idx, left)\n            )",
  "            trunc = max(\n                self._threshold_m_trunc(sigma), self._fixed_m_trunc(sigma, idx, left)\n            )", ["trunc-bound"], "`both` takes the larger count")
T("C05", "twin-both-nested-min", CONFIGS, "            trunc = min(\n                self._threshold_m_trunc(sigma), self._fixed_m_trunc(sigma, idx, left)\n            )",
  "            trunc = self._threshold_m_trunc(sigma)\n            trunc = min(trunc, self._fixed_m_trunc(sigma, idx, left), len(sigma))", "the same minimum built in two steps")
M("C15", "opsum-mul-reversed", OP, "            for op1 in self:\n                res.extend(op1 * other)", "            for op1 in self:\n                res.extend(other * op1)", ["operand-order"], "OpSum * list multiplies from the wrong side")
T("C15", "twin-rmul-explicit", OP, "            return OpSum(other) * self\n        else:\n            raise TypeError(f\"Unknwon type {type(other)}\")", "            return OpSum([item * self for item in other])\n        else:\n            raise TypeError(f\"Unknwon type {type(other)}\")",
  "list * Op written as an explicit comprehension")

HQC = "renormalizer/model/h_qc.py"
M("C17", "jw-permute-count", HQC, "n_permute += n_non_sigma_z", "n_permute += 1", ["jw-simplify"], "every sigma_z counted once instead of once per ladder operator it passes")
M("C17", "jw-qn-odd-orbital", HQC, 'qn_dict1 = {"+": [0, -1], "-": [0, 1], "Z": [0, 0]}', 'qn_dict1 = {"+": [0, 1], "-": [0, -1], "Z": [0, 0]}', ["jw-simplify"], "charges of beta-orbital ladder operators inverted")
M("C17", "jw-string-short", HQC, 'sigma_z_list = [Op("Z", l) for l in range(j)]', 'sigma_z_list = [Op("Z", l) for l in range(j - 1)]', ["jw-simplify"], "Jordan-Wigner string misses the neighbouring orbital")
T("C17", "twin-jw-count-form", HQC, "        n_sigma_z = elem_op.split_symbol.count(\"Z\")", "        n_sigma_z = len([s for s in elem_op.split_symbol if s == \"Z\"])", "count written as a comprehension")

# ------------------------------------------------------------------------------------------------ behaviour-preserving refactorings written by independent agents (twins/<tag>/patch.diff):
# every claimed check must stay silent on each of them
_tw = _os.path.join(_V, "twins")
if _os.path.isdir(_tw):
    import json as _json
    _claimed = [c["property_id"] for c in _json.load(open(_os.path.join(_V, "MANIFEST.json")))["checks"]]
    for _t in sorted(_os.listdir(_tw)):
        if _os.path.isfile(_os.path.join(_tw, _t, "patch.diff")):
            for _p in _claimed:
                SPECS.append({"property": _p, "kind": "twin", "id": f"refactor-{_t}-{_p}", "edits": [{"patch": f"twins/{_t}/patch.diff"}], "what": f"agent-written behaviour-preserving refactoring {_t}"})
