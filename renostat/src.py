"""SRC - source model of /repo/renormalizer: parse trees, class/function tables, MRO, imports."""
import ast
import hashlib
import os
import warnings


class AnalysisError(Exception):
    """An anchor vanished, an instance floor was missed, or a construct is outside the forms an
    engine understands.  Mapped to exit status 2 (never a silent pass, never a VIOLATION)."""


def unparse(node):
    return ast.unparse(node) if node is not None else ""


def norm_stmt(node, limit=160):
    """Normalised one-line statement text: used in finding keys instead of line numbers."""
    txt = " ".join(ast.unparse(node).split())
    return txt[:limit]


class FuncInfo:
    __slots__ = ("rel", "qual", "node", "cls", "parent")

    def __init__(self, rel, qual, node, cls, parent):
        self.rel, self.qual, self.node, self.cls, self.parent = rel, qual, node, cls, parent

    @property
    def name(self):
        return self.node.name

    @property
    def where(self):
        return f"{self.rel}::{self.qual}"

    def params(self):
        a = self.node.args
        return [x.arg for x in a.posonlyargs + a.args]

    def __repr__(self):
        return f"<Func {self.where}>"


class ClassInfo:
    __slots__ = ("rel", "name", "node", "bases", "methods")

    def __init__(self, rel, name, node):
        self.rel, self.name, self.node = rel, name, node
        self.bases = [unparse(b) for b in node.bases]
        self.methods = {}

    def __repr__(self):
        return f"<Class {self.rel}::{self.name}>"


class Src:
    EXCLUDE_DIRS = ("tests",)
    EXCLUDE_FILES = ("c2h4_para.py",)

    INLINE_TEMPS = False    # (experimental, off: it also rewrites the reference shapes the older rules are anchored on) single-use temporaries read by the next statement are substituted (normal form robust to `tmp = a.f(); x = tmp.g()` splitting)

    def __init__(self, repo="/repo", package="renormalizer"):
        self.repo = os.path.abspath(repo)
        self.pkg = package
        self.modules = {}   # rel -> ast.Module
        self.text = {}      # rel -> str
        self.classes = {}   # (rel, name) -> ClassInfo
        self.class_by_name = {}  # name -> [ClassInfo]
        self.funcs = {}     # (rel, qual) -> FuncInfo
        self.imports = {}   # rel -> {local name: (module rel or dotted, attr or None)}
        self.nf_substituted = []  # functions equal to the reference function up to the respellings of normalform.py: the reference function is analysed in their place
        self.alpha_renamed = []   # functions whose locals were renamed back to the reference names (pure local renamings undone)
        try:
            from . import alpha
            self._alpha_db = alpha.load_db()
        except Exception:
            self._alpha_db = {}
        self._load()

    def init_defaults(self, rel, cname):
        """attributes that the __init__ chain of a class sets to a literal (None, numbers, strings, empty containers): {name: value}; used to give symbolic
        stand-ins of job objects the attributes a method may read or cache into"""
        out = {}
        ci = self.cls(rel, cname)
        for c in reversed(self.mro(ci)) if hasattr(self, "mro") else [ci]:
            init = c.methods.get("__init__")
            if init is None:
                continue
            for st in ast.walk(init.node):
                if isinstance(st, ast.Assign) and len(st.targets) == 1 and isinstance(st.targets[0], ast.Attribute) and isinstance(st.targets[0].value, ast.Name) and st.targets[0].value.id == "self":
                    try:
                        out[st.targets[0].attr] = ast.literal_eval(st.value)
                    except (ValueError, SyntaxError, TypeError):
                        pass
        return out

    # ------------------------------------------------------------------ loading
    def _load(self):
        root = os.path.join(self.repo, self.pkg)
        if not os.path.isdir(root):
            raise AnalysisError(f"package directory {root} not found")
        parsed = []
        for dp, dn, fn in os.walk(root):
            dn[:] = sorted(d for d in dn if d not in self.EXCLUDE_DIRS and d != "__pycache__")
            for f in sorted(fn):
                if not f.endswith(".py") or f in self.EXCLUDE_FILES:
                    continue
                p = os.path.join(dp, f)
                rel = os.path.relpath(p, self.repo)
                try:
                    txt = open(p, encoding="utf-8").read()
                    with warnings.catch_warnings():
                        warnings.simplefilter("ignore")
                        mod = ast.parse(txt, filename=p)
                except (SyntaxError, UnicodeDecodeError) as e:
                    raise AnalysisError(f"cannot parse {rel}: {e}")
                parsed.append((rel, mod, txt))
        sigs = None
        if self._alpha_db:
            from . import alpha, normalform
            sigs = normalform.collect_signatures({rel: mod for rel, mod, _ in parsed})
        for rel, mod, txt in parsed:
            if self._alpha_db:
                normalform.substitute_reference(rel, mod, self._alpha_db, self.nf_substituted, sigs)
                alpha.normalise_module(rel, mod, self._alpha_db, self.alpha_renamed)
            if self.INLINE_TEMPS:
                for fn_ in [n for n in ast.walk(mod) if isinstance(n, (ast.FunctionDef, ast.AsyncFunctionDef))]:
                    try:
                        fn_.body = inline_adjacent_temps(fn_).body
                    except RecursionError:
                        pass
            self.modules[rel] = mod
            self.text[rel] = txt
            self._index(rel, mod)

    def _index(self, rel, mod):
        imps = {}
        for n in ast.walk(mod):
            if isinstance(n, ast.ImportFrom):
                for a in n.names:
                    imps[a.asname or a.name] = (n.module or "", a.name)
            elif isinstance(n, ast.Import):
                for a in n.names:
                    imps[a.asname or a.name.split(".")[0]] = (a.name, None)
        self.imports[rel] = imps

        def walk(body, prefix, cls, parent):
            for n in body:
                if isinstance(n, (ast.FunctionDef, ast.AsyncFunctionDef)):
                    qual = f"{prefix}{n.name}"
                    fi = FuncInfo(rel, qual, n, cls, parent)
                    self.funcs.setdefault((rel, qual), fi)
                    if cls is not None and parent is None:
                        cls.methods.setdefault(n.name, fi)
                    walk_inner(n, qual + ".", cls, fi)
                elif isinstance(n, ast.ClassDef):
                    ci = ClassInfo(rel, n.name, n)
                    self.classes[(rel, n.name)] = ci
                    self.class_by_name.setdefault(n.name, []).append(ci)
                    walk(n.body, f"{prefix}{n.name}.", ci, None)
                elif isinstance(n, (ast.If, ast.Try, ast.With)):
                    for sub in _sub_bodies(n):
                        walk(sub, prefix, cls, parent)

        def walk_inner(fn, prefix, cls, parent):
            # nested function definitions anywhere inside fn (not crossing into nested defs twice)
            for n in _iter_nested_defs(fn):
                qual = f"{prefix}{n.name}"
                fi = FuncInfo(rel, qual, n, cls, parent)
                self.funcs.setdefault((rel, qual), fi)
                walk_inner(n, qual + ".", cls, fi)

        walk(mod.body, "", None, None)

    # ------------------------------------------------------------------ lookup
    def module(self, rel):
        if rel not in self.modules:
            raise AnalysisError(f"anchor module {rel} not found")
        return self.modules[rel]

    def has_module(self, rel):
        return rel in self.modules

    def cls(self, rel, name):
        ci = self.classes.get((rel, name))
        if ci is None:
            raise AnalysisError(f"anchor class {rel}::{name} not found")
        return ci

    def func(self, rel, qual):
        fi = self.funcs.get((rel, qual))
        if fi is None:
            raise AnalysisError(f"anchor function {rel}::{qual} not found")
        return fi

    def find_func(self, rel, qual):
        return self.funcs.get((rel, qual))

    def funcs_in(self, rel):
        return [f for (r, q), f in self.funcs.items() if r == rel]

    def resolve_class_name(self, rel, name):
        """Resolve a (possibly imported) class name used in module rel to a ClassInfo."""
        name = name.split(".")[-1]
        if (rel, name) in self.classes:
            return self.classes[(rel, name)]
        imp = self.imports.get(rel, {}).get(name)
        cands = self.class_by_name.get(imp[1] if imp and imp[1] else name, [])
        if imp and imp[0]:
            modrel = imp[0].replace(".", "/") + ".py"
            for c in cands:
                if c.rel == modrel:
                    return c
            # re-export through a package __init__
            for c in cands:
                if c.rel.startswith(imp[0].replace(".", "/")):
                    return c
        if len(cands) == 1:
            return cands[0]
        return None

    def mro(self, ci):
        """C3 linearisation over the analysed classes (unknown bases are dropped)."""
        def bases_of(c):
            out = []
            for b in c.bases:
                r = self.resolve_class_name(c.rel, b)
                if r is not None:
                    out.append(r)
            return out

        def merge(seqs):
            res = []
            seqs = [list(s) for s in seqs if s]
            while seqs:
                for s in seqs:
                    head = s[0]
                    if not any(head in t[1:] for t in seqs):
                        break
                else:
                    raise AnalysisError(f"inconsistent MRO for {ci}")
                res.append(head)
                seqs = [[x for x in s if x is not head] for s in seqs]
                seqs = [s for s in seqs if s]
            return res

        def lin(c):
            bs = bases_of(c)
            return [c] + merge([lin(b) for b in bs] + [bs])

        return lin(ci)

    def method(self, ci, name):
        """Method `name` as seen from class ci through its MRO."""
        for c in self.mro(ci):
            if name in c.methods:
                return c.methods[name]
        return None

    def subclasses(self, ci):
        out = []
        for c in self.classes.values():
            if c is not ci and ci in self.mro(c):
                out.append(c)
        return out

    def digest(self, rels=None):
        h = hashlib.sha256()
        for rel in sorted(rels or self.text):
            h.update(rel.encode())
            h.update(self.text.get(rel, "").encode())
        return h.hexdigest()[:16]

    def stats(self):
        return {"units": len(self.modules), "classes": len(self.classes), "functions": len(self.funcs)}


def _sub_bodies(n):
    if isinstance(n, ast.If):
        return [n.body, n.orelse]
    if isinstance(n, ast.Try):
        return [n.body, n.orelse, n.finalbody] + [h.body for h in n.handlers]
    if isinstance(n, ast.With):
        return [n.body]
    return []


def _iter_nested_defs(fn):
    """FunctionDef nodes nested directly inside fn (at any statement depth, not inside other defs)."""
    out = []

    def rec(node):
        for ch in ast.iter_child_nodes(node):
            if isinstance(ch, (ast.FunctionDef, ast.AsyncFunctionDef)):
                out.append(ch)
            elif isinstance(ch, (ast.ClassDef, ast.Lambda)):
                continue
            else:
                rec(ch)

    rec(fn)
    return out


def walk_no_nested(node):
    """ast.walk that does not descend into nested function/class definitions (lambdas are entered)."""
    stack = [node]
    first = True
    while stack:
        n = stack.pop()
        if not first and isinstance(n, (ast.FunctionDef, ast.AsyncFunctionDef, ast.ClassDef)):
            continue
        first = False
        yield n
        stack.extend(reversed(list(ast.iter_child_nodes(n))))


def calls_in(node, nested=True):
    it = ast.walk(node) if nested else walk_no_nested(node)
    return [n for n in it if isinstance(n, ast.Call)]


def call_name(call):
    """Trailing name of the callee: f(...) -> 'f', a.b.c(...) -> 'c'."""
    f = call.func
    if isinstance(f, ast.Name):
        return f.id
    if isinstance(f, ast.Attribute):
        return f.attr
    return None


def base_name(expr):
    """Root Name of an attribute/subscript/call chain, or None."""
    e = expr
    while True:
        if isinstance(e, (ast.Attribute, ast.Subscript, ast.Starred)):
            e = e.value
        elif isinstance(e, ast.Call):
            e = e.func
        else:
            break
    return e.id if isinstance(e, ast.Name) else None


def kwarg(call, name, pos=None):
    for k in call.keywords:
        if k.arg == name:
            return k.value
    if pos is not None and len(call.args) > pos and not any(isinstance(a, ast.Starred) for a in call.args[:pos + 1]):
        return call.args[pos]
    return None


# ---------------------------------------------------------------------------------------------- helpers that make rules independent of local variable names
def local_names(fn):
    """names assigned in fn (not in nested functions) that are neither parameters nor declared global/nonlocal"""
    a = fn.args
    params = {x.arg for x in a.posonlyargs + a.args + a.kwonlyargs} | ({a.vararg.arg} if a.vararg else set()) | ({a.kwarg.arg} if a.kwarg else set())
    out, banned = set(), set(params)
    for n in walk_no_nested(fn):
        if isinstance(n, ast.Name) and isinstance(n.ctx, (ast.Store, ast.Del)):
            out.add(n.id)
        elif isinstance(n, (ast.Global, ast.Nonlocal)):
            banned.update(n.names)
    return out - banned


def alpha_text(fn, node, maxlen=None):
    """source text of node with the local variables of fn replaced by _1, _2, ... in order of first occurrence: a finding key that survives renaming of locals"""
    loc = local_names(fn)
    order = {}

    class R(ast.NodeTransformer):
        def visit_Name(self, n):
            if n.id in loc:
                order.setdefault(n.id, f"_{len(order) + 1}")
                return ast.copy_location(ast.Name(id=order[n.id], ctx=n.ctx), n)
            return n
    import copy
    t = unparse(R().visit(copy.deepcopy(node)))
    t = " ".join(t.split())
    return t if maxlen is None or len(t) <= maxlen else t[:maxlen - 3] + "..."


def returned_names(fn):
    """local names that fn returns (`return x`, `return x, y`)"""
    out = set()
    for n in walk_no_nested(fn):
        if isinstance(n, ast.Return) and n.value is not None:
            vals = n.value.elts if isinstance(n.value, ast.Tuple) else [n.value]
            out.update(v.id for v in vals if isinstance(v, ast.Name))
    return out


def defs_of(fn, name):
    """values assigned to the plain local `name` in fn"""
    return [n.value for n in walk_no_nested(fn) if isinstance(n, ast.Assign) and any(isinstance(t, ast.Name) and t.id == name for t in n.targets)]


def inline_adjacent_temps(fn):
    """deep copy of function node fn in which a local that is assigned once (plain name, no augmented assignment), read exactly once, and read in the statement
    that immediately follows its definition, is substituted into that statement.  Undoes `tmp = a.f(); x = tmp.g()` style splitting before a rule looks at call chains."""
    import copy
    fn = copy.deepcopy(fn)
    stores, loads = {}, {}
    for n in ast.walk(fn):
        if isinstance(n, ast.Name):
            (stores if isinstance(n.ctx, (ast.Store, ast.Del)) else loads).setdefault(n.id, []).append(n)
    cand = {k for k in stores if len(stores[k]) == 1 and len(loads.get(k, [])) == 1}

    def rewrite(body):
        out = []
        i = 0
        while i < len(body):
            st = body[i]
            for fld in ("body", "orelse", "finalbody"):
                sub = getattr(st, fld, None)
                if isinstance(sub, list) and sub and isinstance(sub[0], ast.stmt) and not isinstance(st, (ast.FunctionDef, ast.ClassDef)):
                    setattr(st, fld, rewrite(sub))
            if isinstance(st, ast.Assign) and len(st.targets) == 1 and isinstance(st.targets[0], ast.Name) and st.targets[0].id in cand and i + 1 < len(body):
                name = st.targets[0].id
                nxt = body[i + 1]
                # the single read must be in the next statement itself (not inside a nested block of it)
                header = [x for x in ast.walk(nxt) if isinstance(x, ast.Name) and x.id == name and isinstance(x.ctx, ast.Load)]
                nested = [x for fld in ("body", "orelse", "finalbody") for s_ in (getattr(nxt, fld, None) or []) if isinstance(s_, ast.stmt) for x in ast.walk(s_)
                          if isinstance(x, ast.Name) and x.id == name]
                if len(header) == 1 and not nested:
                    class Sub(ast.NodeTransformer):
                        def visit_Name(self, n):
                            return copy.deepcopy(st.value) if n.id == name and isinstance(n.ctx, ast.Load) else n
                    body[i + 1] = Sub().visit(nxt)
                    ast.fix_missing_locations(body[i + 1])
                    i += 1
                    continue
            out.append(st)
            i += 1
        return out
    changed = True
    rounds = 0
    while changed and rounds < 5:
        before = ast.dump(fn)
        fn.body = rewrite(fn.body)
        # recompute candidates after a round
        stores, loads = {}, {}
        for n in ast.walk(fn):
            if isinstance(n, ast.Name):
                (stores if isinstance(n.ctx, (ast.Store, ast.Del)) else loads).setdefault(n.id, []).append(n)
        cand = {k for k in stores if len(stores[k]) == 1 and len(loads.get(k, [])) == 1}
        changed = ast.dump(fn) != before
        rounds += 1
    return fn
