"""A small abstract interpreter for straight-line / simply-branching Python functions over *symbolic placeholder objects*.

It is used to evaluate label-producing functions of the tree code (which build opt_einsum index lists from tuples at run time)
into label terms over ID(obj), DOFS(node), 'up'/'down'.  Source functions are interpreted from their ast; nothing of /repo is
imported or executed.  Unknown constructs raise AnalysisError."""
import ast

from .src import AnalysisError, unparse


from fractions import Fraction as _Fraction


import itertools as _itertools
import functools as _functools
import operator as _operator
import math as _math
import collections as _collections

_PURE_MODULES = {"itertools": _itertools, "functools": _functools, "operator": _operator, "math": _math, "collections": _collections}


class Q(_Fraction):
    """exact number of the `exact` mode: a Fraction that can be used as an index when it is an integer"""
    def __index__(self):
        if self.denominator != 1:
            raise TypeError(f"{self} used as an index")
        return self.numerator

    def __repr__(self):
        return str(_Fraction(self))


class Sym:
    """symbolic object with named attributes; unknown attributes are an error"""
    def __init__(self, name, **attrs):
        self._name = name
        self.__dict__.update(attrs)

    def __repr__(self):
        return self._name


class Blob:
    """value whose content is irrelevant to the analysis: every attribute, item and call result is again a Blob"""
    def __init__(self, name="blob"):
        self._name = name

    def __repr__(self):
        return self._name

    def __iter__(self):
        raise AnalysisError(f"iteration over the opaque value {self._name}")


class OpenSym(Sym):
    """namespace stub (numpy-like): known members are given as attributes, any other member is a function that returns a named symbolic application,
    so that an unexpected call shows up in the compared result instead of stopping the analysis"""
    def __init__(self, name, make=None, **attrs):
        super().__init__(name, **attrs)
        self._make = make or (lambda text: Sym(text))

    def symattr(self, attr):
        return lambda *a, **k: self._make(f"{attr}(" + ", ".join([repr(x) for x in a] + [f"{n}={v!r}" for n, v in k.items()]) + ")")


class SymDict:
    """mapping from symbolic nodes to values computed by a function"""
    def __init__(self, fn):
        self.fn = fn

    def __getitem__(self, k):
        return self.fn(k)


class Scope(dict):
    """local scope of a nested function: reads fall back to the defining scope, `nonlocal` names are written there"""
    def __init__(self, parent, nonlocals=()):
        super().__init__()
        self.parent, self.nonlocals = parent, set(nonlocals)

    def __contains__(self, k):
        return dict.__contains__(self, k) or k in self.parent

    def __getitem__(self, k):
        if dict.__contains__(self, k):
            return dict.__getitem__(self, k)
        return self.parent[k]

    def __setitem__(self, k, v):
        if k in self.nonlocals:
            self.parent[k] = v
        else:
            dict.__setitem__(self, k, v)


class _Fallback:
    """module scope behind the analysis' own builtins: an explicit builtin of the rule wins over a module-level definition"""
    def __init__(self, module, builtins, interp=None):
        self.module, self.builtins, self.interp = module, builtins, interp

    def __contains__(self, k):
        return k not in self.builtins and (k in self.module or k in self.module.get("__lazy__", {}))

    def __getitem__(self, k):
        if k not in self.module and k in self.module.get("__lazy__", {}):
            node = self.module["__lazy__"].pop(k)
            self.module[k] = self.interp.ev(node, Scope(self, ()))
        return self.module[k]

    def __setitem__(self, k, v):
        self.module[k] = v


class Return(Exception):
    def __init__(self, value):
        self.value = value


class SymInterp:
    def __init__(self, src, resolver=None, builtins=None, max_depth=6):
        self.src = src
        self.resolver = resolver or (lambda recv, name: None)
        self.builtins = builtins or {}
        self.max_depth = max_depth
        self.depth = 0
        self.module_scopes = {}   # rel -> dict of module-level names (persist across calls: module lifetime)

    def module_scope(self, rel):
        """module-level names visible to the functions of module rel: simple literal assignments (evaluated once, so that a module-level
        container keeps its content between calls, as in the real process) and the module's own top-level functions"""
        if rel in self.module_scopes:
            return self.module_scopes[rel]
        sc = {}
        self.module_scopes[rel] = sc
        mod = self.src.modules.get(rel)
        if mod is None:
            return sc
        for st in mod.body:
            if isinstance(st, ast.Assign) and len(st.targets) == 1 and isinstance(st.targets[0], ast.Name):
                v = st.value
                if isinstance(v, (ast.Dict, ast.List, ast.Set)) and not getattr(v, "keys", None) and not getattr(v, "elts", None):
                    sc[st.targets[0].id] = {} if isinstance(v, ast.Dict) else ([] if isinstance(v, ast.List) else set())
                elif isinstance(v, ast.Constant):
                    sc[st.targets[0].id] = v.value
                else:
                    # other module-level values: literals are evaluated now, anything else on first use (with the builtins of the run, e.g. the numpy stand-in)
                    try:
                        sc[st.targets[0].id] = ast.literal_eval(v)
                    except (ValueError, SyntaxError, TypeError):
                        sc.setdefault("__lazy__", {})[st.targets[0].id] = v
            elif isinstance(st, ast.FunctionDef):
                fi = self.src.funcs.get((rel, st.name))
                if fi is not None:
                    sc[st.name] = (lambda fi: (lambda *a, **k: self.call_function(fi, list(a), k)))(fi)
            elif isinstance(st, ast.ImportFrom) and self._repo_module(rel, st) is not None:
                # top-level functions imported from another module of the repository are that module's source functions (a stand-in of the run of the same name wins)
                other = self._repo_module(rel, st)
                for al in st.names:
                    fi = self.src.funcs.get((other, al.name))
                    if fi is not None and fi.parent is None and fi.cls is None:
                        sc.setdefault(al.asname or al.name, (lambda fi: (lambda *a, **k: self.call_function(fi, list(a), k)))(fi))
            elif isinstance(st, ast.ImportFrom) and st.module in _PURE_MODULES and st.level == 0:
                # names imported from a pure standard-library module are themselves (defaultdict, OrderedDict, product, reduce, ...)
                for al in st.names:
                    if hasattr(_PURE_MODULES[st.module], al.name):
                        sc.setdefault(al.asname or al.name, getattr(_PURE_MODULES[st.module], al.name))
        return sc

    def _repo_module(self, rel, st):
        """path of the repository module an `from X import ...` statement of module rel names, or None"""
        if st.level == 0:
            parts = (st.module or "").split(".")
        else:
            base = rel.split("/")[:-1]
            base = base[:len(base) - (st.level - 1)] if st.level > 1 else base
            parts = base + ((st.module or "").split(".") if st.module else [])
        for cand in ("/".join(parts) + ".py", "/".join(parts) + "/__init__.py"):
            if cand in self.src.modules:
                return cand
        return None

    def _getattr(self, obj, name, *default):
        """getattr on a stand-in: its own attributes first, then the methods its source class defines (bound to the stand-in)"""
        try:
            return getattr(obj, name)
        except AttributeError:
            target = self.resolver(obj, name) if isinstance(obj, Sym) or getattr(obj, "_cls", None) else None
            if target is not None:
                return lambda *a, **k: self.call_function(target, [obj] + list(a), k)
            if default:
                return default[0]
            raise

    def new_env(self, fi, /, **names):
        """environment for interpreting statements of fi one by one: module-level names of fi's module (helpers, constants) behind the given local names"""
        env = Scope(_Fallback(self.module_scope(fi.rel), self.builtins, self), ())
        for k, v in names.items():
            dict.__setitem__(env, k, v)
        return env

    # ------------------------------------------------------------------ calling source functions
    def call_function(self, fi, args, kwargs=None):
        kwargs = kwargs or {}
        self.depth += 1
        if self.depth > self.max_depth:
            raise AnalysisError(f"symbolic interpretation too deep at {fi.where}")
        try:
            a = fi.node.args
            names = [x.arg for x in a.posonlyargs + a.args]
            globs = [n for x in ast.walk(fi.node) if isinstance(x, ast.Global) for n in x.names]
            env = Scope(_Fallback(self.module_scope(fi.rel), self.builtins, self), globs)
            dict.__setitem__(env, "__fi__", fi)
            defaults = dict(zip(names[len(names) - len(a.defaults):], a.defaults))
            for i, n in enumerate(names):
                if i < len(args):
                    dict.__setitem__(env, n, args[i])
                elif n in kwargs:
                    dict.__setitem__(env, n, kwargs[n])
                elif n in defaults:
                    dict.__setitem__(env, n, self.ev(defaults[n], {}))
                else:
                    raise AnalysisError(f"{fi.where}: missing argument {n}")
            try:
                self.block(fi.node.body, env, fi)
            except Return as r:
                return r.value
            return None
        finally:
            self.depth -= 1

    # ------------------------------------------------------------------ statements
    def block(self, stmts, env, fi):
        for s in stmts:
            self.stmt(s, env, fi)

    def stmt(self, s, env, fi):
        if isinstance(s, ast.Expr):
            if isinstance(s.value, ast.Constant):
                return
            self.ev(s.value, env)
            return
        if isinstance(s, ast.Assign):
            v = self.ev(s.value, env)
            for t in s.targets:
                self.assign(t, v, env)
            return
        if isinstance(s, ast.AnnAssign):
            if s.value is not None:
                self.assign(s.target, self.ev(s.value, env), env)
            return
        if isinstance(s, ast.AugAssign):
            # Python's in-place protocol: an object that defines __iadd__ / __itruediv__ ... is changed in place (lists, numpy-like stand-ins: every alias sees it),
            # anything else is rebound to the result of the binary operation
            cur = self.ev(s.target, env)
            v = self.ev(s.value, env)
            if isinstance(cur, Blob) or (isinstance(v, Blob) and isinstance(cur, (int, float))):
                self.assign(s.target, Blob("arith"), env)
                return
            ops = {ast.Add: _operator.iadd, ast.Sub: _operator.isub, ast.Mult: _operator.imul, ast.Div: _operator.itruediv, ast.FloorDiv: _operator.ifloordiv, ast.Mod: _operator.imod,
                   ast.Pow: _operator.ipow, ast.MatMult: _operator.imatmul, ast.BitOr: _operator.ior, ast.BitAnd: _operator.iand}
            f = ops.get(type(s.op))
            if f is None:
                raise AnalysisError(f"augmented assignment {unparse(s)} outside the fragment")
            self.assign(s.target, f(cur, v), env)
            return
        if isinstance(s, ast.If):
            c = self.ev(s.test, env)
            self.block(s.body if c else s.orelse, env, fi)
            return
        if isinstance(s, ast.For):
            it = self.ev(s.iter, env)
            broken = False
            for x in it:
                self.assign(s.target, x, env)
                try:
                    self.block(s.body, env, fi)
                except _Continue:
                    continue
                except _Break:
                    broken = True
                    break
            if not broken:
                self.block(s.orelse, env, fi)
            return
        if isinstance(s, ast.While):
            n = 0
            while self.ev(s.test, env):
                n += 1
                if n > 10000:
                    raise AnalysisError(f"{fi.where}: loop does not terminate on the symbolic input")
                try:
                    self.block(s.body, env, fi)
                except _Continue:
                    continue
                except _Break:
                    break
            return
        if isinstance(s, ast.Try):
            # the protected block is interpreted; handlers describe failure paths that the abstract run does not take
            self.block(s.body, env, fi)
            self.block(s.orelse, env, fi)
            self.block(s.finalbody, env, fi)
            return
        if isinstance(s, ast.Raise):
            raise SymRaise(unparse(s)[:120])
        if isinstance(s, ast.Continue):
            raise _Continue()
        if isinstance(s, ast.Break):
            raise _Break()
        if isinstance(s, ast.Return):
            raise Return(self.ev(s.value, env) if s.value is not None else None)
        if isinstance(s, ast.Assert):
            # opt-in (check_asserts): an assertion whose test folds to exactly False on the symbolic operands is an exception of the analysed code
            if getattr(self, "check_asserts", False):
                try:
                    ok = self.ev(s.test, env)
                except AnalysisError:
                    ok = None
                if ok is False:
                    raise SymRaise(f"AssertionError: {unparse(s.test)[:80]}")
            return
        if isinstance(s, (ast.Pass, ast.Nonlocal, ast.Global)):
            return
        if isinstance(s, ast.FunctionDef):
            node = s
            nonlocals = [n for x in ast.walk(node) if isinstance(x, ast.Nonlocal) for n in x.names]
            names = [a.arg for a in node.args.posonlyargs + node.args.args]
            kwonly = [a.arg for a in node.args.kwonlyargs]
            # defaults are evaluated once, at definition time
            dvals = dict(zip(names[len(names) - len(node.args.defaults):], [self.ev(d, env) for d in node.args.defaults]))
            dvals.update({a: self.ev(d, env) for a, d in zip(kwonly, node.args.kw_defaults) if d is not None})

            def closure(*args, _node=node, _env=env, _names=names, _nl=nonlocals, _dvals=dvals, _kwonly=kwonly, **kwargs):
                sc = Scope(_env, _nl)
                if len(args) > len(_names) and _node.args.vararg is None:
                    raise AnalysisError(f"{_node.name}() called with {len(args)} positional arguments")
                for k, v in _dvals.items():
                    dict.__setitem__(sc, k, v)
                for k, v in zip(_names, args):
                    dict.__setitem__(sc, k, v)
                if _node.args.vararg is not None:
                    dict.__setitem__(sc, _node.args.vararg.arg, tuple(args[len(_names):]))
                extra = {}
                for k, v in kwargs.items():
                    if k in _names or k in _kwonly:
                        dict.__setitem__(sc, k, v)
                    elif _node.args.kwarg is not None:
                        extra[k] = v
                    else:
                        raise AnalysisError(f"{_node.name}() got an unexpected keyword argument {k!r}")
                if _node.args.kwarg is not None:
                    dict.__setitem__(sc, _node.args.kwarg.arg, extra)
                missing = [k for k in _names + _kwonly if not dict.__contains__(sc, k)]
                if missing:
                    raise AnalysisError(f"{_node.name}() missing arguments {missing}")
                self.depth += 1
                if self.depth > self.max_depth:
                    raise AnalysisError(f"symbolic interpretation too deep in {_node.name}")
                try:
                    self.block(_node.body, sc, fi)
                except Return as r:
                    return r.value
                finally:
                    self.depth -= 1
                return None
            env[node.name] = closure
            return
        if isinstance(s, ast.Delete):
            for t in s.targets:
                if isinstance(t, ast.Subscript):
                    base = self.ev(t.value, env)
                    del base[self.ev(t.slice, env)]
                elif isinstance(t, ast.Name):
                    if t.id in env and dict.__contains__(env, t.id):
                        dict.__delitem__(env, t.id)
                else:
                    raise AnalysisError(f"del {unparse(t)} outside the fragment")
            return
        raise AnalysisError(f"{fi.where}: statement `{unparse(s)[:60]}` outside the symbolic fragment")

    def assign(self, t, v, env):
        if isinstance(t, ast.Name):
            env[t.id] = v
        elif isinstance(t, (ast.Tuple, ast.List)):
            vals = list(v)
            if len(vals) != len(t.elts):
                raise AnalysisError("unpacking length mismatch")
            for x, y in zip(t.elts, vals):
                self.assign(x, y, env)
        elif isinstance(t, ast.Subscript):
            base = self.ev(t.value, env)
            base[self.ev(t.slice, env)] = v
        elif isinstance(t, ast.Attribute):
            setattr(self.ev(t.value, env), t.attr, v)
        else:
            raise AnalysisError(f"assignment target {unparse(t)} outside the fragment")

    # ------------------------------------------------------------------ expressions
    def ev(self, e, env):
        if isinstance(e, ast.Constant):
            if getattr(self, "exact", False) and isinstance(e.value, (int, float)) and not isinstance(e.value, bool):
                return Q(e.value) if isinstance(e.value, int) else Q(_Fraction(repr(e.value)))       # exact mode: decimal literals are the rationals they spell
            return e.value
        if isinstance(e, ast.JoinedStr):
            out = []
            for v in e.values:
                if isinstance(v, ast.Constant):
                    out.append(str(v.value))
                else:
                    try:
                        x = self.ev(v.value, env)
                        out.append(x if isinstance(x, str) else (str(x) if isinstance(x, (int, float)) else repr(x)))
                    except AnalysisError:
                        out.append("<?>")      # text only used in log messages
            return "".join(out)
        if isinstance(e, ast.Name):
            if e.id in env:
                return env[e.id]
            if e.id in self.builtins:
                return self.builtins[e.id]
            if e.id in _PURE_MODULES:
                return _PURE_MODULES[e.id]          # pure standard-library modules are themselves (itertools.product, functools.reduce, ...)
            if e.id in ("int", "float", "complex", "bool", "str", "object", "list", "tuple", "dict", "set"):
                return {"int": int, "float": float, "complex": complex, "bool": bool, "str": str, "object": object, "list": list, "tuple": tuple, "dict": dict, "set": set}[e.id]
            raise AnalysisError(f"unknown name {e.id} in symbolic interpretation")
        if isinstance(e, (ast.Tuple, ast.List)):
            out = []
            for x in e.elts:
                if isinstance(x, ast.Starred):
                    out.extend(list(self.ev(x.value, env)))
                else:
                    out.append(self.ev(x, env))
            return tuple(out) if isinstance(e, ast.Tuple) else out
        if isinstance(e, ast.Set):
            return {self.ev(x, env) for x in e.elts}
        if isinstance(e, ast.Dict) and all(k is not None for k in e.keys):
            return {self.ev(k, env): self.ev(v, env) for k, v in zip(e.keys, e.values)}
        if isinstance(e, ast.Attribute):
            v = self.ev(e.value, env)
            if isinstance(v, Blob):
                return Blob(f"{v._name}.{e.attr}")
            if isinstance(v, Sym):
                if e.attr == "__dict__":
                    return v.__dict__
                if e.attr in v.__dict__:
                    return v.__dict__[e.attr]
                static = next((c.__dict__[e.attr] for c in type(v).__mro__ if e.attr in c.__dict__), None)
                if isinstance(static, property):
                    return static.fget(v)
                if e.attr in type(v).__dict__ and not callable(type(v).__dict__[e.attr]):
                    return type(v).__dict__[e.attr]
                if self.resolver is not None:
                    # a property of the source class of the stand-in
                    pf = self.resolver(v, e.attr)
                    if pf is not None and any(unparse(d) in ("property", "cached_property", "functools.cached_property") for d in getattr(pf.node, "decorator_list", [])):
                        return self.call_function(pf, [v])
                if callable(getattr(type(v), "symattr", None)):
                    return v.symattr(e.attr)
                raise AnalysisError(f"symbolic object {v!r} has no attribute {e.attr}")
            if any(v is m_ for m_ in _PURE_MODULES.values()):
                return getattr(v, e.attr)
            if issubclass(type(v), (int, float, complex, _Fraction)) and not issubclass(type(v), bool) and e.attr in ("real", "imag", "numerator", "denominator"):
                return getattr(v, e.attr)
            if isinstance(v, (list, tuple, str, dict, set)) and e.attr in ("append", "extend", "copy", "remove", "index", "insert", "get", "items", "keys", "values", "update", "pop", "setdefault",
                                                                           "sort", "reverse", "count", "add", "discard", "clear"):
                return getattr(v, e.attr)
            raise AnalysisError(f"attribute {unparse(e)} on a non-symbolic value")
        if isinstance(e, ast.Slice):
            return slice(self.ev(e.lower, env) if e.lower else None, self.ev(e.upper, env) if e.upper else None, self.ev(e.step, env) if e.step else None)
        if isinstance(e, ast.Lambda):
            names = [a.arg for a in e.args.args]
            return lambda *a: self.ev(e.body, {**env, **dict(zip(names, a))})
        if isinstance(e, ast.Subscript):
            v = self.ev(e.value, env)
            if isinstance(v, Blob):
                return Blob(f"{v._name}[..]")
            if isinstance(e.slice, ast.Slice):
                lo = self.ev(e.slice.lower, env) if e.slice.lower else None
                hi = self.ev(e.slice.upper, env) if e.slice.upper else None
                st = self.ev(e.slice.step, env) if e.slice.step else None
                return v[lo:hi:st]
            return v[self.ev(e.slice, env)]
        if isinstance(e, ast.BinOp) and getattr(self, "exact", False) and not getattr(e, "_exact_done", False):
            e._exact_done = True
            try:
                r = self.ev(e, env)
            finally:
                e._exact_done = False
            return Q(r) if isinstance(r, _Fraction) and not isinstance(r, Q) else r
        if isinstance(e, ast.BinOp):
            a, b = self.ev(e.left, env), self.ev(e.right, env)
            if isinstance(a, Blob) and isinstance(b, (Blob, int, float)) or isinstance(b, Blob) and isinstance(a, (int, float)):
                return Blob("arith")
            if isinstance(e.op, ast.Add):
                return a + b
            if isinstance(e.op, ast.Sub):
                return a - b
            if isinstance(e.op, ast.Mult):
                return a * b
            if isinstance(e.op, ast.Div):
                return a / b
            if isinstance(e.op, ast.FloorDiv):
                return a // b
            if isinstance(e.op, ast.Mod):
                return a % b
            if isinstance(e.op, ast.Pow) and not isinstance(a, Sym) and not isinstance(b, Sym):
                try:
                    return a ** b          # numbers of any exact / symbolic kind (int, float, Fraction, sympy)
                except TypeError:
                    pass
            if isinstance(e.op, ast.MatMult) and (isinstance(a, Blob) or isinstance(b, Blob)):
                return Blob("matmul")
            if isinstance(e.op, ast.MatMult) and isinstance(a, Sym) and callable(getattr(type(a), "__matmul__", None)):
                return a @ b
            if isinstance(e.op, ast.Pow) and isinstance(a, Sym) and callable(getattr(type(a), "__pow__", None)):
                return a ** b
            raise AnalysisError(f"operator in {unparse(e)} outside the fragment")
        if isinstance(e, ast.UnaryOp):
            v = self.ev(e.operand, env)
            if isinstance(v, Blob) and not isinstance(e.op, ast.Not):
                return Blob("neg")
            if isinstance(e.op, ast.Not):
                return not v
            if isinstance(e.op, ast.USub):
                return -v
            if isinstance(e.op, ast.Invert):
                return ~v
            if isinstance(e.op, ast.UAdd):
                return +v
        if isinstance(e, ast.BoolOp):
            if isinstance(e.op, ast.And):
                r = True
                for x in e.values:
                    r = self.ev(x, env)
                    if not r:
                        return r
                return r
            r = False
            for x in e.values:
                r = self.ev(x, env)
                if r:
                    return r
            return r
        if isinstance(e, ast.Compare) and len(e.ops) > 1:
            # chained comparison: a op1 b op2 c  ==  (a op1 b) and (b op2 c), every operand evaluated once
            vals = [self.ev(e.left, env)] + [self.ev(c, env) for c in e.comparators]
            for k, op in enumerate(e.ops):
                ev2 = {"__l": vals[k], "__r": vals[k + 1]}
                if not self.ev(ast.Compare(left=ast.Name(id="__l", ctx=ast.Load()), ops=[op], comparators=[ast.Name(id="__r", ctx=ast.Load())]), ev2):
                    return False
            return True
        if isinstance(e, ast.Compare) and len(e.ops) == 1:
            a, b = self.ev(e.left, env), self.ev(e.comparators[0], env)
            op = e.ops[0]
            if isinstance(op, ast.Eq):
                return a == b
            if isinstance(op, ast.NotEq):
                return a != b
            if isinstance(op, ast.Is):
                return a is b
            if isinstance(op, ast.IsNot):
                return a is not b
            if isinstance(op, ast.In):
                return a in b
            if isinstance(op, ast.NotIn):
                return a not in b
            if isinstance(op, ast.Lt):
                return a < b
            if isinstance(op, ast.LtE):
                return a <= b
            if isinstance(op, ast.Gt):
                return a > b
            if isinstance(op, ast.GtE):
                return a >= b
        if isinstance(e, ast.IfExp):
            return self.ev(e.body if self.ev(e.test, env) else e.orelse, env)
        if isinstance(e, (ast.GeneratorExp, ast.SetComp)) and len(e.generators) == 1:
            out = self.ev(ast.copy_location(ast.ListComp(elt=e.elt, generators=e.generators), e), env)
            return set(out) if isinstance(e, ast.SetComp) else out
        if isinstance(e, ast.ListComp) and len(e.generators) == 2:
            g0, g1 = e.generators
            out = []
            for x in self.ev(g0.iter, env):
                e2 = Scope(env, ()) if isinstance(env, Scope) else dict(env)
                self.assign(g0.target, x, e2)
                if not all(self.ev(c, e2) for c in g0.ifs):
                    continue
                for y in self.ev(g1.iter, e2):
                    e3 = Scope(e2, ()) if isinstance(e2, Scope) else dict(e2)
                    self.assign(g1.target, y, e3)
                    if all(self.ev(c, e3) for c in g1.ifs):
                        out.append(self.ev(e.elt, e3))
            return out
        if isinstance(e, ast.ListComp) and len(e.generators) == 1:
            g = e.generators[0]
            out = []
            for x in self.ev(g.iter, env):
                e2 = Scope(env, ()) if isinstance(env, Scope) else dict(env)
                self.assign(g.target, x, e2)
                if all(self.ev(c, e2) for c in g.ifs):
                    out.append(self.ev(e.elt, e2))
            return out
        if isinstance(e, ast.DictComp) and len(e.generators) == 1:
            g = e.generators[0]
            out = {}
            for x in self.ev(g.iter, env):
                e2 = Scope(env, ()) if isinstance(env, Scope) else dict(env)
                self.assign(g.target, x, e2)
                if all(self.ev(c, e2) for c in g.ifs):
                    out[self.ev(e.key, e2)] = self.ev(e.value, e2)
            return out
        if isinstance(e, ast.Call):
            return self.call(e, env)
        raise AnalysisError(f"expression `{unparse(e)[:60]}` outside the symbolic fragment")

    def call(self, e, env):
        f = e.func
        args = []
        for a in e.args:
            if isinstance(a, ast.Starred):
                args.extend(list(self.ev(a.value, env)))
            else:
                args.append(self.ev(a, env))
        kwargs = {}
        for k in e.keywords:
            if k.arg:
                kwargs[k.arg] = self.ev(k.value, env)
            else:
                kwargs.update(dict(self.ev(k.value, env)))
        if isinstance(f, ast.Name) and f.id == "super" and "super" not in self.builtins and "__fi__" in env:
            # super() / super(Class, obj) inside a method of a source class: the method is looked up in the class hierarchy of the receiver's class, after the defining class
            fi_ = env["__fi__"]
            top = fi_
            while top.parent is not None:
                top = top.parent
            recv = args[1] if len(args) == 2 else env[top.params()[0]]
            return _SuperProxy(self, recv, top.cls)
        if isinstance(f, ast.Name):
            n = f.id
            if n in env and callable(env[n]):
                return env[n](*args, **kwargs)
            if n in self.builtins:
                return self.builtins[n](*args, **kwargs)
            std = {"len": len, "list": list, "tuple": tuple, "enumerate": lambda x: list(enumerate(x)), "range": lambda *a: (list(range(*a)) if len(range(*a)) <= 10 ** 6 else range(*a)), "zip": lambda *a: list(zip(*a)),
                   "str": lambda x: x if isinstance(x, str) else repr(x), "isinstance": lambda *a: False, "min": min, "max": max, "bool": bool, "int": int, "abs": abs, "slice": slice, "getattr": self._getattr, "setattr": setattr, "hasattr": hasattr, "dict": dict, "reversed": lambda x: list(reversed(x)), "set": set, "sorted": sorted, "map": lambda f_, *xs: [f_(*a_) for a_ in zip(*xs)], "any": any, "all": all, "sum": sum,
                   "frozenset": frozenset, "round": round, "divmod": divmod, "type": type, "next": next, "iter": iter, "repr": repr, "callable": callable}
            if n in std:
                if kwargs and n not in ("sorted", "min", "max", "dict", "enumerate", "int", "round", "sum"):
                    raise AnalysisError(f"keyword arguments of builtin {n} are not modelled")
                if n == "enumerate" and kwargs:
                    return list(enumerate(*args, **kwargs))
                return std[n](*args, **kwargs)
            if n == "id":
                return f"ID({args[0]!r})"
            raise AnalysisError(f"call to {n} outside the symbolic fragment")
        if isinstance(f, ast.Attribute):
            recv = self.ev(f.value, env)
            if isinstance(recv, Blob):
                return Blob(f"{recv._name}.{f.attr}()")
            if isinstance(recv, _SuperProxy):
                return recv.call(f.attr, args, kwargs)
            if any(recv is m_ for m_ in _PURE_MODULES.values()) or (isinstance(recv, type) and getattr(recv, "__module__", None) in _PURE_MODULES):
                return getattr(recv, f.attr)(*args, **kwargs)          # itertools.product(...), chain.from_iterable(...), ...
            if issubclass(type(recv), (int, float, complex, _Fraction)) and not issubclass(type(recv), bool) and f.attr in ("conjugate", "real", "imag", "is_integer", "bit_length", "as_integer_ratio", "item"):
                return getattr(recv, f.attr)(*args, **kwargs) if f.attr != "item" else recv
            if isinstance(recv, (list, tuple, str, dict, set, frozenset, range)) or type(recv).__module__ == "collections":
                if getattr(recv, "_cls", None) is not None and not hasattr(type(recv), f.attr):
                    # a container stand-in of a source class (e.g. a list subclass): helper methods of that class come from the source
                    t_ = self.resolver(recv, f.attr)
                    if t_ is not None:
                        return self.call_function(t_, [recv] + args, kwargs)
                return getattr(recv, f.attr)(*args, **kwargs)
            target = self.resolver(recv, f.attr)
            if target is None and isinstance(recv, Sym) and callable(recv.__dict__.get(f.attr)):
                target = recv.__dict__[f.attr]
            if target is None and isinstance(recv, Sym) and callable(getattr(type(recv), f.attr, None)) and f.attr not in ("symattr",):
                target = getattr(recv, f.attr)          # a method of the stand-in's Python class (inherited ones included)
            if target is None and isinstance(recv, Sym) and callable(getattr(type(recv), "symattr", None)):
                target = recv.symattr(f.attr)
            if target is not None:
                if callable(target):
                    return target(*args, **kwargs)
                if any(isinstance(d, ast.Name) and d.id == "staticmethod" for d in getattr(target.node, "decorator_list", [])):
                    return self.call_function(target, args, kwargs)
                return self.call_function(target, [recv] + args, kwargs)
            raise AnalysisError(f"method {f.attr} on {recv!r} cannot be resolved symbolically")
        if isinstance(f, (ast.Call, ast.Subscript, ast.IfExp, ast.Lambda)):
            # the callee is itself computed: getattr(obj, name)(...), table[key](...), (f if c else g)(...)
            target = self.ev(f, env)
            if callable(target):
                return target(*args, **kwargs)
            raise AnalysisError(f"call `{unparse(e)[:50]}`: the computed callee {target!r} is not callable")
        raise AnalysisError(f"call `{unparse(e)[:50]}` outside the symbolic fragment")


class _SuperProxy:
    """result of super() in a method of a source class"""
    def __init__(self, interp, recv, after_cls):
        self.interp, self.recv, self.after = interp, recv, after_cls

    def call(self, name, args, kwargs):
        src = self.interp.src
        cname = getattr(self.recv, "_cls", None)
        cands = src.class_by_name.get(cname, []) if cname else []
        start = cands[0] if cands else self.after
        if start is None:
            raise AnalysisError(f"super().{name}: the class of the receiver is unknown")
        mro = src.mro(start)
        if self.after in mro:
            mro = mro[mro.index(self.after) + 1:]
        # a stand-in may carry the contract of a base-class method under the name `super_<name>` (e.g. the tensor-level operation behind a prefactor-level one)
        stub = getattr(self.recv, "__dict__", {}).get(f"super_{name}")
        if callable(stub):
            return stub(*args, **kwargs)
        for ci in mro:
            if name in ci.methods:
                return self.interp.call_function(ci.methods[name], [self.recv] + list(args), kwargs)
        py = getattr(type(self.recv), name, None)
        if callable(py):
            return getattr(self.recv, name)(*args, **kwargs)
        raise AnalysisError(f"super().{name} not found above {getattr(self.after, 'name', '?')}")


class SymRaise(Exception):
    """the interpreted code reached a `raise` statement"""


class _Continue(Exception):
    pass


class _Break(Exception):
    pass
