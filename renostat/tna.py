"""TNA - tensor-network spec analysis (DESIGN.md 3.2).

Every contraction kernel is interpreted symbolically: tensors are lists of leg classes over the legs of the
*leaf operands* (roles such as L, R, O0, X, E, B, K); einsum / opt_einsum specs, multi_tensor_contract paths
and tensordot / transpose chains merge classes (union-find).  The result is a network signature
    (set of (class of leaf legs, closed?),  ordered tuple of open output classes)
that is compared with a canonical network built by hand from the transfer-matrix convention.
Letters and variable names never matter; roles are bound by the kernel's parameter positions.
"""
import ast

from .src import AnalysisError, unparse


class TN:
    def __init__(self):
        self.parent = {}
        self.closed = set()
        self.ranks = {}

    def leaf(self, role, rank):
        self.ranks[role] = rank
        out = []
        for k in range(rank):
            self.parent.setdefault((role, k), (role, k))
            out.append((role, k))
        return T(self, out)

    def find(self, x):
        while self.parent[x] != x:
            self.parent[x] = self.parent[self.parent[x]]
            x = self.parent[x]
        return x

    def union(self, a, b):
        ra, rb = self.find(a), self.find(b)
        if ra != rb:
            self.parent[rb] = ra
            if rb in self.closed:
                self.closed.discard(rb)
                self.closed.add(ra)

    def close(self, a):
        self.closed.add(self.find(a))

    def classes(self):
        cl = {}
        for x in self.parent:
            cl.setdefault(self.find(x), set()).add(x)
        return cl

    def signature(self, out):
        cl = self.classes()
        closed_roots = {self.find(c) for c in self.closed}
        sig = frozenset((frozenset(v), k in closed_roots) for k, v in cl.items())
        outc = tuple(frozenset(cl[self.find(l)]) for l in out.legs)
        return sig, outc


class T:
    def __init__(self, tn, legs):
        self.tn, self.legs = tn, list(legs)

    @property
    def rank(self):
        return len(self.legs)


def parse_spec(spec):
    if "->" not in spec:
        raise AnalysisError(f"contraction spec without explicit output: {spec!r}")
    ins, out = spec.replace(" ", "").split("->")
    return ins.split(","), out


def einsum(tn, spec, ops):
    ins, out = parse_spec(spec)
    if len(ins) != len(ops):
        raise AnalysisError(f"spec {spec!r} has {len(ins)} operands, call passes {len(ops)}")
    first = {}
    count = {}
    for s, t in zip(ins, ops):
        if len(s) != t.rank:
            raise Malformed(f"operand index string {s!r} has {len(s)} letters for a rank-{t.rank} operand in {spec!r}")
        for ch, leg in zip(s, t.legs):
            count[ch] = count.get(ch, 0) + 1
            if ch in first:
                tn.union(first[ch], leg)
            else:
                first[ch] = leg
    for ch in out:
        if ch not in first:
            raise Malformed(f"output letter {ch!r} does not occur in the inputs of {spec!r}")
    if len(set(out)) != len(out):
        raise Malformed(f"output letter repeated in {spec!r}")
    for ch, leg in first.items():
        if ch not in out:
            if count[ch] == 1:
                raise Malformed(f"letter {ch!r} occurs once and is summed alone in {spec!r} (a leg silently traced away)")
            tn.close(leg)
    return T(tn, [first[ch] for ch in out])


class Malformed(Exception):
    """R1: spec not well formed"""


def contract_path(tn, path, ops):
    ops = list(ops)
    for idxs, spec in path:
        ins, out = parse_spec(spec)
        if len(idxs) != 2 or len(ins) != 2:
            raise AnalysisError(f"path step {idxs}, {spec!r} is not pairwise")
        a, b = ops[idxs[0]], ops[idxs[1]]
        # pair_tensor_contract: letters not in the result are contracted; result order = tensordot order, not the string's
        r = einsum(tn, spec, [a, b])
        removed = set(ins[0] + ins[1]) - set(out)
        td_order = [l for ch, l in zip(ins[0], a.legs) if ch not in removed] + [l for ch, l in zip(ins[1], b.legs) if ch not in removed]
        stated = [x for x in r.legs]
        if [tn.find(x) for x in td_order] != [tn.find(x) for x in stated]:
            raise Malformed(f"path step {spec!r}: the result string does not list the legs in tensordot order "
                            f"(multi_tensor_contract ignores the order of the result string)")
        for x in sorted(idxs, reverse=True):
            del ops[x]
        ops.append(T(tn, td_order))
    if len(ops) != 1:
        raise AnalysisError("contraction path leaves more than one operand")
    return ops[0]


def tensordot(tn, a, b, axes):
    if isinstance(axes, int):
        ia = list(range(a.rank - axes, a.rank))
        ib = list(range(axes))
    else:
        ia, ib = axes
        ia = [ia] if isinstance(ia, int) else list(ia)
        ib = [ib] if isinstance(ib, int) else list(ib)
        ia = [i % a.rank for i in ia]
        ib = [i % b.rank for i in ib]
    if len(ia) != len(ib):
        raise AnalysisError("tensordot axes mismatch")
    for i, j in zip(ia, ib):
        tn.union(a.legs[i], b.legs[j])
        tn.close(a.legs[i])
    return T(tn, [l for i, l in enumerate(a.legs) if i not in ia] + [l for j, l in enumerate(b.legs) if j not in ib])


# ------------------------------------------------------------------------------------------ interpreter
class Unknown(Exception):
    pass


class Interp:
    """symbolic interpreter of a contraction kernel under a concrete configuration"""
    CONTRACT = {"oe_contract", "oe_contract_expression", "multi_tensor_contract", "tensordot", "einsum"}

    def __init__(self, tn, env, funcs=None):
        self.tn, self.env = tn, dict(env)
        self.funcs = funcs or {}
        self.result = None
        self.calls = []     # (kind, spec text, lineno)
        self.done = False

    # ---- expression evaluation
    def ev(self, e):
        if isinstance(e, ast.Constant):
            return e.value
        if isinstance(e, ast.Name):
            if e.id in self.env:
                return self.env[e.id]
            raise Unknown(e.id)
        if isinstance(e, (ast.List, ast.Tuple)):
            return [self.ev(x) for x in e.elts]
        if isinstance(e, ast.Attribute):
            t = unparse(e)
            if t in self.env:
                return self.env[t]
            v = self.ev(e.value)
            if isinstance(v, T):
                if e.attr in ("array", "real"):
                    return v
                if e.attr == "ndim":
                    return v.rank
                if e.attr == "T":
                    return T(self.tn, list(reversed(v.legs)))
                if e.attr == "shape":
                    return ("SHAPE", v)
            raise Unknown(t)
        if isinstance(e, ast.Subscript):
            t = unparse(e)
            if t in self.env:
                return self.env[t]
            v = self.ev(e.value)
            i = self.ev(e.slice)
            if isinstance(v, list) and isinstance(i, int):
                return v[i]
            if isinstance(v, tuple) and v and v[0] == "SHAPE":
                return ("DIM", v[1], i)
            raise Unknown(t)
        if isinstance(e, ast.UnaryOp):
            v = self.ev(e.operand)
            if isinstance(e.op, ast.Not):
                return not v
            if isinstance(e.op, ast.USub):
                return -v
        if isinstance(e, ast.BoolOp):
            vals = [self.ev(v) for v in e.values]
            return all(vals) if isinstance(e.op, ast.And) else any(vals)
        if isinstance(e, ast.Compare) and len(e.ops) == 1:
            a, b = self.ev(e.left), self.ev(e.comparators[0])
            op = e.ops[0]
            if isinstance(op, ast.Eq):
                return a == b
            if isinstance(op, ast.NotEq):
                return a != b
            if isinstance(op, ast.Is):
                return a is b
            if isinstance(op, ast.IsNot):
                return a is not b
            if isinstance(op, ast.In):
                return a in b
            if isinstance(op, ast.Lt):
                return a < b
            if isinstance(op, ast.Gt):
                return a > b
            raise Unknown(unparse(e))
        if isinstance(e, ast.BinOp):
            a, b = self.ev(e.left), self.ev(e.right)
            if isinstance(a, (int, float)) and isinstance(b, (int, float)):
                return {ast.Add: a + b, ast.Sub: a - b, ast.Mult: a * b}.get(type(e.op), None)
            raise Unknown(unparse(e))
        if isinstance(e, ast.ListComp) and len(e.generators) == 1:
            g = e.generators[0]
            it = self.ev(g.iter)
            out = []
            for x in it:
                sub = Interp(self.tn, self.env)
                sub.bind(g.target, x)
                out.append(sub.ev(e.elt))
            return out
        if isinstance(e, ast.Call):
            return self.call(e)
        raise Unknown(unparse(e)[:40])

    def operand(self, v):
        """hook: a value is consumed as an operand of a contraction"""
        return v

    def star_args(self, args):
        """values of call arguments, `*sequence` unpacked"""
        out = []
        for a in args:
            if isinstance(a, ast.Starred):
                seq = self.ev(a.value)
                if not isinstance(seq, (list, tuple)):
                    raise Unknown(f"*{unparse(a.value)[:30]}")
                out.extend(seq)
            else:
                out.append(self.ev(a))
        return out

    def bind(self, target, val):
        if isinstance(target, ast.Name):
            self.env[target.id] = val
        elif isinstance(target, (ast.Tuple, ast.List)):
            for t, v in zip(target.elts, val):
                self.bind(t, v)

    def call(self, e):
        f = unparse(e.func)
        short = f.split(".")[-1]
        if short in ("asxp", "asnumpy") and e.args:
            return self.ev(e.args[0])
        if short == "len" and e.args:
            v = self.ev(e.args[0])
            if isinstance(v, T):
                return v.rank
            return len(v)
        if short == "range":
            return list(range(*[self.ev(a) for a in e.args]))
        if short == "isinstance":
            v = self.ev(e.args[0])
            ty = unparse(e.args[1])
            if ty == "list":
                return isinstance(v, list)
            if ty == "Matrix":
                return False
            raise Unknown(f)
        if short == "type" and e.args:
            v = self.ev(e.args[0])
            return list if isinstance(v, list) else ("T" if isinstance(v, T) else type(v))
        if isinstance(e.func, ast.Attribute) and e.func.attr in ("conj", "copy", "conjugate", "astype", "ravel", "flatten") and short not in ("einsum",):
            return self.ev(e.func.value)
        if isinstance(e.func, ast.Attribute) and e.func.attr == "transpose":
            v = self.ev(e.func.value)
            perm = [self.ev(a) for a in e.args]
            if len(perm) == 1 and isinstance(perm[0], list):
                perm = perm[0]
            perm = [p % v.rank for p in perm]
            if sorted(perm) != list(range(v.rank)):
                raise Malformed(f"transpose{tuple(perm)} on a rank-{v.rank} tensor")
            return T(self.tn, [v.legs[p] for p in perm])
        if short == "tensordot":
            a, b = self.operand(self.ev(e.args[0])), self.operand(self.ev(e.args[1]))
            axn = e.args[2] if len(e.args) > 2 else None
            for k in e.keywords:
                if k.arg == "axes":
                    axn = k.value
            axes = self.ev(axn) if axn is not None else 2
            if isinstance(axes, list):
                axes = tuple(axes)
            self.calls.append(("tensordot", unparse(e)[:60], e.lineno))
            return tensordot(self.tn, a, b, axes)
        if short in ("oe_contract", "oe_contract_expression", "einsum"):
            spec = self.ev(e.args[0])
            ops = []
            for v in self.star_args(e.args[1:]):
                v = self.operand(v)
                if isinstance(v, T):
                    ops.append(v)
                elif isinstance(v, tuple) and v and v[0] == "XSHAPE":
                    ops.append(v[1])
                else:
                    raise AnalysisError(f"operand {v!r} of {short} is not a tensor value")
            self.calls.append((short, spec, e.lineno))
            return einsum(self.tn, spec, ops)
        if short == "multi_tensor_contract":
            path = self.ev(e.args[0])
            ops = [self.operand(v) for v in self.star_args(e.args[1:])]
            path = [(p[0], p[1]) for p in path]
            for p in path:
                self.calls.append(("path", p[1], e.lineno))
            return contract_path(self.tn, path, ops)
        if isinstance(e.func, ast.Attribute) and e.func.attr == "get" and 1 <= len(e.args) <= 2:
            d = self.ev(e.func.value)
            if isinstance(d, dict):
                k = self.ev(e.args[0])
                return d.get(k, self.ev(e.args[1]) if len(e.args) == 2 else None)
        if f in self.funcs:
            return self.funcs[f](self, e)
        if short in ("debug", "info", "warning"):
            return None
        raise Unknown(f)

    # ---- statements
    def run(self, body):
        for s in body:
            if self.done:
                return
            self.stmt(s)

    def stmt(self, s):
        if isinstance(s, ast.Assign) and len(s.targets) == 1:
            try:
                v = self.ev(s.value)
            except Unknown as u:
                # an assignment we cannot evaluate: the name becomes unknown
                t = s.targets[0]
                if isinstance(t, ast.Name):
                    self.env.pop(t.id, None)
                return
            t = s.targets[0]
            if isinstance(t, ast.Name):
                self.env[t.id] = v
            elif isinstance(t, ast.Tuple):
                self.bind(t, v)
            elif isinstance(t, ast.Subscript):
                try:
                    base = self.ev(t.value)
                    i = self.ev(t.slice)
                    if isinstance(base, list) and isinstance(i, int):
                        base[i] = v
                except Unknown:
                    pass
            return
        if isinstance(s, ast.If):
            try:
                c = self.ev(s.test)
            except Unknown as u:
                if any(isinstance(n, ast.Call) and unparse(n.func).split(".")[-1] in self.CONTRACT for n in ast.walk(s)):
                    raise AnalysisError(f"branch condition `{unparse(s.test)[:60]}` guarding a contraction cannot be decided for this configuration ({u})")
                return
            self.run(s.body if c else s.orelse)
            return
        if isinstance(s, ast.For):
            try:
                it = self.ev(s.iter)
            except Unknown as u:
                if any(isinstance(n, ast.Call) and unparse(n.func).split(".")[-1] in self.CONTRACT for n in ast.walk(s)):
                    raise AnalysisError(f"loop over `{unparse(s.iter)[:40]}` containing a contraction cannot be unrolled ({u})")
                return
            for x in it:
                self.bind(s.target, x)
                self.run(s.body)
            return
        if isinstance(s, ast.Return):
            if s.value is not None:
                try:
                    self.result = self.ev(s.value)
                except Unknown as u:
                    raise AnalysisError(f"return value `{unparse(s.value)[:50]}` not evaluable ({u})")
            self.done = True
            return
        if isinstance(s, ast.Raise):
            raise AnalysisError(f"configuration reaches `{unparse(s)[:60]}`")
        if isinstance(s, (ast.Assert, ast.Expr, ast.Delete, ast.Pass, ast.AugAssign, ast.Import, ast.ImportFrom)):
            return
        if isinstance(s, ast.FunctionDef):
            return
        raise AnalysisError(f"statement kind {type(s).__name__} in a contraction kernel is outside the interpreted fragment")


# ------------------------------------------------------------------------------------------ canonical networks
def canon_heff(nsite, ancilla=False, twolayer=False, mode="apply"):
    """effective Hamiltonian network.  mode: 'apply' (closed with X, output = bra legs in X's axis order),
    'direct' (output = bra legs then ket legs), 'diag' (bra and ket legs identified)."""
    tn = TN()
    lrank = 4 if twolayer else 3
    L, R = tn.leaf("L", lrank), tn.leaf("R", lrank)
    O = [tn.leaf(f"O{i}", 4) for i in range(nsite)]
    Q = [tn.leaf(f"Q{i}", 4) for i in range(nsite)] if twolayer else None
    ket = lrank - 1
    layers = [O] + ([Q] if twolayer else [])
    for li, lay in enumerate(layers):
        if nsite == 0:
            tn.union(("L", 1 + li), ("R", 1 + li))
            tn.close(("L", 1 + li))
            continue
        tn.union(("L", 1 + li), lay[0].legs[0])
        tn.close(("L", 1 + li))
        for i in range(nsite - 1):
            tn.union(lay[i].legs[3], lay[i + 1].legs[0])
            tn.close(lay[i].legs[3])
        tn.union(lay[-1].legs[3], ("R", 1 + li))
        tn.close(("R", 1 + li))
    if twolayer:
        for i in range(nsite):
            tn.union(O[i].legs[2], Q[i].legs[1])
            tn.close(O[i].legs[2])
    last = layers[-1]
    bra = [("L", 0)] + [O[i].legs[1] for i in range(nsite)] + [("R", 0)]
    ketl = [("L", ket)] + [last[i].legs[2] for i in range(nsite)] + [("R", ket)]
    if mode == "apply":
        xr = 2 + nsite * (2 if ancilla else 1)
        X = tn.leaf("X", xr)
        out = [("L", 0)]
        tn.union(("L", ket), X.legs[0])
        tn.close(("L", ket))
        ax = 1
        for i in range(nsite):
            tn.union(last[i].legs[2], X.legs[ax])
            tn.close(last[i].legs[2])
            out.append(O[i].legs[1])
            ax += 1
            if ancilla:
                out.append(X.legs[ax])
                ax += 1
        tn.union(("R", ket), X.legs[xr - 1])
        tn.close(("R", ket))
        out.append(("R", 0))
        return tn.signature(T(tn, out))
    if mode == "direct":
        return tn.signature(T(tn, bra + ketl))
    if mode == "diag":
        for a, b_ in zip(bra, ketl):
            tn.union(a, b_)
        return tn.signature(T(tn, bra))
    raise ValueError(mode)


def canon_site(domain, rank, nop=1):
    """environment update kernel: E(bra, op_1..op_n, ket) x B x O_1..O_n x K -> (bra, op_1.., ket) of the far side"""
    tn = TN()
    E = tn.leaf("E", nop + 2)
    B, K = tn.leaf("B", rank), tn.leaf("K", rank)
    Os = [tn.leaf(f"O{j}" if nop > 1 else "O", 4) for j in range(nop)]
    near, far = (0, rank - 1) if domain == "L" else (rank - 1, 0)
    onear, ofar = (0, 3) if domain == "L" else (3, 0)
    tn.union(E.legs[0], B.legs[near]); tn.close(E.legs[0])
    tn.union(E.legs[nop + 1], K.legs[near]); tn.close(E.legs[nop + 1])
    for j, o in enumerate(Os):
        tn.union(E.legs[1 + j], o.legs[onear]); tn.close(E.legs[1 + j])
    tn.union(B.legs[1], Os[0].legs[1]); tn.close(B.legs[1])
    for j in range(nop - 1):
        tn.union(Os[j].legs[2], Os[j + 1].legs[1]); tn.close(Os[j].legs[2])
    tn.union(Os[-1].legs[2], K.legs[1]); tn.close(K.legs[1])
    if rank == 4:
        tn.union(B.legs[2], K.legs[2]); tn.close(B.legs[2])
    out = [B.legs[far]] + [o.legs[ofar] for o in Os] + [K.legs[far]]
    return tn.signature(T(tn, out))


def canon_expectation(rank):
    tn = TN()
    L, R = tn.leaf("L", 3), tn.leaf("R", 3)
    B, K, O = tn.leaf("B", rank), tn.leaf("K", rank), tn.leaf("O", 4)
    pairs = [(("L", 0), ("B", 0)), (("L", 1), ("O", 0)), (("L", 2), ("K", 0)), (("O", 1), ("B", 1)), (("O", 2), ("K", 1)),
             (("R", 0), ("B", rank - 1)), (("R", 1), ("O", 3)), (("R", 2), ("K", rank - 1))]
    if rank == 4:
        pairs.append((("B", 2), ("K", 2)))
    for a, b_ in pairs:
        tn.union(a, b_)
        tn.close(a)
    return tn.signature(T(tn, []))


def describe(sig):
    s, out = sig

    def cl(c):
        return "=".join(sorted(f"{r}.{a}" for r, a in c))
    return {"contracted": sorted(cl(c) for c, closed in s if closed and len(c) > 1),
            "open": [cl(c) for c in out],
            "dangling": sorted(cl(c) for c, closed in s if not closed and c not in set(out))}


def diff(found, want):
    f, w = describe(found), describe(want)
    d = {}
    for k in ("contracted", "open", "dangling"):
        if f[k] != w[k]:
            if k == "open":
                d[k] = {"found": f[k], "canonical": w[k]}
            else:
                d[k] = {"only in spec": sorted(set(f[k]) - set(w[k])), "only in canonical": sorted(set(w[k]) - set(f[k]))}
    return d
