"""Kernel table for TNA: which functions are contraction kernels, how their parameters map to network roles
(by position in the kernel's signature), which configurations exist, and the canonical network of each."""
import ast

from .src import AnalysisError, unparse
from . import tna
from .tna import TN, T, Interp, Malformed, Unknown

HOP = "renormalizer/mps/hop_expr.py"
GS = "renormalizer/mps/gs.py"
LIB = "renormalizer/mps/lib.py"
MPS = "renormalizer/mps/mps.py"
MPDM = "renormalizer/mps/mpdm.py"


class Case:
    def __init__(self, key, where, line, found=None, want=None, error=None, calls=None):
        self.key, self.where, self.line, self.found, self.want, self.error, self.calls = key, where, line, found, want, error, calls or []

    @property
    def ok(self):
        return self.error is None and self.found == self.want

    def detail(self):
        if self.error:
            return self.error
        return tna.diff(self.found, self.want)


def run_kernel(fi, env_builder, want, key):
    """interpret kernel fi under the configuration produced by env_builder(tn) -> env"""
    tn = TN()
    env = env_builder(tn)
    it = Interp(tn, env)
    try:
        it.run(fi.node.body)
        if not isinstance(it.result, T):
            raise AnalysisError(f"{fi.where}[{key}]: kernel did not return a tensor for this configuration (got {type(it.result).__name__})")
        found = tn.signature(it.result)
        return Case(key, fi.where, it.calls[-1][2] if it.calls else fi.node.lineno, found, want, calls=it.calls)
    except Malformed as m:
        return Case(key, fi.where, fi.node.lineno, error=f"malformed contraction: {m}", calls=it.calls)


def param_index(fi, names):
    ps = fi.params()
    return ps


# ------------------------------------------------------------------------------------------ hop_expr (mps)
def hop_expr_cases(src):
    fi = src.func(HOP, "hop_expr")
    ps = fi.params()
    if len(ps) < 5:
        raise AnalysisError(f"{fi.where}: signature changed: {ps}")
    pl, pr, pc, px, pt = ps[:5]     # roles by position: left env, right env, operator list, shape of X, two-layer flag
    out = []
    configs = [(0, False, False), (1, False, False), (1, True, False), (2, False, False), (2, True, False), (1, False, True), (2, False, True)]
    for nsite, anc, two in configs:
        def build(tn, nsite=nsite, anc=anc, two=two):
            lr = 4 if two else 3
            xr = 2 + nsite * (2 if anc else 1)
            X = tn.leaf("X", xr)
            ops = [tn.leaf(f"O{i}", 4) for i in range(nsite)]
            env = {pl: tn.leaf("L", lr), pr: tn.leaf("R", lr), pc: OpList(tn, ops, two), px: ShapeOf(X), pt: two}
            return {**module_literals(src, HOP), **env}
        key = f"hop_expr[nsite={nsite},ancilla={anc},twolayer={two}]"
        want = tna.canon_heff(nsite, anc, two, "apply")
        out.append(run_hop(fi, build, want, key))
    return out


class ShapeOf(list):
    """the `cshape` argument: len() gives the rank, used as an operand it stands for the trial tensor X"""
    def __init__(self, x):
        super().__init__([None] * x.rank)
        self.x = x


class OpList(list):
    """list of operator site tensors; in two-layer kernels the same list entry enters the network once per layer: the first time entry i is consumed as an operand of a
    contraction it is layer 1 (O_i), the second time layer 2 (Q_i) - however the code got hold of the entry (indexing, a local list, a loop)"""
    def __init__(self, tn, ops, twolayer):
        super().__init__(ops)
        self.tn, self.two = tn, twolayer
        self.used = {}
        self.q = {}

    def consume(self, v):
        for i, leaf in enumerate(self):
            if leaf is v:
                break
        else:
            return v
        n = self.used.get(i, 0)
        self.used[i] = n + 1
        if n == 0 or not self.two:
            if n > 0:
                raise Malformed(f"operator site {i} used {n + 1} times in a single-layer kernel")
            return v
        if n == 1:
            if i not in self.q:
                self.q[i] = self.tn.leaf(f"Q{i}", 4)
            return self.q[i]
        raise Malformed(f"operator site {i} used {n + 1} times")


def module_literals(src, rel):
    """module-level names bound to literals (contraction subscripts and paths hoisted out of the kernels)"""
    out = {}
    mod = src.modules.get(rel)
    for st in (mod.body if mod is not None else []):
        if isinstance(st, ast.Assign) and len(st.targets) == 1 and isinstance(st.targets[0], ast.Name):
            try:
                out[st.targets[0].id] = ast.literal_eval(st.value)
            except (ValueError, SyntaxError, TypeError):
                pass
    return out


class HopInterp(Interp):
    def operand(self, v):
        for x in self.env.values():
            if isinstance(x, OpList):
                v = x.consume(v)
        return v

    def ev(self, e):
        if isinstance(e, ast.Subscript) and isinstance(e.value, ast.Name) and isinstance(self.env.get(e.value.id), OpList) and isinstance(e.ctx, ast.Load):
            i = self.ev(e.slice)
            return list.__getitem__(self.env[e.value.id], i)
        if isinstance(e, ast.Name) and isinstance(self.env.get(e.id), ShapeOf) and getattr(self, "_as_operand", False):
            return self.env[e.id].x
        return super().ev(e)

    def call(self, e):
        short = unparse(e.func).split(".")[-1]
        if short in ("oe_contract", "oe_contract_expression", "einsum"):
            spec = self.ev(e.args[0])
            ops = []
            self._as_operand = True
            try:
                vals = self.star_args(e.args[1:])
            finally:
                self._as_operand = False
            for v in vals:
                if isinstance(v, ShapeOf):
                    v = v.x
                if not isinstance(v, T):
                    raise AnalysisError(f"operand {v!r} of {short} in `{unparse(e)[:60]}` is not a tensor value")
                ops.append(self.operand(v))
            self.calls.append((short, spec, e.lineno))
            return tna.einsum(self.tn, spec, ops)
        return super().call(e)

    def stmt(self, s):
        # `cmo[i] = asxp(cmo[i])` re-binding of list entries must not count as a use
        if isinstance(s, ast.For) and all(isinstance(x, ast.Assign) and isinstance(x.targets[0], ast.Subscript) and "asxp" in unparse(x.value) for x in s.body):
            return
        if isinstance(s, ast.Assign) and isinstance(s.targets[0], ast.Subscript) and "asxp" in unparse(s.value):
            return
        return super().stmt(s)


def run_hop(fi, build, want, key):
    tn = TN()
    env = build(tn)
    it = HopInterp(tn, env)
    try:
        it.run(fi.node.body)
        if not isinstance(it.result, T):
            raise AnalysisError(f"{fi.where}[{key}]: no contraction result")
        return Case(key, fi.where, it.calls[-1][2] if it.calls else fi.node.lineno, tn.signature(it.result), want, calls=it.calls)
    except Malformed as m:
        return Case(key, fi.where, fi.node.lineno, error=f"malformed contraction: {m}", calls=it.calls)


# ------------------------------------------------------------------------------------------ get_ham_direct / hdiag
def ham_direct_cases(src):
    fi = src.func(GS, "get_ham_direct")
    ps = fi.params()   # mps, qn_mask, ltensor, rtensor, cmo, omega
    if len(ps) != 6:
        raise AnalysisError(f"{fi.where}: signature changed: {ps}")
    out = []
    for nsite, two in ((1, False), (2, False), (1, True), (2, True)):
        def build(tn, nsite=nsite, two=two):
            lr = 4 if two else 3
            ops = [tn.leaf(f"O{i}", 4) for i in range(nsite)]
            return {**module_literals(src, GS), ps[1]: _Mask(), ps[2]: tn.leaf("L", lr), ps[3]: tn.leaf("R", lr), ps[4]: OpList(tn, ops, two), ps[5]: (0.5 if two else None),
                    f"{ps[0]}.optimize_config.method": "1site" if nsite == 1 else "2site", "OE_BACKEND": "numpy"}
        key = f"get_ham_direct[{nsite}site,omega={'set' if two else 'None'}]"
        tn = TN()
        env = build(tn)
        it = DirectInterp(tn, env)
        try:
            it.run(fi.node.body)
            it.finish()
            ham = it.first_ham
            if not isinstance(ham, T):
                raise AnalysisError(f"{fi.where}[{key}]: dense Hamiltonian contraction not found")
            out.append(Case(key, fi.where, it.calls[-1][2], tn.signature(ham), tna.canon_heff(nsite, False, two, "direct"), calls=it.calls))
            # masking: rows and columns restricted by the same mask, rows = first half of the axes
            out.append(Case(key + " mask", fi.where, it.mask_line, ("mask", it.mask_ok), ("mask", True),
                            error=None if it.mask_ok else f"masking `{it.mask_form}` does not restrict the trailing (ket) axes and then the leading (bra) axes by qn_mask"))
        except Malformed as m:
            out.append(Case(key, fi.where, fi.node.lineno, error=f"malformed contraction: {m}"))
    return out


class _Mask:
    """the sector mask of the local problem: a boolean array over the axes of one half (bra or ket) of the dense Hamiltonian"""
    def __repr__(self):
        return "qn_mask"


class _Grp(tuple):
    """axes flattened and restricted by the mask"""


class _Masked:
    """dense Hamiltonian some of whose axes have been flattened and restricted by the mask: items = legs (kept axes) and tuples of legs (masked groups), in axis order"""
    def __init__(self, items):
        self.items = list(items)

    @property
    def rank(self):
        return len(self.items)


class DirectInterp(HopInterp):
    """the dense local Hamiltonian: the contraction is interpreted as a network; the restriction to the sector is evaluated as indexing (boolean-mask indexing consumes as
    many axes as the mask has - half of the axes of the dense Hamiltonian - and puts one axis in their place), however the index tuples are spelled"""
    first_ham = None
    mask_ok = True
    mask_form = ""
    mask_line = None
    final = None

    def _pyvalue(self, e):
        """index expressions: python tuples / slices / ints built from literals, local names and the mask"""
        from .syminterp import SymInterp
        names = {k: v for k, v in self.env.items() if isinstance(k, str) and k.isidentifier() and isinstance(v, (int, float, str, bool, tuple, list, dict, slice, _Mask, T, type(None)))}
        it = SymInterp(None, None, {"slice": slice, "Ellipsis": Ellipsis})
        try:
            return it.ev(e, dict(names))
        except Exception as ex:
            raise Unknown(f"{unparse(e)[:40]}: {ex}")

    def ev(self, e):
        if isinstance(e, ast.Subscript):
            try:
                base = self.ev(e.value)
            except Unknown:
                base = None
            if isinstance(base, (T, _Masked)) and (isinstance(base, _Masked) or base is self.first_ham or base is self.env.get("ham")):
                idx = self._pyvalue(e.slice)
                return self._index(base, idx, e)
        try:
            return super().ev(e)
        except Unknown:
            if isinstance(e, (ast.Tuple, ast.List, ast.ListComp, ast.BinOp, ast.IfExp, ast.Call, ast.Name, ast.Compare, ast.BoolOp, ast.Subscript)) and not (isinstance(e, ast.Call) and unparse(e.func).split(".")[-1] in self.CONTRACT):
                return self._pyvalue(e)
            raise

    def _index(self, base, idx, e):
        items = list(base.legs) if isinstance(base, T) else list(base.items)
        idx = idx if isinstance(idx, tuple) else (idx,)
        half = self.first_ham.rank // 2 if isinstance(self.first_ham, T) else 0
        self.mask_form = unparse(e).replace(" ", "")
        self.mask_line = getattr(e, "lineno", None)
        if Ellipsis in idx:
            k = idx.index(Ellipsis)
            used = sum(half if isinstance(x, _Mask) else 1 for x in idx if x is not Ellipsis)
            idx = idx[:k] + (slice(None),) * (len(items) - used) + idx[k + 1:]
        out, pos = [], 0
        for x in idx:
            if isinstance(x, _Mask):
                grp = items[pos:pos + half]
                if len(grp) != half or any(isinstance(g, _Grp) for g in grp):
                    raise Malformed(f"mask applied at axis {pos} of an array with {len(items)} axes (the mask has {half})")
                out.append(_Grp(grp))
                pos += half
            elif isinstance(x, slice) and x == slice(None):
                if pos >= len(items):
                    raise Malformed(f"too many indices in {self.mask_form}")
                out.append(items[pos])
                pos += 1
            else:
                raise Unknown(f"index {x!r} of the dense Hamiltonian")
        out.extend(items[pos:])
        return _Masked(out)

    def stmt(self, s):
        if isinstance(s, ast.Assign) and isinstance(s.targets[0], ast.Name) and s.targets[0].id == "ham":
            if isinstance(s.value, ast.Call) and unparse(s.value.func).split(".")[-1] in self.CONTRACT:
                v = self.ev(s.value)
                self.env["ham"] = v
                self.first_ham = v
                return
            v = self.ev(s.value)
            self.env["ham"] = v
            if isinstance(v, _Masked):
                self.final = v
            return
        if isinstance(s, ast.Return) and s.value is not None:
            v = self.ev(s.value)
            if isinstance(v, _Masked):
                self.final = v
            self.result, self.done = v, True
            return
        return super().stmt(s)

    def finish(self):
        """rows = the first half of the axes (bra), columns = the second half (ket), each restricted by the mask exactly once"""
        f, h = self.final, self.first_ham
        if not isinstance(h, T):
            self.mask_ok = False
            return
        n = h.rank // 2
        self.mask_ok = isinstance(f, _Masked) and len(f.items) == 2 and isinstance(f.items[0], _Grp) and isinstance(f.items[1], _Grp) and tuple(f.items[0]) == tuple(h.legs[:n]) and tuple(f.items[1]) == tuple(h.legs[n:])
        if not self.mask_form:
            self.mask_form = "no restriction by qn_mask found"


def hdiag_cases(src):
    fi = src.func(GS, "get_ham_iterative")
    ps = fi.params()
    hop_ps = src.func(HOP, "hop_expr").params()
    if len(hop_ps) < 5:
        raise AnalysisError(f"hop_expr: signature changed: {hop_ps}")
    shape_tok = _ShapeTok()
    hop_args = src.func(HOP, "hop_expr").node.args
    npos = len(hop_args.posonlyargs) + len(hop_args.args)
    dflt = {i: d for i, d in zip(range(npos - len(hop_args.defaults), npos), hop_args.defaults)}
    two_default = ast.literal_eval(dflt[4]) if 4 in dflt and isinstance(dflt[4], ast.Constant) else _MISSING
    out = []
    for nsite, two in ((1, False), (2, False), (1, True), (2, True)):
        tn = TN()
        lr = 4 if two else 3
        ops = [tn.leaf(f"O{i}", 4) for i in range(nsite)]
        env = {**module_literals(src, GS), ps[2]: tn.leaf("L", lr), ps[3]: tn.leaf("R", lr), ps[4]: OpList(tn, ops, two), ps[5]: (0.5 if two else None),
               "method": "1site" if nsite == 1 else "2site", f"{ps[0]}.optimize_config.method": "1site" if nsite == 1 else "2site",
               f"{ps[0]}.optimize_config.inverse": 1.0, "OE_BACKEND": "numpy", f"{ps[1]}.shape": shape_tok}
        it = DiagInterp(tn, env)
        it.hop_params, it.two_default = hop_ps, two_default
        key = f"get_ham_iterative.hdiag[{nsite}site,omega={'set' if two else 'None'}]"
        try:
            it.run(fi.node.body)
            hd = it.hdiag
            if not isinstance(hd, T):
                raise AnalysisError(f"{fi.where}[{key}]: hdiag contraction not found")
            out.append(Case(key, fi.where, it.calls[-1][2], tn.signature(hd), tna.canon_heff(nsite, False, two, "diag"), calls=it.calls))
            want_roles = {"left environment": env[ps[2]], "right environment": env[ps[3]], "operators": env[ps[4]], "shape of the trial tensor": shape_tok, "two-layer flag": two}
            got = it.expr_roles or {}
            bad = [r for r, w in want_roles.items() if not (got.get(r, _MISSING) is w or (isinstance(w, bool) and isinstance(got.get(r, _MISSING), bool) and got[r] == w))]
            out.append(Case(key + " hop_expr args", fi.where, it.expr_line, ("args", not bad), ("args", True),
                            error=None if not bad else
                            f"hop_expr is called with {it.expr_args}: left env, right env, operators, shape of the local tensor, two-layer flag expected; wrong: {bad}"))
        except Malformed as m:
            out.append(Case(key, fi.where, fi.node.lineno, error=f"malformed contraction: {m}"))
    return out


_MISSING = object()


class _ShapeTok:
    """the shape of the sector mask = the shape of the local tensor"""
    def __repr__(self):
        return "qn_mask.shape"


class DiagInterp(HopInterp):
    hdiag = None
    expr_args = None
    expr_roles = None
    expr_line = None
    hop_params = ()
    two_default = _MISSING
    ROLES = ("left environment", "right environment", "operators", "shape of the trial tensor", "two-layer flag")

    def _bind_hop(self, call):
        """arguments of the hop_expr call, evaluated in the configuration, by the role their parameter has in hop_expr's own signature (positional or keyword)"""
        byname = {}
        for i, a in enumerate(call.args):
            if isinstance(a, ast.Starred) or i >= len(self.hop_params):
                raise AnalysisError(f"hop_expr call `{unparse(call)[:80]}` cannot be bound to the signature {list(self.hop_params)}")
            byname[self.hop_params[i]] = a
        for k in call.keywords:
            if k.arg is None:
                raise AnalysisError(f"hop_expr call `{unparse(call)[:80]}` passes **kwargs")
            byname[k.arg] = k.value
        roles = {}
        for role, pname in zip(self.ROLES, self.hop_params[:5]):
            if pname not in byname:
                roles[role] = self.two_default if role == "two-layer flag" else _MISSING
                continue
            try:
                roles[role] = self.ev(byname[pname])
            except Unknown:
                roles[role] = _MISSING
        return roles

    def stmt(self, s):
        if isinstance(s, ast.Assign) and isinstance(s.targets[0], ast.Name) and s.targets[0].id == "hdiag":
            if isinstance(s.value, ast.Call) and unparse(s.value.func).split(".")[-1] in ("oe_contract", "multi_tensor_contract"):
                v = self.ev(s.value)
                self.env["hdiag"] = v
                self.hdiag = v
            return
        if isinstance(s, ast.Assign) and isinstance(s.value, ast.Call) and unparse(s.value.func) == "hop_expr":
            self.expr_args = [unparse(a) for a in s.value.args] + [f"{k.arg}={unparse(k.value)}" for k in s.value.keywords]
            self.expr_roles = self._bind_hop(s.value)
            self.expr_line = s.lineno
            return
        if isinstance(s, ast.Return):
            self.done = True
            return
        return super().stmt(s)


# ------------------------------------------------------------------------------------------ environment kernels
def site_cases(src):
    out = []
    fi = src.func(LIB, "contract_one_site")
    ps = fi.params()    # environ, ms, mo, domain, ms_conj
    if len(ps) != 5:
        raise AnalysisError(f"{fi.where}: signature changed: {ps}")
    for dom in ("L", "R"):
        for rank in (3, 4):
            def build(tn, dom=dom, rank=rank):
                return {**module_literals(src, LIB), ps[0]: tn.leaf("E", 3), ps[1]: tn.leaf("K", rank), ps[2]: tn.leaf("O", 4), ps[3]: dom, ps[4]: tn.leaf("B", rank)}
            out.append(run_kernel(fi, build, tna.canon_site(dom, rank, 1), f"contract_one_site[{dom},rank{rank}]"))
    fm = src.func(LIB, "contract_one_site_multi_mpo")
    pm = fm.params()    # environ, ms, mos, domain, ms_conj
    for dom in ("L", "R"):
        for rank in (3, 4):
            for nop in (1, 2):
                def build(tn, dom=dom, rank=rank, nop=nop):
                    ops = [tn.leaf(f"O{j}" if nop > 1 else "O", 4) for j in range(nop)]
                    return {**module_literals(src, LIB), pm[0]: tn.leaf("E", nop + 2), pm[1]: tn.leaf("K", rank), pm[2]: ops, pm[3]: dom, pm[4]: tn.leaf("B", rank)}
                out.append(run_kernel(fm, build, tna.canon_site(dom, rank, nop), f"contract_one_site_multi_mpo[{dom},rank{rank},{nop} operator(s)]"))
    return out


def expectation_cases(src):
    """Mps.expectation, run with recorders: the closing contraction gets (left unit tensor, ket site 0, operator site 0, bra site 0, right environment read at site 1 from an
    environment built for the domain R with the bra that was handed in) in the order the class's contraction path expects"""
    from .syminterp import SymInterp, Sym, Blob, OpenSym
    from .rules.chain_rules import class_resolver
    out = []
    info = {}
    for rel, cname, rank in ((MPS, "Mps", 3), (MPDM, "MpDm", 4)):
        ex = src.func(MPS, "Mps.expectation")
        fi = src.func(rel, f"{cname}._expectation_path")
        rec = {}

        class Tagged(Sym):
            pass

        class ChainS(Sym):
            def __getitem__(self, k):
                return Tagged(f"{self._role}{k}", role=self._role, site=k)
        ket = ChainS("ket", _cls=cname, _role="K", dtype="dtype", model="model", is_complex=False, is_mps=cname == "Mps", is_mpdm=cname == "MpDm", is_mpo=False, site_num=3)
        bra = ChainS("bra", _role="B", is_complex=False)
        op = ChainS("mpo", _role="O", is_complex=False)

        def environ(mps, mpo, domain=None, mps_conj=None, **k):
            rec["environ"] = (mps, mpo, domain, mps_conj)
            return Sym("environ", read=lambda dom, idx: Tagged(f"env[{dom},{idx}]", role="R" if (dom, idx) == ("R", 1) else f"?env[{dom},{idx}]", site=idx))

        def contract(path, *ops):
            rec["path"], rec["ops"] = path, ops
            return Sym("value", imag=0.0, real=1.0)
        npx = OpenSym("xp", make=lambda t: Blob(t), ones=lambda shape, **k: Tagged("ones", role="L" if tuple(shape) == (1, 1, 1) else f"?ones{tuple(shape)}", site=None))
        it = SymInterp(src, class_resolver(src, {"Mps": MPS, "MpDm": MPDM}),
                       {"Environ": environ, "multi_tensor_contract": contract, "xp": npx, "np": OpenSym("np", make=lambda t: Blob(t), isclose=lambda *a, **k: True), "Op": Sym("Op"), "OpSum": Sym("OpSum"),
                        "Mpo": Sym("Mpo"), "isinstance": lambda x, t: False, "float": lambda x: x, "complex": lambda x: x})
        it.call_function(ex, [ket, op, bra])
        if "ops" not in rec:
            raise AnalysisError(f"{ex.where}: closing contraction not reached")
        roles = [getattr(o, "role", "?") for o in rec["ops"]]
        sites = [getattr(o, "site", None) for o in rec["ops"]]
        info = {"operands": [repr(o) for o in rec["ops"]], "roles": roles, "environ": repr(rec.get("environ"))}
        e_ok = rec.get("environ") is not None and rec["environ"][0] is ket and rec["environ"][1] is op and rec["environ"][2] == "R" and rec["environ"][3] is bra
        path = rec["path"]
        tn = TN()
        rk = {"L": 3, "R": 3, "O": 4, "K": rank, "B": rank}
        key = f"{cname}._expectation_path closed by Mps.expectation"
        if not e_ok or any(r not in rk for r in roles) or any(s_ not in (None, 0, 1) for s_ in sites) or any(s_ != 0 for r, s_ in zip(roles, sites) if r in "KOB"):
            out.append(Case(key, ex.where, ex.node.lineno, error=f"operands {info['operands']} with the environment {info['environ']}: expected the unit tensor, site 0 of ket / operator / bra, and "
                                                                 "the right environment at site 1 of Environ(ket, operator, 'R', mps_conj=bra)"))
            continue
        ops = [tn.leaf(r, rk[r]) for r in roles]
        try:
            res = tna.contract_path(tn, [(p[0], p[1]) for p in path], ops)
            out.append(Case(key, fi.where, fi.node.lineno, tn.signature(res), tna.canon_expectation(rank), calls=[("path", p[1], fi.node.lineno) for p in path]))
        except Malformed as m:
            out.append(Case(key, fi.where, fi.node.lineno, error=f"malformed contraction: {m}"))
    return out, info
