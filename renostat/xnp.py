"""XNP - a small exact model of the array operations the table code of the operator builders uses: dense arrays of at most two dimensions over exact numbers
(int / Fraction / bool) and a compressed sparse matrix.  The analysed function is interpreted from its source by SymInterp with these objects in the place of numpy / scipy
arrays; every operation the model does not know stops the analysis (AnalysisError), it never guesses.  Index semantics follow numpy: an integer removes an axis, a slice keeps
it, an integer or boolean array selects along its axis, two index arrays select element-wise pairs, None inserts an axis; reshape / flatten are row-major."""
from fractions import Fraction as Fr

from .src import AnalysisError
from .syminterp import Sym, OpenSym


def _num(x):
    if isinstance(x, (bool, int, Fr)):
        return x
    if isinstance(x, float):
        return Fr(x)          # binary floats are exact rationals
    if isinstance(x, XA) and x.shape == ():
        return x.flat[0]
    if hasattr(x, "__index__"):
        return int(x)
    raise AnalysisError(f"array element {x!r} is not an exact number")


def _shape_of(x):
    if isinstance(x, XA):
        return x.shape
    if isinstance(x, (list, tuple)):
        if not x:
            return (0,)
        sub = [_shape_of(e) for e in x]
        if any(s != sub[0] for s in sub):
            raise AnalysisError(f"ragged nested sequence {str(x)[:60]}")
        return (len(x),) + sub[0]
    return ()


def _flatten(x):
    if isinstance(x, XA):
        return list(x.flat)
    if isinstance(x, (list, tuple)):
        out = []
        for e in x:
            out.extend(_flatten(e))
        return out
    return [_num(x)]


class XA(Sym):
    """exact array: shape (tuple, at most 2 axes) and the elements in row-major order"""
    _is_ndarray = True

    def __init__(self, data=None, shape=None, flat=None):
        super().__init__("array")
        if flat is None:
            shape = _shape_of(data)
            flat = _flatten(data)
        if len(shape) > 2:
            raise AnalysisError(f"array of {len(shape)} axes is not modelled")
        n = 1
        for s in shape:
            n *= s
        if n != len(flat):
            raise AnalysisError(f"shape {shape} does not hold {len(flat)} elements")
        self.__dict__["shape"] = tuple(int(s) for s in shape)
        self.__dict__["flat"] = list(flat)

    # ---- meta
    @property
    def ndim(self):
        return len(self.shape)

    @property
    def size(self):
        return len(self.flat)

    @property
    def T(self):
        if self.ndim < 2:
            return self
        r, c = self.shape
        return XA(shape=(c, r), flat=[self.flat[i * c + j] for j in range(c) for i in range(r)])

    @property
    def A(self):
        return self

    @property
    def A1(self):
        return self.flatten()

    def __len__(self):
        if not self.shape:
            raise AnalysisError("len() of a 0-d array")
        return self.shape[0]

    def __iter__(self):
        if not self.shape:
            raise AnalysisError("iteration over a 0-d array")
        return iter([self[i] for i in range(self.shape[0])])

    def __repr__(self):
        return f"array{self.tolist()}"

    def __index__(self):
        if self.size == 1 and isinstance(self.flat[0], int):
            return int(self.flat[0])
        raise AnalysisError(f"{self!r} used as an index")

    def __bool__(self):
        if self.size == 1:
            return bool(self.flat[0])
        raise AnalysisError("truth value of an array with more than one element")

    def __hash__(self):
        return id(self)

    def tolist(self):
        if self.ndim == 0:
            return self.flat[0]
        if self.ndim == 1:
            return list(self.flat)
        c = self.shape[1]
        return [self.flat[i * c:(i + 1) * c] for i in range(self.shape[0])]

    def item(self):
        if self.size != 1:
            raise AnalysisError("item() of an array with more than one element")
        return self.flat[0]

    # ---- shape changes (row-major)
    def reshape(self, *shape):
        if len(shape) == 1 and isinstance(shape[0], (tuple, list)):
            shape = tuple(shape[0])
        shape = [int(s) for s in shape]
        if shape.count(-1) > 1:
            raise AnalysisError("reshape with more than one -1")
        if -1 in shape:
            known = 1
            for s in shape:
                if s != -1:
                    known *= s
            if known == 0 or self.size % known:
                raise AnalysisError(f"cannot reshape {self.shape} into {shape}")
            shape[shape.index(-1)] = self.size // known
        return XA(shape=tuple(shape), flat=self.flat)

    def flatten(self, *a):
        return XA(shape=(self.size,), flat=self.flat)

    ravel = flatten

    def copy(self):
        return XA(shape=self.shape, flat=self.flat)

    def astype(self, *a, **k):
        return self.copy()

    def toarray(self):
        return self

    todense = toarray

    # ---- indexing
    def _axis_sel(self, k, n):
        """selection along one axis of length n: (list of positions, keeps the axis?)"""
        if isinstance(k, slice):
            return list(range(n))[k], True
        if isinstance(k, XA) and k.ndim == 0:
            k = k.flat[0]
        if isinstance(k, (XA, list, tuple)):
            k = k if isinstance(k, XA) else XA(list(k))
            if k.ndim != 1:
                raise AnalysisError(f"index array of shape {k.shape} along one axis is not modelled")
            if k.size and all(isinstance(x, bool) for x in k.flat):
                if k.size != n:
                    raise IndexError(f"boolean index of length {k.size} along an axis of length {n}")
                return [i for i, m in enumerate(k.flat) if m], True
            return [self._pos(int(_num(x)), n) for x in k.flat], True
        if isinstance(k, bool):
            raise AnalysisError("boolean scalar index")
        if hasattr(k, "__index__") or isinstance(k, Fr):
            return [self._pos(int(k), n)], False
        raise AnalysisError(f"index {k!r} is not modelled")

    @staticmethod
    def _pos(i, n):
        if not -n <= i < n:
            raise IndexError(f"index {i} is out of bounds for an axis of length {n}")
        return i % n

    def _normalise_key(self, k):
        ks = list(k) if isinstance(k, tuple) else [k]
        if Ellipsis in ks:
            i = ks.index(Ellipsis)
            ks[i:i + 1] = [slice(None)] * (self.ndim - (len([x for x in ks if x is not None]) - 1))
        return ks

    def __getitem__(self, k):
        ks = self._normalise_key(k)
        # a 2-d boolean mask over a 2-d array
        if len(ks) == 1 and isinstance(ks[0], XA) and ks[0].ndim == 2 and self.ndim == 2:
            m = ks[0]
            if m.shape != self.shape or not all(isinstance(x, bool) for x in m.flat):
                # a 2-d integer index array along the first axis of a 1-d array is handled below; along a 2-d array it is not modelled
                raise AnalysisError(f"index array of shape {m.shape} into an array of shape {self.shape}")
            return XA(shape=(sum(m.flat),), flat=[v for v, b in zip(self.flat, m.flat) if b])
        if len(ks) == 1 and isinstance(ks[0], XA) and ks[0].ndim == 2 and self.ndim == 1:
            idx = ks[0]
            return XA(shape=idx.shape, flat=[self.flat[self._pos(int(_num(i)), self.shape[0])] for i in idx.flat])
        newaxes = [i for i, x in enumerate(ks) if x is None]
        core = [x for x in ks if x is not None]
        if len(core) > self.ndim:
            raise IndexError(f"too many indices for an array of {self.ndim} axes")
        core += [slice(None)] * (self.ndim - len(core))
        if self.ndim == 0:
            out = self
        elif self.ndim == 1:
            sel, keep = self._axis_sel(core[0], self.shape[0])
            vals = [self.flat[i] for i in sel]
            out = XA(shape=(len(vals),), flat=vals) if keep else vals[0]
        else:
            r, c = self.shape
            adv = [isinstance(x, (XA, list, tuple)) and not (isinstance(x, XA) and x.ndim == 0) for x in core]
            if all(adv):
                a, _ = self._axis_sel(core[0], r)
                b, _ = self._axis_sel(core[1], c)
                if len(a) != len(b):
                    if len(a) == 1:
                        a = a * len(b)
                    elif len(b) == 1:
                        b = b * len(a)
                    else:
                        raise IndexError(f"index arrays of lengths {len(a)} and {len(b)} cannot be broadcast")
                out = XA(shape=(len(a),), flat=[self.flat[i * c + j] for i, j in zip(a, b)])
            else:
                a, ka = self._axis_sel(core[0], r)
                b, kb = self._axis_sel(core[1], c)
                vals = [self.flat[i * c + j] for i in a for j in b]
                if ka and kb:
                    out = XA(shape=(len(a), len(b)), flat=vals)
                elif ka or kb:
                    out = XA(shape=(len(vals),), flat=vals)
                else:
                    out = vals[0]
        if newaxes:
            if not isinstance(out, XA):
                out = XA(shape=(), flat=[out])
            shape = list(out.shape)
            # positions of None in the key, counted among the axes that survive
            kept = 0
            inserts = []
            for x in ks:
                if x is None:
                    inserts.append(kept + len(inserts))
                elif isinstance(x, slice) or isinstance(x, (XA, list, tuple)):
                    kept += 1
            for p in inserts:
                shape.insert(p, 1)
            out = XA(shape=tuple(shape), flat=out.flat)
        return out

    def __setitem__(self, k, v):
        ks = self._normalise_key(k)
        if any(x is None for x in ks):
            raise AnalysisError("assignment through an inserted axis")
        ks += [slice(None)] * (self.ndim - len(ks))
        if len(ks) == 1 and isinstance(ks[0], XA) and ks[0].ndim == 2:
            pos = [i for i, b in enumerate(ks[0].flat) if b]
        elif self.ndim == 1:
            pos, _ = self._axis_sel(ks[0], self.shape[0])
        elif self.ndim == 2:
            r, c = self.shape
            a, _ = self._axis_sel(ks[0], r)
            b, _ = self._axis_sel(ks[1], c)
            adv = [isinstance(x, (XA, list, tuple)) for x in ks]
            pos = [i * c + j for i, j in zip(a, b)] if all(adv) else [i * c + j for i in a for j in b]
        else:
            pos = [0]
        vals = _flatten(v)
        if len(vals) == 1:
            vals = vals * len(pos)
        if len(vals) != len(pos):
            raise ValueError(f"cannot assign {len(vals)} values to {len(pos)} positions")
        for p, x in zip(pos, vals):
            self.flat[p] = x

    # ---- element-wise arithmetic
    def _bin(self, o, f):
        if isinstance(o, (list, tuple)):
            o = XA(list(o))
        if isinstance(o, XA):
            if o.shape == self.shape:
                return XA(shape=self.shape, flat=[f(a, b) for a, b in zip(self.flat, o.flat)])
            if o.size == 1:
                return XA(shape=self.shape, flat=[f(a, o.flat[0]) for a in self.flat])
            if self.size == 1:
                return XA(shape=o.shape, flat=[f(self.flat[0], b) for b in o.flat])
            if self.ndim == 2 and o.ndim == 1 and o.shape[0] == self.shape[1]:
                c = self.shape[1]
                return XA(shape=self.shape, flat=[f(a, o.flat[i % c]) for i, a in enumerate(self.flat)])
            if self.ndim == 2 and self.shape[1] == 1 and o.ndim == 1:
                return XA(shape=(self.shape[0], o.shape[0]), flat=[f(a, b) for a in self.flat for b in o.flat])
            if self.ndim == 1 and o.ndim == 2 and o.shape[1] == 1:
                return XA(shape=(o.shape[0], self.shape[0]), flat=[f(a, b) for b in o.flat for a in self.flat])
            if self.ndim == 2 and o.ndim == 2 and o.shape == (self.shape[0], 1):
                c = self.shape[1]
                return XA(shape=self.shape, flat=[f(a, o.flat[i // c]) for i, a in enumerate(self.flat)])
            raise AnalysisError(f"broadcast of shapes {self.shape} and {o.shape} is not modelled")
        if isinstance(o, (bool, int, float, Fr)):
            o = _num(o)
            return XA(shape=self.shape, flat=[f(a, o) for a in self.flat])
        return NotImplemented

    def __add__(self, o):
        return self._bin(o, lambda a, b: a + b)

    __radd__ = __add__

    def __sub__(self, o):
        return self._bin(o, lambda a, b: a - b)

    def __rsub__(self, o):
        return self._bin(o, lambda a, b: b - a)

    def __mul__(self, o):
        return self._bin(o, lambda a, b: a * b)

    __rmul__ = __mul__

    def __truediv__(self, o):
        return self._bin(o, lambda a, b: Fr(a) / b)

    def __rtruediv__(self, o):
        return self._bin(o, lambda a, b: Fr(b) / a)

    def __floordiv__(self, o):
        return self._bin(o, lambda a, b: a // b)

    def __mod__(self, o):
        return self._bin(o, lambda a, b: a % b)

    def __neg__(self):
        return XA(shape=self.shape, flat=[-a for a in self.flat])

    def __abs__(self):
        return XA(shape=self.shape, flat=[abs(a) for a in self.flat])

    def __invert__(self):
        if not all(isinstance(a, bool) for a in self.flat):
            raise AnalysisError("~ of a non-boolean array")
        return XA(shape=self.shape, flat=[not a for a in self.flat])

    def __and__(self, o):
        return self._bin(o, lambda a, b: bool(a) and bool(b))

    def __or__(self, o):
        return self._bin(o, lambda a, b: bool(a) or bool(b))

    def __eq__(self, o):
        return self._bin(o, lambda a, b: bool(a == b))

    def __ne__(self, o):
        return self._bin(o, lambda a, b: bool(a != b))

    def __lt__(self, o):
        return self._bin(o, lambda a, b: bool(a < b))

    def __le__(self, o):
        return self._bin(o, lambda a, b: bool(a <= b))

    def __gt__(self, o):
        return self._bin(o, lambda a, b: bool(a > b))

    def __ge__(self, o):
        return self._bin(o, lambda a, b: bool(a >= b))

    def __matmul__(self, o):
        return matmul(self, o)

    dot = __matmul__

    # ---- reductions
    def sum(self, axis=None):
        return np_sum(self, axis=axis)

    def max(self, axis=None):
        return np_reduce(self, max, axis)

    def min(self, axis=None):
        return np_reduce(self, min, axis)

    def any(self):
        return any(self.flat)

    def all(self):
        return all(self.flat)

    def nonzero(self):
        return np_nonzero(self)

    def mean(self, axis=None):
        if axis is None:
            return Fr(np_sum(self)) / self.size
        tot = np_sum(self, axis=axis)
        return tot / (self.shape[0] if axis in (0, -2) or self.ndim == 1 else self.shape[1])

    def var(self, axis=None):
        def var1(vs):
            m = sum(Fr(v) for v in vs) / len(vs)
            return sum((Fr(v) - m) ** 2 for v in vs) / len(vs)
        if axis is None or self.ndim == 1:
            return var1(self.flat)
        rows = self.tolist()
        return XA([var1(col) for col in zip(*rows)]) if axis in (0, -2) else XA([var1(r) for r in rows])

    def std(self, axis=None):
        """exact where the variance is a perfect square (zero in particular), the float square root otherwise"""
        def sq(v):
            try:
                return _sqrt(v)
            except AnalysisError:
                return Fr(float(v) ** 0.5)
        v = self.var(axis)
        return XA(shape=v.shape, flat=[sq(x) for x in v.flat]) if isinstance(v, XA) else sq(v)

    def argsort(self, *a, **k):
        return np_argsort(self)

    def conj(self):
        return self

    conjugate = conj

    @property
    def dtype(self):
        return "exact"

    def take(self, indices, axis=None):
        if axis is not None:
            raise AnalysisError("take along an axis")
        idx = asx(indices)
        flat = self.flat
        return XA(shape=idx.shape, flat=[flat[self._pos(int(_num(i)), len(flat))] for i in idx.flat])

    def tobytes(self):
        """a hashable key of the content (the analysed code uses the bytes of a row as a dictionary key)"""
        return ("bytes", self.shape, tuple(self.flat))


def asx(x):
    if isinstance(x, XA):
        return x
    if isinstance(x, (list, tuple)):
        return XA(list(x))
    if isinstance(x, (bool, int, float, Fr)):
        return XA(shape=(), flat=[_num(x)])
    if isinstance(x, XS):
        raise AnalysisError("a sparse matrix where a dense array is expected")
    raise AnalysisError(f"{x!r} is not array-like")


def np_array(x, dtype=None, **k):
    a = asx(x)
    return a.copy() if a is x else a


def np_nonzero(x):
    a = asx(x)
    if a.ndim == 1:
        return (XA(shape=(sum(1 for v in a.flat if v),), flat=[i for i, v in enumerate(a.flat) if v]),)
    if a.ndim == 2:
        c = a.shape[1]
        hits = [i for i, v in enumerate(a.flat) if v]
        return (XA(shape=(len(hits),), flat=[h // c for h in hits]), XA(shape=(len(hits),), flat=[h % c for h in hits]))
    raise AnalysisError("nonzero of a 0-d array")


def np_where(cond, *rest):
    if rest:
        if len(rest) != 2:
            raise AnalysisError("np.where with two arguments")
        c, a, b = asx(cond), rest[0], rest[1]
        pick = lambda src_, i: src_.flat[i] if isinstance(src_, XA) and src_.size > 1 else (_num(src_))   # noqa: E731
        return XA(shape=c.shape, flat=[pick(a, i) if m else pick(b, i) for i, m in enumerate(c.flat)])
    return np_nonzero(cond)


def np_sum(x, axis=None, **k):
    a = asx(x)
    if axis is None:
        s = 0
        for v in a.flat:
            s = s + (int(v) if isinstance(v, bool) else v)
        return s
    if a.ndim != 2:
        raise AnalysisError("sum along an axis of a 1-d array")
    r, c = a.shape
    rows = a.tolist()
    if axis in (0, -2):
        return XA([sum(int(rows[i][j]) if isinstance(rows[i][j], bool) else rows[i][j] for i in range(r)) for j in range(c)])
    return XA([sum(int(v) if isinstance(v, bool) else v for v in row) for row in rows])


def np_reduce(x, f, axis=None):
    a = asx(x)
    if axis is None:
        if not a.flat:
            raise ValueError("reduction of an empty array")
        return f(a.flat)
    rows = a.tolist()
    if axis in (0, -2):
        return XA([f(col) for col in zip(*rows)])
    return XA([f(row) for row in rows])


def np_all(x, axis=None):
    a = asx(x)
    if axis is None:
        return all(a.flat)
    return np_reduce(a, lambda vs: all(vs), axis)


def np_any(x, axis=None):
    a = asx(x)
    if axis is None:
        return any(a.flat)
    return np_reduce(a, lambda vs: any(vs), axis)


def _sqrt(v):
    from math import isqrt
    v = Fr(v)
    if v < 0:
        raise ValueError("square root of a negative number")
    n, d = isqrt(v.numerator), isqrt(v.denominator)
    if n * n != v.numerator or d * d != v.denominator:
        raise AnalysisError(f"square root of {v} is not rational (the exact array model needs perfect squares)")
    return Fr(n, d) if d != 1 else n


def np_sqrt(x):
    if isinstance(x, (int, float, Fr)):
        return _sqrt(_num(x))
    a = asx(x)
    return XA(shape=a.shape, flat=[_sqrt(v) for v in a.flat])


def np_allclose(a, b, rtol=1e-05, atol=1e-08, **k):
    d = abs(asx(a) - b)
    bb = asx(b)
    lim = [Fr(atol) + Fr(rtol) * abs(Fr(v)) for v in (bb.flat if bb.size == d.size else list(bb.flat) * d.size)]
    return all(Fr(x) <= l_ for x, l_ in zip(d.flat, lim))


def np_argsort(x, *a, **k):
    v = asx(x)
    if v.ndim != 1:
        raise AnalysisError("argsort of a 2-d array")
    return XA(sorted(range(v.size), key=lambda i: (v.flat[i], i)))


def np_diag(x, k=0):
    a = asx(x)
    if k != 0:
        raise AnalysisError("off-diagonal np.diag")
    if a.ndim == 2:
        r, c = a.shape
        return XA([a.flat[i * c + i] for i in range(min(r, c))])
    n = a.size
    return XA(shape=(n, n), flat=[a.flat[i] if i == j else 0 for i in range(n) for j in range(n)])


def np_diff(x, *a, **k):
    v = asx(x)
    if v.ndim != 1 or a or k:
        raise AnalysisError("np.diff beyond first differences of a vector")
    return XA([v.flat[i + 1] - v.flat[i] for i in range(v.size - 1)])


def np_unique(x, axis=None, return_inverse=False, return_index=False, return_counts=False):
    a = asx(x)
    if axis is None:
        items = list(a.flat)
        mk = lambda us: XA(list(us))       # noqa: E731
    elif axis == 0 and a.ndim == 2:
        items = [tuple(r) for r in a.tolist()]
        mk = lambda us: XA(shape=(len(us), a.shape[1]), flat=[v for r in us for v in r])       # noqa: E731
    elif axis == 0 and a.ndim == 1:
        items = list(a.flat)
        mk = lambda us: XA(list(us))       # noqa: E731
    else:
        raise AnalysisError(f"np.unique(axis={axis}) of an array of shape {a.shape}")
    us = sorted(set(items))
    out = [mk(us)]
    if return_index:
        out.append(XA([items.index(u) for u in us]))
    if return_inverse:
        pos = {u: i for i, u in enumerate(us)}
        out.append(XA([pos[i] for i in items]))
    if return_counts:
        out.append(XA([items.count(u) for u in us]))
    return out[0] if len(out) == 1 else tuple(out)


def np_roll(x, shift, axis=None):
    a = asx(x)
    shift = int(shift)
    if a.ndim == 1 and axis in (None, 0, -1):
        n = a.size
        return XA([a.flat[(i - shift) % n] for i in range(n)]) if n else a.copy()
    if a.ndim == 2 and axis in (1, -1):
        r, c = a.shape
        if c == 0:
            return a.copy()
        return XA(shape=(r, c), flat=[a.flat[i * c + (j - shift) % c] for i in range(r) for j in range(c)])
    if a.ndim == 2 and axis in (0, -2):
        return np_roll(a.T, shift, axis=1).T
    raise AnalysisError(f"np.roll(axis={axis}) of an array of shape {a.shape}")


def coo_matrix(arg, shape=None, dtype=None, **k):
    """scipy.sparse.coo_matrix((data, (rows, cols))) / csr_matrix(...): entries at equal positions are summed"""
    if not (isinstance(arg, tuple) and len(arg) == 2 and isinstance(arg[1], tuple) and len(arg[1]) == 2):
        raise AnalysisError("sparse matrix constructor other than (data, (rows, cols))")
    data, (ri, ci) = arg
    data, ri, ci = list(asx(data).flat), [int(v) for v in asx(ri).flat], [int(v) for v in asx(ci).flat]
    if not (len(data) == len(ri) == len(ci)):
        raise ValueError("row, column, and data array must all be the same length")
    acc = {}
    for v, i, j in zip(data, ri, ci):
        acc[(i, j)] = acc.get((i, j), 0) + v
    if shape is None:
        shape = (max(ri) + 1 if ri else 0, max(ci) + 1 if ci else 0)
    return XS(shape, [(i, j, v) for (i, j), v in acc.items()], "csr")


def sparse_namespace():
    return Sym("scipy.sparse", coo_matrix=coo_matrix, csr_matrix=coo_matrix, csc_matrix=lambda *a, **k: coo_matrix(*a, **k).tocsc(), issparse=lambda x: isinstance(x, XS))


def np_concatenate(seq, axis=0, **k):
    parts = [asx(p) for p in seq]
    if axis is None:
        flat = [v for p in parts for v in p.flat]
        return XA(shape=(len(flat),), flat=flat)
    if not parts:
        raise ValueError("need at least one array to concatenate")
    nd = parts[0].ndim
    if any(p.ndim != nd for p in parts):
        raise ValueError(f"all the input arrays must have the same number of dimensions: {[p.shape for p in parts]}")
    if nd == 1:
        if axis not in (0, -1):
            raise ValueError("axis out of bounds")
        flat = [v for p in parts for v in p.flat]
        return XA(shape=(len(flat),), flat=flat)
    if nd != 2:
        raise ValueError("zero-dimensional arrays cannot be concatenated")
    if axis in (0, -2):
        c = parts[0].shape[1]
        if any(p.shape[1] != c for p in parts):
            raise ValueError(f"concatenation along axis 0 of shapes {[p.shape for p in parts]}")
        flat = [v for p in parts for v in p.flat]
        return XA(shape=(sum(p.shape[0] for p in parts), c), flat=flat)
    r = parts[0].shape[0]
    if any(p.shape[0] != r for p in parts):
        raise ValueError(f"concatenation along axis 1 of shapes {[p.shape for p in parts]}")
    rows = [[v for p in parts for v in p.tolist()[i]] for i in range(r)]
    return XA(shape=(r, sum(p.shape[1] for p in parts)), flat=[v for row in rows for v in row])


def np_hstack(seq):
    parts = [asx(p) for p in seq]
    return np_concatenate(parts, axis=0 if parts and parts[0].ndim == 1 else 1)


def np_vstack(seq):
    parts = [asx(p) for p in seq]
    parts = [p.reshape(1, -1) if p.ndim == 1 else p for p in parts]
    return np_concatenate(parts, axis=0)


def np_stack(seq, axis=0):
    parts = [asx(p) for p in seq]
    if any(p.ndim != 1 for p in parts):
        raise AnalysisError("np.stack of non-vectors")
    a = np_vstack(parts)
    return a if axis == 0 else a.T


def matmul(a, b):
    a, b = asx(a), asx(b)
    if a.ndim != 2 or b.ndim != 2 or a.shape[1] != b.shape[0]:
        raise AnalysisError(f"matrix product of shapes {a.shape} and {b.shape}")
    A, B = a.tolist(), b.tolist()
    return XA([[sum(A[i][k] * B[k][j] for k in range(a.shape[1])) for j in range(b.shape[1])] for i in range(a.shape[0])])


def _full(shape, v):
    shape = (int(shape),) if not isinstance(shape, (tuple, list)) else tuple(int(s) for s in shape)
    n = 1
    for s in shape:
        n *= s
    return XA(shape=shape, flat=[v] * n)


def namespace(**extra):
    """the stand-in of the numpy module"""
    def unknown(text):
        raise AnalysisError(f"np.{text[:60]} is not part of the exact array model")
    ns = OpenSym("np", make=unknown,
                 array=np_array, asarray=lambda x, *a, **k: asx(x), nonzero=np_nonzero, flatnonzero=lambda x: np_nonzero(asx(x).flatten())[0], where=np_where,
                 sum=np_sum, count_nonzero=lambda x: sum(1 for v in asx(x).flat if v), amax=lambda x, axis=None: np_reduce(x, max, axis), max=lambda x, axis=None: np_reduce(x, max, axis),
                 amin=lambda x, axis=None: np_reduce(x, min, axis), min=lambda x, axis=None: np_reduce(x, min, axis), abs=lambda x: abs(asx(x)) if not isinstance(x, (int, float, Fr)) else abs(_num(x)),
                 absolute=lambda x: abs(asx(x)), argsort=np_argsort, diag=np_diag, diagonal=lambda x: np_diag(x), diff=np_diff, concatenate=np_concatenate, hstack=np_hstack, vstack=np_vstack,
                 unique=np_unique, roll=np_roll, outer=lambda a, b: XA([[x * y for y in asx(b).flat] for x in asx(a).flat]), stack=np_stack, column_stack=lambda seq: np_concatenate([asx(p).reshape(-1, 1) if asx(p).ndim == 1 else asx(p) for p in seq], axis=1),
                 ones=lambda s, *a, **k: _full(s, 1), zeros=lambda s, *a, **k: _full(s, 0), full=lambda s, v, *a, **k: _full(s, _num(v)), arange=lambda *a: XA(list(range(*[int(x) for x in a]))),
                 any=np_any, all=np_all, sqrt=np_sqrt, allclose=np_allclose, isclose=lambda a, b, **k: XA(shape=asx(a).shape, flat=[np_allclose(v, b, **k) for v in asx(a).flat]),
                 mean=lambda x, axis=None: asx(x).mean(axis), std=lambda x, axis=None: asx(x).std(axis), var=lambda x, axis=None: asx(x).var(axis), logical_not=lambda x: ~asx(x), logical_and=lambda a, b: asx(a) & asx(b), logical_or=lambda a, b: asx(a) | asx(b),
                 iinfo=lambda t: Sym("iinfo", max={"uint16": 2 ** 16 - 1, "uint32": 2 ** 32 - 1, "int32": 2 ** 31 - 1, "int64": 2 ** 63 - 1}.get(t, 2 ** 63 - 1), min=0),
                 uint16="uint16", uint32="uint32", int32="int32", int64="int64", float64="float64", intp="int64", bool_="bool", newaxis=None, ndarray="np.ndarray",
                 matmul=matmul, dot=matmul, transpose=lambda x: asx(x).T, ravel=lambda x: asx(x).flatten(), atleast_2d=lambda x: asx(x) if asx(x).ndim == 2 else asx(x).reshape(1, -1),
                 isscalar=lambda x: isinstance(x, (int, float, Fr)), squeeze=lambda x: XA(shape=tuple(s for s in asx(x).shape if s != 1), flat=asx(x).flat),
                 argmax=lambda x: max(range(asx(x).size), key=lambda i: (asx(x).flat[i], -i)))
    ns.__dict__.update(extra)
    return ns


# ------------------------------------------------------------------------------------------ compressed sparse matrix
class XS(Sym):
    """sparse matrix in compressed-row (or compressed-column) form: `indptr`, `indices`, `data` are live exact arrays as in scipy (explicit zeros stay stored until
    eliminate_zeros)"""
    def __init__(self, shape, entries, fmt="csr"):
        """entries: list of (row, col, value), any order, no duplicates"""
        super().__init__(f"{fmt}_matrix")
        self.shape, self.format = (int(shape[0]), int(shape[1])), fmt
        major = (lambda e: (e[0], e[1])) if fmt == "csr" else (lambda e: (e[1], e[0]))
        ents = sorted(entries, key=major)
        nmaj = self.shape[0] if fmt == "csr" else self.shape[1]
        ptr = [0] * (nmaj + 1)
        for e in ents:
            ptr[major(e)[0] + 1] += 1
        for i in range(nmaj):
            ptr[i + 1] += ptr[i]
        self.indptr = XA(ptr)
        self.indices = XA([major(e)[1] for e in ents]) if ents else XA(shape=(0,), flat=[])
        self.data = XA([_num(e[2]) for e in ents]) if ents else XA(shape=(0,), flat=[])

    def entries(self):
        out = []
        nmaj = len(self.indptr) - 1
        for m in range(nmaj):
            for p in range(self.indptr.flat[m], self.indptr.flat[m + 1]):
                n_, v = self.indices.flat[p], self.data.flat[p]
                out.append((m, n_, v) if self.format == "csr" else (n_, m, v))
        return out

    @property
    def nnz(self):
        return self.data.size

    def tocsr(self, copy=False):
        return self if self.format == "csr" and not copy else XS(self.shape, self.entries(), "csr")

    def tocsc(self, copy=False):
        return self if self.format == "csc" and not copy else XS(self.shape, self.entries(), "csc")

    def tocoo(self, copy=False):
        rows, cols, vals = zip(*sorted(self.entries())) if self.nnz else ((), (), ())
        return Sym("coo_matrix", row=XA(list(rows)), col=XA(list(cols)), data=XA(list(vals)), shape=self.shape)

    def copy(self):
        return XS(self.shape, self.entries(), self.format)

    def toarray(self):
        r, c = self.shape
        flat = [0] * (r * c)
        for i, j, v in self.entries():
            flat[i * c + j] = flat[i * c + j] + v
        return XA(shape=(r, c), flat=flat)

    todense = toarray

    @property
    def A(self):
        return self.toarray()

    @property
    def T(self):
        return XS((self.shape[1], self.shape[0]), [(j, i, v) for i, j, v in self.entries()], "csc" if self.format == "csr" else "csr")

    def transpose(self):
        return self.T

    def eliminate_zeros(self):
        keep = [e for e in self.entries() if e[2] != 0]
        new = XS(self.shape, keep, self.format)
        self.indptr, self.indices, self.data = new.indptr, new.indices, new.data

    def nonzero(self):
        ents = sorted((i, j) for i, j, v in self.entries() if v != 0)
        return XA([e[0] for e in ents]) if ents else XA(shape=(0,), flat=[]), XA([e[1] for e in ents]) if ents else XA(shape=(0,), flat=[])

    def getrow(self, i):
        return self[int(i), :]

    def getcol(self, j):
        return self[:, int(j)]

    def getnnz(self, axis=None):
        if axis is None:
            return self.nnz
        cnt = [0] * self.shape[1 - axis]
        for e in self.entries():
            cnt[e[1 - axis]] += 1
        return XA(cnt)

    def sum(self, axis=None):
        return self.toarray().sum(axis=axis)

    def __getitem__(self, k):
        if not (isinstance(k, tuple) and len(k) == 2):
            if hasattr(k, "__index__"):
                k = (k, slice(None))
            else:
                raise AnalysisError(f"sparse index {k!r} is not modelled")
        dense = self.toarray()
        a, b = k
        scalar = [hasattr(x, "__index__") and not isinstance(x, XA) or (isinstance(x, XA) and x.ndim == 0) for x in (a, b)]
        if all(scalar):
            return dense[int(a), int(b)]
        # scipy keeps two dimensions: an integer index along one axis selects a 1 x n / n x 1 sub-matrix
        ra = [int(a)] if scalar[0] else a
        cb = [int(b)] if scalar[1] else b
        adv = [isinstance(x, (XA, list, tuple)) for x in (a, b)]
        if all(adv):
            vals = dense[a, b]
            return _Sub(vals.reshape(1, -1))
        sub = dense[ra if not isinstance(ra, slice) else ra, :]
        sub = sub[:, cb if not isinstance(cb, slice) else cb]
        return _Sub(sub)

    def __repr__(self):
        return f"{self.format}{self.entries()}"


class _Sub(Sym):
    """sub-matrix selected from a sparse matrix (still sparse in scipy): only conversions to a dense array are modelled"""
    def __init__(self, dense):
        super().__init__("sparse sub-matrix")
        self.dense, self.shape = dense, dense.shape

    def toarray(self):
        return self.dense

    todense = toarray

    @property
    def A(self):
        return self.dense

    @property
    def data(self):
        return XA([v for v in self.dense.flat if v != 0])

    def nonzero(self):
        return np_nonzero(self.dense)

    def sum(self, axis=None):
        return self.dense.sum(axis=axis)


# ------------------------------------------------------------------------------------------ object arrays (symbolic operator matrices)
class ObjGrid(Sym):
    """two-dimensional object array (np.full(shape, None) / np.empty(shape, dtype=object)): cells hold arbitrary objects; a row taken with g[i] is a live view"""
    _is_ndarray = True

    def __init__(self, shape, fill=None):
        super().__init__("object array")
        self.shape = (int(shape[0]), int(shape[1]))
        self.cells = {(i, j): fill for i in range(self.shape[0]) for j in range(self.shape[1])}

    @property
    def ndim(self):
        return 2

    def _key(self, k):
        i, j = (int(k[0]), int(k[1]))
        i, j = i % self.shape[0] if -self.shape[0] <= i < self.shape[0] else i, j % self.shape[1] if -self.shape[1] <= j < self.shape[1] else j
        if (i, j) not in self.cells:
            raise IndexError(f"index {k} is out of bounds for an array of shape {self.shape}")
        return (i, j)

    def __getitem__(self, k):
        if isinstance(k, tuple) and len(k) == 2 and all(hasattr(x, "__index__") for x in k):
            return self.cells[self._key(k)]
        if hasattr(k, "__index__"):
            return _GridRow(self, int(k))
        raise AnalysisError(f"object-array index {k!r} is not modelled")

    def __setitem__(self, k, v):
        if isinstance(k, tuple) and len(k) == 2 and all(hasattr(x, "__index__") for x in k):
            self.cells[self._key(k)] = v
            return
        raise AnalysisError(f"object-array assignment at {k!r} is not modelled")

    def __len__(self):
        return self.shape[0]

    def __iter__(self):
        return iter([_GridRow(self, i) for i in range(self.shape[0])])

    def ndenumerate(self):
        return [(k, self.cells[k]) for k in sorted(self.cells)]

    def tolist(self):
        return [[self.cells[(i, j)] for j in range(self.shape[1])] for i in range(self.shape[0])]


class _GridRow(Sym):
    def __init__(self, grid, i):
        super().__init__("row of an object array")
        self.grid, self.i = grid, i
        self.shape = (grid.shape[1],)

    def __getitem__(self, j):
        return self.grid[(self.i, j)]

    def __setitem__(self, j, v):
        self.grid[(self.i, j)] = v

    def __len__(self):
        return self.grid.shape[1]

    def __iter__(self):
        return iter([self.grid[(self.i, j)] for j in range(self.grid.shape[1])])
