"""XNP - a small exact model of the array operations the table code of the operator builders uses: dense arrays of at most two dimensions over exact numbers
(int / Fraction / bool) and a compressed sparse matrix.  The analysed function is interpreted from its source by SymInterp with these objects in the place of numpy / scipy
arrays; every operation the model does not know stops the analysis (AnalysisError), it never guesses.  Index semantics follow numpy: an integer removes an axis, a slice keeps
it, an integer or boolean array selects along its axis, two index arrays select element-wise pairs, None inserts an axis; reshape / flatten are row-major."""
from fractions import Fraction as Fr

from .src import AnalysisError
from .syminterp import Sym, OpenSym


def _num(x):
    if isinstance(x, (bool, int, Fr)):
        return x
    if isinstance(x, float):
        return Fr(x)          # binary floats are exact rationals
    if isinstance(x, XA) and x.shape == ():
        return x.flat[0]
    if hasattr(x, "__index__"):
        return int(x)
    raise AnalysisError(f"array element {x!r} is not an exact number")


def _shape_of(x):
    if isinstance(x, XA):
        return x.shape
    if isinstance(x, (list, tuple)):
        if not x:
            return (0,)
        sub = [_shape_of(e) for e in x]
        if any(s != sub[0] for s in sub):
            raise AnalysisError(f"ragged nested sequence {str(x)[:60]}")
        return (len(x),) + sub[0]
    return ()


def _flatten(x):
    if isinstance(x, XA):
        return list(x.flat)
    if isinstance(x, (list, tuple)):
        out = []
        for e in x:
            out.extend(_flatten(e))
        return out
    return [_num(x)]


class XA(Sym):
    """exact array: shape (tuple, at most 2 axes) and the elements in row-major order"""
    _is_ndarray = True

    def __init__(self, data=None, shape=None, flat=None):
        super().__init__("array")
        if flat is None:
            shape = _shape_of(data)
            flat = _flatten(data)
        if len(shape) > 2:
            raise AnalysisError(f"array of {len(shape)} axes is not modelled")
        n = 1
        for s in shape:
            n *= s
        if n != len(flat):
            raise AnalysisError(f"shape {shape} does not hold {len(flat)} elements")
        self.__dict__["shape"] = tuple(int(s) for s in shape)
        self.__dict__["flat"] = list(flat)

    # ---- meta
    @property
    def ndim(self):
        return len(self.shape)

    @property
    def size(self):
        return len(self.flat)

    @property
    def T(self):
        if self.ndim < 2:
            return self
        r, c = self.shape
        return XA(shape=(c, r), flat=[self.flat[i * c + j] for j in range(c) for i in range(r)])

    @property
    def A(self):
        return self

    @property
    def A1(self):
        return self.flatten()

    def __len__(self):
        if not self.shape:
            raise AnalysisError("len() of a 0-d array")
        return self.shape[0]

    def __iter__(self):
        if not self.shape:
            raise AnalysisError("iteration over a 0-d array")
        return iter([self[i] for i in range(self.shape[0])])

    def __repr__(self):
        return f"array{self.tolist()}"

    def __index__(self):
        if self.size == 1 and isinstance(self.flat[0], int):
            return int(self.flat[0])
        raise AnalysisError(f"{self!r} used as an index")

    def __bool__(self):
        if self.size == 1:
            return bool(self.flat[0])
        raise AnalysisError("truth value of an array with more than one element")

    def __hash__(self):
        return id(self)

    def tolist(self):
        if self.ndim == 0:
            return self.flat[0]
        if self.ndim == 1:
            return list(self.flat)
        c = self.shape[1]
        return [self.flat[i * c:(i + 1) * c] for i in range(self.shape[0])]

    def item(self):
        if self.size != 1:
            raise AnalysisError("item() of an array with more than one element")
        return self.flat[0]

    # ---- shape changes (row-major)
    def reshape(self, *shape):
        if len(shape) == 1 and isinstance(shape[0], (tuple, list)):
            shape = tuple(shape[0])
        shape = [int(s) for s in shape]
        if shape.count(-1) > 1:
            raise AnalysisError("reshape with more than one -1")
        if -1 in shape:
            known = 1
            for s in shape:
                if s != -1:
                    known *= s
            if known == 0 or self.size % known:
                raise AnalysisError(f"cannot reshape {self.shape} into {shape}")
            shape[shape.index(-1)] = self.size // known
        return XA(shape=tuple(shape), flat=self.flat)

    def flatten(self, *a):
        return XA(shape=(self.size,), flat=self.flat)

    ravel = flatten

    def copy(self):
        return XA(shape=self.shape, flat=self.flat)

    def astype(self, *a, **k):
        return self.copy()

    def toarray(self):
        return self

    todense = toarray

    # ---- indexing
    def _axis_sel(self, k, n):
        """selection along one axis of length n: (list of positions, keeps the axis?)"""
        if isinstance(k, slice):
            return list(range(n))[k], True
        if isinstance(k, XA) and k.ndim == 0:
            k = k.flat[0]
        if isinstance(k, (XA, list, tuple)):
            k = k if isinstance(k, XA) else XA(list(k))
            if k.ndim != 1:
                raise AnalysisError(f"index array of shape {k.shape} along one axis is not modelled")
            if k.size and all(isinstance(x, bool) for x in k.flat):
                if k.size != n:
                    raise IndexError(f"boolean index of length {k.size} along an axis of length {n}")
                return [i for i, m in enumerate(k.flat) if m], True
            return [self._pos(int(_num(x)), n) for x in k.flat], True
        if isinstance(k, bool):
            raise AnalysisError("boolean scalar index")
        if hasattr(k, "__index__") or isinstance(k, Fr):
            return [self._pos(int(k), n)], False
        raise AnalysisError(f"index {k!r} is not modelled")

    @staticmethod
    def _pos(i, n):
        if not -n <= i < n:
            raise IndexError(f"index {i} is out of bounds for an axis of length {n}")
        return i % n

    def _normalise_key(self, k):
        ks = list(k) if isinstance(k, tuple) else [k]
        if Ellipsis in ks:
            i = ks.index(Ellipsis)
            ks[i:i + 1] = [slice(None)] * (self.ndim - (len([x for x in ks if x is not None]) - 1))
        return ks

    def __getitem__(self, k):
        ks = self._normalise_key(k)
        # a 2-d boolean mask over a 2-d array
        if len(ks) == 1 and isinstance(ks[0], XA) and ks[0].ndim == 2 and self.ndim == 2:
            m = ks[0]
            if m.shape != self.shape or not all(isinstance(x, bool) for x in m.flat):
                # a 2-d integer index array along the first axis of a 1-d array is handled below; along a 2-d array it is not modelled
                raise AnalysisError(f"index array of shape {m.shape} into an array of shape {self.shape}")
            return XA(shape=(sum(m.flat),), flat=[v for v, b in zip(self.flat, m.flat) if b])
        if len(ks) == 1 and isinstance(ks[0], XA) and ks[0].ndim == 2 and self.ndim == 1:
            idx = ks[0]
            return XA(shape=idx.shape, flat=[self.flat[self._pos(int(_num(i)), self.shape[0])] for i in idx.flat])
        newaxes = [i for i, x in enumerate(ks) if x is None]
        core = [x for x in ks if x is not None]
        if len(core) > self.ndim:
            raise IndexError(f"too many indices for an array of {self.ndim} axes")
        core += [slice(None)] * (self.ndim - len(core))
        if self.ndim == 0:
            out = self
        elif self.ndim == 1:
            sel, keep = self._axis_sel(core[0], self.shape[0])
            vals = [self.flat[i] for i in sel]
            out = XA(shape=(len(vals),), flat=vals) if keep else vals[0]
        else:
            r, c = self.shape
            adv = [isinstance(x, (XA, list, tuple)) and not (isinstance(x, XA) and x.ndim == 0) for x in core]
            if all(adv):
                a, _ = self._axis_sel(core[0], r)
                b, _ = self._axis_sel(core[1], c)
                if len(a) != len(b):
                    if len(a) == 1:
                        a = a * len(b)
                    elif len(b) == 1:
                        b = b * len(a)
                    else:
                        raise IndexError(f"index arrays of lengths {len(a)} and {len(b)} cannot be broadcast")
                out = XA(shape=(len(a),), flat=[self.flat[i * c + j] for i, j in zip(a, b)])
            else:
                a, ka = self._axis_sel(core[0], r)
                b, kb = self._axis_sel(core[1], c)
                vals = [self.flat[i * c + j] for i in a for j in b]
                if ka and kb:
                    out = XA(shape=(len(a), len(b)), flat=vals)
                elif ka or kb:
                    out = XA(shape=(len(vals),), flat=vals)
                else:
                    out = vals[0]
        if newaxes:
            if not isinstance(out, XA):
                out = XA(shape=(), flat=[out])
            shape = list(out.shape)
            # positions of None in the key, counted among the axes that survive
            kept = 0
            inserts = []
            for x in ks:
                if x is None:
                    inserts.append(kept + len(inserts))
                elif isinstance(x, slice) or isinstance(x, (XA, list, tuple)):
                    kept += 1
            for p in inserts:
                shape.insert(p, 1)
            out = XA(shape=tuple(shape), flat=out.flat)
        return out

    def __setitem__(self, k, v):
        ks = self._normalise_key(k)
        if any(x is None for x in ks):
            raise AnalysisError("assignment through an inserted axis")
        ks += [slice(None)] * (self.ndim - len(ks))
        if len(ks) == 1 and isinstance(ks[0], XA) and ks[0].ndim == 2:
            pos = [i for i, b in enumerate(ks[0].flat) if b]
        elif self.ndim == 1:
            pos, _ = self._axis_sel(ks[0], self.shape[0])
        elif self.ndim == 2:
            r, c = self.shape
            a, _ = self._axis_sel(ks[0], r)
            b, _ = self._axis_sel(ks[1], c)
            adv = [isinstance(x, (XA, list, tuple)) for x in ks]
            pos = [i * c + j for i, j in zip(a, b)] if all(adv) else [i * c + j for i in a for j in b]
        else:
            pos = [0]
        vals = _flatten(v)
        if len(vals) == 1:
            vals = vals * len(pos)
        if len(vals) != len(pos):
            raise ValueError(f"cannot assign {len(vals)} values to {len(pos)} positions")
        for p, x in zip(pos, vals):
            self.flat[p] = x

    # ---- element-wise arithmetic
    def _bin(self, o, f):
        if isinstance(o, (list, tuple)):
            o = XA(list(o))
        if isinstance(o, XA):
            if o.shape == self.shape:
                return XA(shape=self.shape, flat=[f(a, b) for a, b in zip(self.flat, o.flat)])
            if o.size == 1:
                return XA(shape=self.shape, flat=[f(a, o.flat[0]) for a in self.flat])
            if self.size == 1:
                return XA(shape=o.shape, flat=[f(self.flat[0], b) for b in o.flat])
            if self.ndim == 2 and o.ndim == 1 and o.shape[0] == self.shape[1]:
                c = self.shape[1]
                return XA(shape=self.shape, flat=[f(a, o.flat[i % c]) for i, a in enumerate(self.flat)])
            if self.ndim == 2 and o.ndim == 2 and o.shape == (self.shape[0], 1):
                c = self.shape[1]
                return XA(shape=self.shape, flat=[f(a, o.flat[i // c]) for i, a in enumerate(self.flat)])
            raise AnalysisError(f"broadcast of shapes {self.shape} and {o.shape} is not modelled")
        if isinstance(o, (bool, int, float, Fr)):
            o = _num(o)
            return XA(shape=self.shape, flat=[f(a, o) for a in self.flat])
        return NotImplemented

    def __add__(self, o):
        return self._bin(o, lambda a, b: a + b)

    __radd__ = __add__

    def __sub__(self, o):
        return self._bin(o, lambda a, b: a - b)

    def __rsub__(self, o):
        return self._bin(o, lambda a, b: b - a)

    def __mul__(self, o):
        return self._bin(o, lambda a, b: a * b)

    __rmul__ = __mul__

    def __truediv__(self, o):
        return self._bin(o, lambda a, b: Fr(a) / b)

    def __rtruediv__(self, o):
        return self._bin(o, lambda a, b: Fr(b) / a)

    def __floordiv__(self, o):
        return self._bin(o, lambda a, b: a // b)

    def __mod__(self, o):
        return self._bin(o, lambda a, b: a % b)

    def __neg__(self):
        return XA(shape=self.shape, flat=[-a for a in self.flat])

    def __abs__(self):
        return XA(shape=self.shape, flat=[abs(a) for a in self.flat])

    def __invert__(self):
        if not all(isinstance(a, bool) for a in self.flat):
            raise AnalysisError("~ of a non-boolean array")
        return XA(shape=self.shape, flat=[not a for a in self.flat])

    def __and__(self, o):
        return self._bin(o, lambda a, b: bool(a) and bool(b))

    def __or__(self, o):
        return self._bin(o, lambda a, b: bool(a) or bool(b))

    def __eq__(self, o):
        return self._bin(o, lambda a, b: bool(a == b))

    def __ne__(self, o):
        return self._bin(o, lambda a, b: bool(a != b))

    def __lt__(self, o):
        return self._bin(o, lambda a, b: bool(a < b))

    def __le__(self, o):
        return self._bin(o, lambda a, b: bool(a <= b))

    def __gt__(self, o):
        return self._bin(o, lambda a, b: bool(a > b))

    def __ge__(self, o):
        return self._bin(o, lambda a, b: bool(a >= b))

    def __matmul__(self, o):
        return matmul(self, o)

    dot = __matmul__

    # ---- reductions
    def sum(self, axis=None):
        return np_sum(self, axis=axis)

    def max(self, axis=None):
        return np_reduce(self, max, axis)

    def min(self, axis=None):
        return np_reduce(self, min, axis)

    def any(self):
        return any(self.flat)

    def all(self):
        return all(self.flat)

    def nonzero(self):
        return np_nonzero(self)

    def argsort(self, *a, **k):
        return np_argsort(self)

    def conj(self):
        return self

    conjugate = conj


def asx(x):
    if isinstance(x, XA):
        return x
    if isinstance(x, (list, tuple)):
        return XA(list(x))
    if isinstance(x, (bool, int, float, Fr)):
        return XA(shape=(), flat=[_num(x)])
    if isinstance(x, XS):
        raise AnalysisError("a sparse matrix where a dense array is expected")
    raise AnalysisError(f"{x!r} is not array-like")


def np_array(x, dtype=None, **k):
    a = asx(x)
    return a.copy() if a is x else a


def np_nonzero(x):
    a = asx(x)
    if a.ndim == 1:
        return (XA(shape=(sum(1 for v in a.flat if v),), flat=[i for i, v in enumerate(a.flat) if v]),)
    if a.ndim == 2:
        c = a.shape[1]
        hits = [i for i, v in enumerate(a.flat) if v]
        return (XA(shape=(len(hits),), flat=[h // c for h in hits]), XA(shape=(len(hits),), flat=[h % c for h in hits]))
    raise AnalysisError("nonzero of a 0-d array")


def np_where(cond, *rest):
    if rest:
        if len(rest) != 2:
            raise AnalysisError("np.where with two arguments")
        c, a, b = asx(cond), rest[0], rest[1]
        pick = lambda src_, i: src_.flat[i] if isinstance(src_, XA) and src_.size > 1 else (_num(src_))   # noqa: E731
        return XA(shape=c.shape, flat=[pick(a, i) if m else pick(b, i) for i, m in enumerate(c.flat)])
    return np_nonzero(cond)


def np_sum(x, axis=None, **k):
    a = asx(x)
    if axis is None:
        s = 0
        for v in a.flat:
            s = s + (int(v) if isinstance(v, bool) else v)
        return s
    if a.ndim != 2:
        raise AnalysisError("sum along an axis of a 1-d array")
    r, c = a.shape
    rows = a.tolist()
    if axis in (0, -2):
        return XA([sum(int(rows[i][j]) if isinstance(rows[i][j], bool) else rows[i][j] for i in range(r)) for j in range(c)])
    return XA([sum(int(v) if isinstance(v, bool) else v for v in row) for row in rows])


def np_reduce(x, f, axis=None):
    a = asx(x)
    if axis is None:
        if not a.flat:
            raise ValueError("reduction of an empty array")
        return f(a.flat)
    rows = a.tolist()
    if axis in (0, -2):
        return XA([f(col) for col in zip(*rows)])
    return XA([f(row) for row in rows])


def np_argsort(x, *a, **k):
    v = asx(x)
    if v.ndim != 1:
        raise AnalysisError("argsort of a 2-d array")
    return XA(sorted(range(v.size), key=lambda i: (v.flat[i], i)))


def np_diag(x, k=0):
    a = asx(x)
    if k != 0:
        raise AnalysisError("off-diagonal np.diag")
    if a.ndim == 2:
        r, c = a.shape
        return XA([a.flat[i * c + i] for i in range(min(r, c))])
    n = a.size
    return XA(shape=(n, n), flat=[a.flat[i] if i == j else 0 for i in range(n) for j in range(n)])


def np_diff(x, *a, **k):
    v = asx(x)
    if v.ndim != 1 or a or k:
        raise AnalysisError("np.diff beyond first differences of a vector")
    return XA([v.flat[i + 1] - v.flat[i] for i in range(v.size - 1)])


def np_concatenate(seq, axis=0, **k):
    parts = [asx(p) for p in seq]
    if axis is None:
        flat = [v for p in parts for v in p.flat]
        return XA(shape=(len(flat),), flat=flat)
    if not parts:
        raise ValueError("need at least one array to concatenate")
    nd = parts[0].ndim
    if any(p.ndim != nd for p in parts):
        raise ValueError(f"all the input arrays must have the same number of dimensions: {[p.shape for p in parts]}")
    if nd == 1:
        if axis not in (0, -1):
            raise ValueError("axis out of bounds")
        flat = [v for p in parts for v in p.flat]
        return XA(shape=(len(flat),), flat=flat)
    if nd != 2:
        raise ValueError("zero-dimensional arrays cannot be concatenated")
    if axis in (0, -2):
        c = parts[0].shape[1]
        if any(p.shape[1] != c for p in parts):
            raise ValueError(f"concatenation along axis 0 of shapes {[p.shape for p in parts]}")
        flat = [v for p in parts for v in p.flat]
        return XA(shape=(sum(p.shape[0] for p in parts), c), flat=flat)
    r = parts[0].shape[0]
    if any(p.shape[0] != r for p in parts):
        raise ValueError(f"concatenation along axis 1 of shapes {[p.shape for p in parts]}")
    rows = [[v for p in parts for v in p.tolist()[i]] for i in range(r)]
    return XA(shape=(r, sum(p.shape[1] for p in parts)), flat=[v for row in rows for v in row])


def np_hstack(seq):
    parts = [asx(p) for p in seq]
    return np_concatenate(parts, axis=0 if parts and parts[0].ndim == 1 else 1)


def np_vstack(seq):
    parts = [asx(p) for p in seq]
    parts = [p.reshape(1, -1) if p.ndim == 1 else p for p in parts]
    return np_concatenate(parts, axis=0)


def np_stack(seq, axis=0):
    parts = [asx(p) for p in seq]
    if any(p.ndim != 1 for p in parts):
        raise AnalysisError("np.stack of non-vectors")
    a = np_vstack(parts)
    return a if axis == 0 else a.T


def matmul(a, b):
    a, b = asx(a), asx(b)
    if a.ndim != 2 or b.ndim != 2 or a.shape[1] != b.shape[0]:
        raise AnalysisError(f"matrix product of shapes {a.shape} and {b.shape}")
    A, B = a.tolist(), b.tolist()
    return XA([[sum(A[i][k] * B[k][j] for k in range(a.shape[1])) for j in range(b.shape[1])] for i in range(a.shape[0])])


def _full(shape, v):
    shape = (int(shape),) if not isinstance(shape, (tuple, list)) else tuple(int(s) for s in shape)
    n = 1
    for s in shape:
        n *= s
    return XA(shape=shape, flat=[v] * n)


def namespace(**extra):
    """the stand-in of the numpy module"""
    def unknown(text):
        raise AnalysisError(f"np.{text[:60]} is not part of the exact array model")
    ns = OpenSym("np", make=unknown,
                 array=np_array, asarray=lambda x, *a, **k: asx(x), nonzero=np_nonzero, flatnonzero=lambda x: np_nonzero(asx(x).flatten())[0], where=np_where,
                 sum=np_sum, count_nonzero=lambda x: sum(1 for v in asx(x).flat if v), amax=lambda x, axis=None: np_reduce(x, max, axis), max=lambda x, axis=None: np_reduce(x, max, axis),
                 amin=lambda x, axis=None: np_reduce(x, min, axis), min=lambda x, axis=None: np_reduce(x, min, axis), abs=lambda x: abs(asx(x)) if not isinstance(x, (int, float, Fr)) else abs(_num(x)),
                 absolute=lambda x: abs(asx(x)), argsort=np_argsort, diag=np_diag, diagonal=lambda x: np_diag(x), diff=np_diff, concatenate=np_concatenate, hstack=np_hstack, vstack=np_vstack,
                 stack=np_stack, column_stack=lambda seq: np_concatenate([asx(p).reshape(-1, 1) if asx(p).ndim == 1 else asx(p) for p in seq], axis=1),
                 ones=lambda s, *a, **k: _full(s, 1), zeros=lambda s, *a, **k: _full(s, 0), full=lambda s, v, *a, **k: _full(s, _num(v)), arange=lambda *a: XA(list(range(*[int(x) for x in a]))),
                 any=lambda x: any(asx(x).flat), all=lambda x: all(asx(x).flat), logical_not=lambda x: ~asx(x), logical_and=lambda a, b: asx(a) & asx(b), logical_or=lambda a, b: asx(a) | asx(b),
                 iinfo=lambda t: Sym("iinfo", max={"uint16": 2 ** 16 - 1, "uint32": 2 ** 32 - 1, "int32": 2 ** 31 - 1, "int64": 2 ** 63 - 1}.get(t, 2 ** 63 - 1), min=0),
                 uint16="uint16", uint32="uint32", int32="int32", int64="int64", float64="float64", intp="int64", bool_="bool", newaxis=None, ndarray="np.ndarray",
                 matmul=matmul, dot=matmul, transpose=lambda x: asx(x).T, ravel=lambda x: asx(x).flatten(), atleast_2d=lambda x: asx(x) if asx(x).ndim == 2 else asx(x).reshape(1, -1),
                 isscalar=lambda x: isinstance(x, (int, float, Fr)), squeeze=lambda x: XA(shape=tuple(s for s in asx(x).shape if s != 1), flat=asx(x).flat),
                 argmax=lambda x: max(range(asx(x).size), key=lambda i: (asx(x).flat[i], -i)))
    ns.__dict__.update(extra)
    return ns


# ------------------------------------------------------------------------------------------ compressed sparse matrix
class XS(Sym):
    """sparse matrix in compressed-row (or compressed-column) form: `indptr`, `indices`, `data` are live exact arrays as in scipy (explicit zeros stay stored until
    eliminate_zeros)"""
    def __init__(self, shape, entries, fmt="csr"):
        """entries: list of (row, col, value), any order, no duplicates"""
        super().__init__(f"{fmt}_matrix")
        self.shape, self.format = (int(shape[0]), int(shape[1])), fmt
        major = (lambda e: (e[0], e[1])) if fmt == "csr" else (lambda e: (e[1], e[0]))
        ents = sorted(entries, key=major)
        nmaj = self.shape[0] if fmt == "csr" else self.shape[1]
        ptr = [0] * (nmaj + 1)
        for e in ents:
            ptr[major(e)[0] + 1] += 1
        for i in range(nmaj):
            ptr[i + 1] += ptr[i]
        self.indptr = XA(ptr)
        self.indices = XA([major(e)[1] for e in ents]) if ents else XA(shape=(0,), flat=[])
        self.data = XA([_num(e[2]) for e in ents]) if ents else XA(shape=(0,), flat=[])

    def entries(self):
        out = []
        nmaj = len(self.indptr) - 1
        for m in range(nmaj):
            for p in range(self.indptr.flat[m], self.indptr.flat[m + 1]):
                n_, v = self.indices.flat[p], self.data.flat[p]
                out.append((m, n_, v) if self.format == "csr" else (n_, m, v))
        return out

    @property
    def nnz(self):
        return self.data.size

    def tocsr(self, copy=False):
        return self if self.format == "csr" and not copy else XS(self.shape, self.entries(), "csr")

    def tocsc(self, copy=False):
        return self if self.format == "csc" and not copy else XS(self.shape, self.entries(), "csc")

    def tocoo(self, copy=False):
        rows, cols, vals = zip(*sorted(self.entries())) if self.nnz else ((), (), ())
        return Sym("coo_matrix", row=XA(list(rows)), col=XA(list(cols)), data=XA(list(vals)), shape=self.shape)

    def copy(self):
        return XS(self.shape, self.entries(), self.format)

    def toarray(self):
        r, c = self.shape
        flat = [0] * (r * c)
        for i, j, v in self.entries():
            flat[i * c + j] = flat[i * c + j] + v
        return XA(shape=(r, c), flat=flat)

    todense = toarray

    @property
    def A(self):
        return self.toarray()

    @property
    def T(self):
        return XS((self.shape[1], self.shape[0]), [(j, i, v) for i, j, v in self.entries()], "csc" if self.format == "csr" else "csr")

    def transpose(self):
        return self.T

    def eliminate_zeros(self):
        keep = [e for e in self.entries() if e[2] != 0]
        new = XS(self.shape, keep, self.format)
        self.indptr, self.indices, self.data = new.indptr, new.indices, new.data

    def nonzero(self):
        ents = sorted((i, j) for i, j, v in self.entries() if v != 0)
        return XA([e[0] for e in ents]) if ents else XA(shape=(0,), flat=[]), XA([e[1] for e in ents]) if ents else XA(shape=(0,), flat=[])

    def getrow(self, i):
        return self[int(i), :]

    def getcol(self, j):
        return self[:, int(j)]

    def getnnz(self, axis=None):
        if axis is None:
            return self.nnz
        cnt = [0] * self.shape[1 - axis]
        for e in self.entries():
            cnt[e[1 - axis]] += 1
        return XA(cnt)

    def sum(self, axis=None):
        return self.toarray().sum(axis=axis)

    def __getitem__(self, k):
        if not (isinstance(k, tuple) and len(k) == 2):
            if hasattr(k, "__index__"):
                k = (k, slice(None))
            else:
                raise AnalysisError(f"sparse index {k!r} is not modelled")
        dense = self.toarray()
        a, b = k
        scalar = [hasattr(x, "__index__") and not isinstance(x, XA) or (isinstance(x, XA) and x.ndim == 0) for x in (a, b)]
        if all(scalar):
            return dense[int(a), int(b)]
        # scipy keeps two dimensions: an integer index along one axis selects a 1 x n / n x 1 sub-matrix
        ra = [int(a)] if scalar[0] else a
        cb = [int(b)] if scalar[1] else b
        adv = [isinstance(x, (XA, list, tuple)) for x in (a, b)]
        if all(adv):
            vals = dense[a, b]
            return _Sub(vals.reshape(1, -1))
        sub = dense[ra if not isinstance(ra, slice) else ra, :]
        sub = sub[:, cb if not isinstance(cb, slice) else cb]
        return _Sub(sub)

    def __repr__(self):
        return f"{self.format}{self.entries()}"


class _Sub(Sym):
    """sub-matrix selected from a sparse matrix (still sparse in scipy): only conversions to a dense array are modelled"""
    def __init__(self, dense):
        super().__init__("sparse sub-matrix")
        self.dense, self.shape = dense, dense.shape

    def toarray(self):
        return self.dense

    todense = toarray

    @property
    def A(self):
        return self.dense

    @property
    def data(self):
        return XA([v for v in self.dense.flat if v != 0])

    def nonzero(self):
        return np_nonzero(self.dense)

    def sum(self, axis=None):
        return self.dense.sum(axis=axis)
