#!/venv/bin/python
"""compare a junit xml with the stable_pass list of /root/.vp/BASELINE.json"""
import json, sys, xml.etree.ElementTree as ET
base = json.load(open('/root/.vp/BASELINE.json'))
stable = set(base['stable_pass'])
t = ET.parse(sys.argv[1])
res = {}
for tc in t.iter('testcase'):
    cid = f"{tc.get('classname')}::{tc.get('name')}"
    bad = any(ch.tag in ('failure', 'error', 'skipped') for ch in tc)
    res[cid] = not bad
missing = [s for s in stable if s not in res]
failed = [s for s in stable if s in res and not res[s]]
print(f"stable {len(stable)}: passed {sum(1 for s in stable if res.get(s))}, failed {len(failed)}, missing {len(missing)}")
for s in failed + missing: print("  ", s)
sys.exit(1 if failed or missing else 0)
