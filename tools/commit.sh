#!/bin/bash
# commit /verif only if every claimed check is silent on the current /repo tree (exit 0, no VIOLATION / ANALYSIS-ERROR line)
cd /verif
out=$(/venv/bin/python -m renostat all 2>&1)
if echo "$out" | grep -q "VIOLATION\|ANALYSIS-ERROR\|Traceback"; then
  echo "NOT COMMITTED: a check is not silent on the unchanged tree"; echo "$out" | grep "VIOLATION\|ANALYSIS-ERROR\|violation(s)" | grep -v " 0 violation" | head; exit 1
fi
n=$(echo "$out" | grep -c " 0 violation(s), 0 known finding(s)")
if [ "$n" != "18" ]; then echo "NOT COMMITTED: only $n of 18 checks reported a clean verdict"; exit 1; fi
git add -A && git commit -qm "$1" && echo "committed: $1"
