#!/bin/bash
# usage: confirm_seed.sh <worktree> <outdir> ; confirms demo fails with the change, passes without, suite still passes with it
WT=$1; OUT=$2
export OMP_NUM_THREADS=1 OPENBLAS_NUM_THREADS=1 MKL_NUM_THREADS=1
cd $WT || exit 9
git diff > $OUT/patch.confirm.diff
if [ ! -s $OUT/patch.confirm.diff ]; then echo "NO CHANGE APPLIED in $WT"; exit 9; fi
PYTHONPATH=$WT timeout 300 /venv/bin/python $OUT/demo.py > $OUT/demo_with.log 2>&1; W=$?
# never `git stash` here: the stash is shared by all worktrees of /repo and seeding agents work in parallel
git apply -R $OUT/patch.confirm.diff || { echo "cannot revert the change"; exit 9; }
PYTHONPATH=$WT timeout 300 /venv/bin/python $OUT/demo.py > $OUT/demo_without.log 2>&1; WO=$?
git apply $OUT/patch.confirm.diff || { echo "cannot re-apply the change"; exit 9; }
echo "demo with change: exit $W ; without: exit $WO"
/venv/bin/python -m pytest -q -p no:cacheprovider --timeout=900 --continue-on-collection-errors -n 16 --junitxml=$OUT/confirm.xml > $OUT/confirm.log 2>&1
/venv/bin/python /verif/tools/cmp_baseline.py $OUT/confirm.xml | head -5
