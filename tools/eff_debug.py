#!/venv/bin/python
import sys, os
sys.path.insert(0, os.path.dirname(os.path.dirname(os.path.abspath(__file__))))
from renostat.src import Src
from renostat.rules import C13
from renostat import effect as E
src = Src(os.environ.get("RENOSTAT_REPO", "/repo"))
eng = C13.build_engine(src, "quick")
pat = sys.argv[1:]
for (rel, qual, ip, bind), s in sorted(eng.summ.items(), key=lambda kv: str(kv[0])):
    if pat and not any(p in qual for p in pat):
        continue
    fi = src.func(rel, qual)
    ps = fi.params()
    print(f"{rel}::{qual} inplace={ip} bind={bind}")
    for i, (l, w) in sorted(s.eff.items()):
        print(f"    eff {ps[i] if i < len(ps) else i}: {E.LEVEL[l]}  <= {w}")
    print(f"    ret {sorted(map(str, s.ret))} list={s.ret_is_list}")
print("unresolved:", sorted(f"{w} .{m}" for (w, m) in eng.unresolved))
