#!/venv/bin/python
"""Regenerates /verif/MANIFEST.json from the META dict of every rules/Cxx.py that exists."""
import importlib, json, os, sys
HERE = os.path.dirname(os.path.dirname(os.path.abspath(__file__)))
sys.path.insert(0, HERE)
ALL = [f"C{i:02d}" for i in range(1, 21)]
NA = {
    "C18": "numerical tolerance contract of expm_krylov / svd_qn over all matrices: its truth lives in floating-point values of Lanczos and LAPACK results, no sound static argument is in reach (the one shape-visible part, callers respecting the Hermitian precondition, is decided under C09/C12)",
    "C20": "validity and minimality of the vertex cover for every bipartite graph is functional correctness of an algorithm over runtime data; deciding it from source is full program verification; the bounded whole-function runs of C01 / C02 interpret the cover routine on a few small graphs only as a step of the operator builder and decide nothing about minimality",
}
checks, na = [], []
for pid in ALL:
    try:
        mod = importlib.import_module(f"renostat.rules.{pid}")
        meta = mod.META
    except (ModuleNotFoundError, AttributeError):
        na.append({"property_id": pid, "reason": NA.get(pid, "static check for this property is not built yet (work in progress); nothing is claimed")})
        continue
    checks.append({
        "property_id": pid,
        "quick_cmd": f"/venv/bin/python -m renostat check {pid} --tier quick",
        "thorough_cmd": f"/venv/bin/python -m renostat check {pid} --tier thorough",
        "evidence_file": f"/verif/evidence/{pid}.json",
        "replay_cmd_template": "/venv/bin/python -m renostat explain {path}",
        "engine": meta.get("engine", "renostat"),
        "level_claimed": {"category": meta["category"], "text": meta["text"], "design_ref": meta.get("design_ref", "DESIGN.md section 4")},
        "level_note": meta["note"],
        "technique": meta["technique"],
    })
man = {
    "version": 1,
    "setup_cmd": "true",
    "hooks": {"guard": "RENORMALIZER_VERIF", "enable": "no hooks are needed: the checks parse /repo's source and never import or run it",
              "baseline_off_cmd": "cd /repo && /venv/bin/python -m pytest -ra -q -p no:cacheprovider --timeout=900 --continue-on-collection-errors -n 16",
              "source_commits": [], "add_only": True},
    "engines": [{"name": "renostat", "path": "/verif/renostat", "serves_properties": [c["property_id"] for c in checks],
                 "kind_free_text": "repository-specific static analysis on Python ast (stdlib + sympy of /venv): effect/alias inference, tensor-network spec analysis, label-schema and quantum-number bookkeeping rules, CFG typestate, file-protocol abstract interpretation, exact constant folding"}],
    "checks": checks,
    "notes": "All checks are static: they parse /repo/renormalizer/**.py on every run (nothing is imported or executed), decide rule instances, and report file::function constructs. exit 0 held / 1 VIOLATION / 2 ANALYSIS-ERROR (anchor vanished or form not understood). Known findings: /verif/known_findings.json. Seeded breakages: /verif/seeded/.",
    "not_applicable": na,
}
json.dump(man, open(os.path.join(HERE, "MANIFEST.json"), "w"), indent=1)
print("claimed:", [c["property_id"] for c in checks]); print("not claimed:", [n["property_id"] for n in na])
