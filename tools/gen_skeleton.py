#!/venv/bin/python
"""(re)generate renostat/reference_skeleton.json from /repo: alpha-normal form hash, ordered local names, normal-form hash (normalform.py) and source of every top-level function / method.
Run after every legitimate change of /repo (fix commits)."""
import ast, json, os, sys, warnings
sys.path.insert(0, "/verif")
from renostat import alpha, normalform
from renostat.src import Src
repo = sys.argv[1] if len(sys.argv) > 1 else "/repo"
mods = {}
for dp, dn, fn in os.walk(os.path.join(repo, "renormalizer")):
    dn[:] = sorted(d for d in dn if d not in ("__pycache__",) + tuple(Src.EXCLUDE_DIRS))
    for f in sorted(fn):
        if not f.endswith(".py") or f in Src.EXCLUDE_FILES:
            continue
        p = os.path.join(dp, f)
        with warnings.catch_warnings():
            warnings.simplefilter("ignore")
            mods[os.path.relpath(p, repo)] = ast.parse(open(p).read())
sigs = normalform.collect_signatures(mods)
db = {}
for rel, mod in mods.items():
    for n in mod.body:
        items = []
        if isinstance(n, (ast.FunctionDef, ast.AsyncFunctionDef)):
            items.append((n, n.name))
        elif isinstance(n, ast.ClassDef):
            items += [(m, f"{n.name}.{m.name}") for m in n.body if isinstance(m, (ast.FunctionDef, ast.AsyncFunctionDef))]
        for node, qual in items:
            h, names = alpha.skeleton(node)
            db.setdefault(f"{rel}::{qual}", {"alpha": h, "names": names, "nf": normalform.nf_hash(node, sigs), "src": ast.unparse(node)})
json.dump(db, open(alpha.DB, "w"), indent=0, sort_keys=True)
print(len(db), "functions recorded in", alpha.DB, "-", len(sigs), "unambiguous signatures")
