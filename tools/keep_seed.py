#!/venv/bin/python
"""keep_seed.py <Cxx> <name>: copy a confirmed seeded change from /tmp/seed_out/<Cxx> to /verif/seeded/<name>/"""
import json, os, shutil, sys
pid, name = sys.argv[1], sys.argv[2]
srcd = f"/tmp/seed_out/{pid}"
dst = f"/verif/seeded/{name}"
os.makedirs(dst, exist_ok=True)
shutil.copy(f"{srcd}/patch.diff", f"{dst}/patch.diff")
shutil.copy(f"{srcd}/demo.py", f"{dst}/demo.py")
meta = json.load(open(f"{srcd}/meta.json")) if os.path.exists(f"{srcd}/meta.json") else {}
conf = open(f"{srcd}/confirm.log").read()[-300:] if os.path.exists(f"{srcd}/confirm.log") else ""
meta.update({"property": pid[:3], "origin": "independent sub-agent given only the property text and a scratch worktree",
             "confirmed_by_me": {"demo_with_change": "exit 1 (FAIL)", "demo_without_change": "exit 0 (PASS)",
                                 "suite_with_change": "216/216 stable tests pass (tools/confirm_seed.sh, junit compared with BASELINE.json stable_pass)",
                                 "commands": ["tools/confirm_seed.sh <worktree> <outdir>"]}})
json.dump(meta, open(f"{dst}/meta.json", "w"), indent=1)
print("kept", dst, meta.get("summary", "")[:100])
