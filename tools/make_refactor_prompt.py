#!/venv/bin/python
"""prompt for a sub-agent that produces a behaviour-preserving refactoring (a twin) of the code a property depends on. usage: make_refactor_prompt.py <TAG> [function ...]  (TAG = Cxx + 'r' + letter; the optional function names of the package steer the agent to code that no earlier twin touched)"""
import json, os, subprocess, sys
tag = sys.argv[1]
pid = tag[:3]
out, wt = f"/tmp/seed_out/{tag}", f"/tmp/seed_{tag}"
os.makedirs(out, exist_ok=True)
for l in open("/verif/properties.jsonl"):
    d = json.loads(l)
    if d["id"] == pid:
        prop = f"{d['id']}: {d['title']}\n\nStatement: {d['statement']}\n\nQuantifier: {d['quantifier']['text']}\n"
txt = open("/verif/tools/refactor_prompt_template.txt").read().replace("{WT}", wt).replace("{OUT}", out).replace("{PROP}", prop).replace("{PID}", pid)
if sys.argv[2:]:
    txt = txt.replace("TASK: make", "FOCUS: earlier rounds already refactored other functions; this time at least two of the functions you change must be among: " + ", ".join(sys.argv[2:]) + ".\n\nTASK: make", 1)
open(f"/tmp/seed_out/prompt_{tag}.txt", "w").write(txt)
if not os.path.exists(wt):
    subprocess.run(["git", "-C", "/repo", "worktree", "add", "-q", "--detach", wt, "HEAD"], check=True)
print(f"/tmp/seed_out/prompt_{tag}.txt", len(txt))
