#!/venv/bin/python
"""prompt for a sub-agent that produces a behaviour-preserving refactoring (a twin) of the code a property depends on. usage: make_refactor_prompt.py <TAG>  (TAG = Cxx + 'r' + letter)"""
import json, os, subprocess, sys
tag = sys.argv[1]
pid = tag[:3]
out, wt = f"/tmp/seed_out/{tag}", f"/tmp/seed_{tag}"
os.makedirs(out, exist_ok=True)
for l in open("/verif/properties.jsonl"):
    d = json.loads(l)
    if d["id"] == pid:
        prop = f"{d['id']}: {d['title']}\n\nStatement: {d['statement']}\n\nQuantifier: {d['quantifier']['text']}\n"
txt = open("/verif/tools/refactor_prompt_template.txt").read().replace("{WT}", wt).replace("{OUT}", out).replace("{PROP}", prop).replace("{PID}", pid)
open(f"/tmp/seed_out/prompt_{tag}.txt", "w").write(txt)
if not os.path.exists(wt):
    subprocess.run(["git", "-C", "/repo", "worktree", "add", "-q", "--detach", wt, "HEAD"], check=True)
print(f"/tmp/seed_out/prompt_{tag}.txt", len(txt))
