#!/venv/bin/python
"""build the prompt for one seeding sub-agent: property text only + its own scratch worktree (nothing from /verif is shown except one-line summaries of
earlier seeded changes of the same property, so that a different mechanism is chosen).  usage: make_seed_prompt.py <TAG> ; TAG = Cxx<letter>"""
import json, os, subprocess, sys
tag = sys.argv[1]
pid = tag[:3]
out = f"/tmp/seed_out/{tag}"
wt = f"/tmp/seed_{tag}"
os.makedirs(out, exist_ok=True)
if not os.path.exists("/verif/tools/seed_prompt_template.txt"):
    sys.exit("TEMPLATE.txt missing")
prop = None
for l in open("/verif/properties.jsonl"):
    d = json.loads(l)
    if d["id"] == pid:
        prop = f"{d['id']}: {d['title']}\n\nStatement: {d['statement']}\n\nQuantifier: {d['quantifier']['text']}\n\nWhy the existing tests cannot settle it: {d['why_tests_cant']}\n"
tpl = open("/verif/tools/seed_prompt_template.txt").read()
txt = tpl.replace("{WT}", wt).replace("{OUT}", out).replace("{PROP}", prop).replace("{PID}", pid)
earlier = []
for n in sorted(os.listdir("/verif/seeded")):
    m = f"/verif/seeded/{n}/meta.json"
    if n.startswith(pid) and os.path.exists(m):
        earlier.append("- " + json.load(open(m)).get("summary", "")[:150])
if earlier:
    txt += "\n\nEarlier experiments already made the following changes; choose a DIFFERENT function and mechanism of the property (ideally one of the less obvious mechanisms the property depends on):\n" + "\n".join(earlier) + "\n"
open(f"/tmp/seed_out/prompt_{tag}.txt", "w").write(txt)
if not os.path.exists(wt):
    subprocess.run(["git", "-C", "/repo", "worktree", "add", "-q", "--detach", wt, "HEAD"], check=True)
print(f"/tmp/seed_out/prompt_{tag}.txt", len(txt))
