#!/venv/bin/python
"""run every kept seeded change against the checks.  Each patch is applied to a scratch copy of /repo/renormalizer (outside /repo and /verif,
removed afterwards) and every claimed check is run with --repo <copy>; /repo itself is never touched, so the seeds can be run in parallel.
(`git -C /repo apply <patch>; python -m renostat check Cxx; git -C /repo checkout -- .` gives the same verdicts.)
Writes /verif/seeded/RESULTS.json.   usage: run_seeds.py [--own] [seed-name ...]"""
import json, os, shutil, subprocess, sys, tempfile
from concurrent.futures import ThreadPoolExecutor

SEEDED = "/verif/seeded"
man = json.load(open("/verif/MANIFEST.json"))
claimed = [c["property_id"] for c in man["checks"]]
args = [a for a in sys.argv[1:] if not a.startswith("--")]
own_only = "--own" in sys.argv


def copy_tree(dst):
    for dp, dn, fn in os.walk("/repo/renormalizer"):
        dn[:] = [d for d in dn if d not in ("__pycache__", "tests")]
        rel = os.path.relpath(dp, "/repo")
        os.makedirs(os.path.join(dst, rel), exist_ok=True)
        for f in fn:
            if f.endswith(".py"):
                shutil.copyfile(os.path.join(dp, f), os.path.join(dst, rel, f))


def one(name):
    d = f"{SEEDED}/{name}"
    meta = json.load(open(f"{d}/meta.json"))
    tmp = tempfile.mkdtemp(prefix="renostat-seed-")
    try:
        copy_tree(tmp)
        ap = subprocess.run(["patch", "-p1", "-s", "-f", "--no-backup-if-mismatch", "-d", tmp, "-i", f"{d}/patch.diff"], capture_output=True, text=True)
        if ap.returncode != 0:
            return name, {"applied": False, "why": (ap.stdout + ap.stderr)[-200:]}
        hits = {}
        for pid in ([meta.get("property")] if own_only else claimed):
            r = subprocess.run(["/venv/bin/python", "-m", "renostat", "check", pid, "--no-write", "--repo", tmp], cwd="/verif", capture_output=True, text=True)
            if r.returncode != 0:
                lines = [l.strip()[:300] for l in r.stdout.splitlines() if l.startswith("  " + pid) or l.startswith("ANALYSIS-ERROR")]
                hits[pid] = {"exit": r.returncode, "findings": lines[:4]}
        own = meta.get("property")
        return name, {"applied": True, "property": own, "summary": meta.get("summary"), "caught_by": hits,
                      "caught": any(h["exit"] == 1 for h in hits.values()), "caught_by_own_property_check": hits.get(own, {}).get("exit") == 1,
                      "analysis_error_only": [p for p, h in hits.items() if h["exit"] != 1]}
    finally:
        shutil.rmtree(tmp, ignore_errors=True)


names = [n for n in sorted(os.listdir(SEEDED)) if os.path.isdir(f"{SEEDED}/{n}") and (not args or n in args)]
res = json.load(open(f"{SEEDED}/RESULTS.json")) if os.path.exists(f"{SEEDED}/RESULTS.json") and (args or own_only) else {}
with ThreadPoolExecutor(max_workers=12) as ex:
    for name, r in ex.map(one, names):
        if own_only and name in res and res[name].get("applied"):
            res[name]["caught_by"].update(r.get("caught_by", {}))
            res[name]["caught_by_own_property_check"] = r.get("caught_by_own_property_check")
        else:
            res[name] = r
        if not r.get("applied"):
            print(f"{name:44s} patch does not apply: {r.get('why')}")
            continue
        hits = r["caught_by"]
        print(f"{name:44s} property={r['property']} violation_by={sorted(p for p, h in hits.items() if h['exit'] == 1)} analysis_error={sorted(p for p, h in hits.items() if h['exit'] != 1)}"
              + ("" if r["caught_by_own_property_check"] else "   <-- NOT caught by its own check"))
json.dump(res, open(f"{SEEDED}/RESULTS.json", "w"), indent=1)
n_own = sum(1 for r in res.values() if r.get("caught_by_own_property_check"))
print(f"{n_own}/{len(res)} seeded changes reported as VIOLATION by the check of their own property")
