#!/venv/bin/python
"""run every kept seeded change against the checks: apply to /repo, run the claimed checks, undo. Writes /verif/seeded/RESULTS.json"""
import json, os, subprocess, sys
SEEDED = "/verif/seeded"
man = json.load(open("/verif/MANIFEST.json"))
claimed = [c["property_id"] for c in man["checks"]]
only = sys.argv[1:]
res = {}
if os.path.exists(f"{SEEDED}/RESULTS.json"):
    res = json.load(open(f"{SEEDED}/RESULTS.json"))
for name in sorted(os.listdir(SEEDED)):
    d = f"{SEEDED}/{name}"
    if not os.path.isdir(d) or (only and name not in only):
        continue
    meta = json.load(open(f"{d}/meta.json"))
    st = subprocess.run(["git", "-C", "/repo", "status", "--porcelain"], capture_output=True, text=True).stdout.strip()
    if st:
        print("REPO NOT CLEAN, abort", st); sys.exit(2)
    ap = subprocess.run(["git", "-C", "/repo", "apply", f"{d}/patch.diff"], capture_output=True, text=True)
    if ap.returncode != 0:
        res[name] = {"applied": False, "why": ap.stderr[-200:]}
        print(name, "patch does not apply"); continue
    try:
        hits = {}
        for pid in claimed:
            r = subprocess.run(["/venv/bin/python", "-m", "renostat", "check", pid, "--no-write"], cwd="/verif", capture_output=True, text=True)
            if r.returncode != 0:
                lines = [l.strip()[:300] for l in r.stdout.splitlines() if l.startswith("  " + pid) or l.startswith("ANALYSIS-ERROR")]
                hits[pid] = {"exit": r.returncode, "findings": lines[:4]}
        res[name] = {"applied": True, "property": meta.get("property"), "summary": meta.get("summary"), "caught_by": hits,
                     "caught": any(h["exit"] == 1 for h in hits.values()), "caught_by_own_property_check": hits.get(meta.get("property"), {}).get("exit") == 1,
                     "analysis_error_only": [p for p, h in hits.items() if h["exit"] != 1]}
        print(f"{name:28s} property={meta.get('property')} violation_by={sorted(p for p, h in hits.items() if h['exit'] == 1)} analysis_error={sorted(p for p, h in hits.items() if h['exit'] != 1)}"
              + ("" if res[name]["caught_by_own_property_check"] else "   <-- NOT caught by its own check"))
    finally:
        subprocess.run(["git", "-C", "/repo", "checkout", "--", "."], check=True)
json.dump(res, open(f"{SEEDED}/RESULTS.json", "w"), indent=1)
