#!/bin/bash
# usage: tryseed.sh TAG Cxx  -> apply /tmp/seed_out/TAG/patch.diff to scratch copy and run own check
rm -rf /tmp/mut_$1 && mkdir -p /tmp/mut_$1 && rsync -a --include='*/' --include='*.py' --exclude='*' /repo/renormalizer /tmp/mut_$1/
patch -p1 -s -f --no-backup-if-mismatch -d /tmp/mut_$1 -i /tmp/seed_out/$1/patch.diff || exit 9
cd /verif && /venv/bin/python -m renostat check $2 --no-write --repo /tmp/mut_$1 | grep "^  $2\|^$2\|ANALYSIS" | cut -c1-330 | head -6
rm -rf /tmp/mut_$1
