#!/bin/bash
# usage: trytwin.sh TAG [Cxx ...] -> apply refactor patch to scratch copy; run the given checks (default: all) and report the non-silent ones
rm -rf /tmp/mut_$1 && mkdir -p /tmp/mut_$1 && rsync -a --include='*/' --include='*.py' --exclude='*' /repo/renormalizer /tmp/mut_$1/
patch -p1 -s -f --no-backup-if-mismatch -d /tmp/mut_$1 -i /tmp/seed_out/$1/patch.diff || { echo PATCH-FAILED; exit 9; }
TAG=$1; shift
PIDS=${@:-C01 C02 C03 C04 C05 C06 C07 C08 C09 C10 C11 C12 C13 C14 C15 C16 C17 C19}
cd /verif
for p in $PIDS; do
  out=$(/venv/bin/python -m renostat check $p --no-write --repo /tmp/mut_$TAG 2>&1); rc=$?
  if [ $rc -ne 0 ]; then echo "== $p exit $rc"; echo "$out" | grep "^  $p\|ANALYSIS" | cut -c1-330 | head -5; fi
done
echo "done $TAG"
if [ -z "$KEEP" ]; then rm -rf /tmp/mut_$TAG; fi
