#!/venv/bin/python
"""Behaviour-preserving whole-repository transformations; every check must stay silent (exit 0) on the transformed copy.
   reformat : every module re-emitted by ast.unparse (comments dropped, quotes / parentheses / line breaks normalised)
   rename   : local variables of every function renamed consistently (x -> x_r), parameters / globals / closure variables kept
   pad / split / ifswap / retvar / cmpflip / kwsort : see the *_module functions
usage: twin_battery.py [reformat|rename|pad|split|ifswap|retvar|cmpflip|kwsort|both] [Cxx ...] [--keep=DIR]"""
import ast, os, shutil, subprocess, sys, tempfile, builtins

REPO = "/repo"
mode = sys.argv[1] if len(sys.argv) > 1 else "both"
pids = [a for a in sys.argv[2:] if not a.startswith("--keep=")]
keep = [a.split("=", 1)[1] for a in sys.argv[2:] if a.startswith("--keep=")]


class Renamer(ast.NodeTransformer):
    """rename plain local variables of one function (no nested function may read them)"""
    def __init__(self, names):
        self.names = names

    def visit_Name(self, n):
        if n.id in self.names:
            return ast.copy_location(ast.Name(id=n.id + "_r", ctx=n.ctx), n)
        return n

    def visit_FunctionDef(self, n):
        return n     # do not descend into nested functions (their reads were excluded already)

    visit_AsyncFunctionDef = visit_Lambda = visit_ClassDef = visit_FunctionDef


def locals_of(fn):
    params = {a.arg for a in fn.args.posonlyargs + fn.args.args + fn.args.kwonlyargs}
    if fn.args.vararg:
        params.add(fn.args.vararg.arg)
    if fn.args.kwarg:
        params.add(fn.args.kwarg.arg)
    assigned, banned = set(), set(params)
    nested_reads = set()

    def walk(node, top):
        for ch in ast.iter_child_nodes(node):
            if isinstance(ch, (ast.FunctionDef, ast.AsyncFunctionDef, ast.Lambda, ast.ClassDef)) :
                for x in ast.walk(ch):
                    if isinstance(x, ast.Name):
                        nested_reads.add(x.id)
                    if isinstance(x, (ast.Global, ast.Nonlocal)):
                        banned.update(x.names)
                if isinstance(ch, (ast.FunctionDef, ast.ClassDef)):
                    banned.add(ch.name)
                continue
            if isinstance(ch, (ast.ListComp, ast.SetComp, ast.DictComp, ast.GeneratorExp)):
                # comprehension targets are their own scope; anything they read from outside must keep working -> handled by renaming reads too
                for g in ch.generators:
                    for x in ast.walk(g.target):
                        if isinstance(x, ast.Name):
                            banned.add(x.id)
            if isinstance(ch, ast.Name) and isinstance(ch.ctx, (ast.Store, ast.Del)):
                assigned.add(ch.id)
            if isinstance(ch, (ast.Global, ast.Nonlocal)):
                banned.update(ch.names)
            if isinstance(ch, (ast.Import, ast.ImportFrom)):
                for a in ch.names:
                    banned.add((a.asname or a.name).split(".")[0])
            if isinstance(ch, ast.ExceptHandler) and ch.name:
                banned.add(ch.name)
            if isinstance(ch, ast.NamedExpr):
                banned.add(ch.target.id)
            walk(ch, False)
    walk(fn, True)
    return {n for n in assigned if n not in banned and n not in nested_reads and not n.startswith("__") and not hasattr(builtins, n)}


def rename_module(tree):
    class FT(ast.NodeTransformer):
        def visit_FunctionDef(self, fn):
            self.generic_visit(fn)          # inner functions first
            names = locals_of(fn)
            if names:
                r = Renamer(names)
                fn.body = [r.visit(s) if not isinstance(s, (ast.FunctionDef, ast.ClassDef)) else s for s in fn.body]
            return fn
    return FT().visit(tree)


def pad_module(tree):
    """insert a no-op statement after the docstring of every function and before every return"""
    class P(ast.NodeTransformer):
        def visit_FunctionDef(self, fn):
            self.generic_visit(fn)
            k = 1 if fn.body and isinstance(fn.body[0], ast.Expr) and isinstance(fn.body[0].value, ast.Constant) and isinstance(fn.body[0].value.value, str) else 0
            fn.body.insert(k, ast.Pass())
            if fn.body and isinstance(fn.body[-1], ast.Return):
                fn.body.insert(len(fn.body) - 1, ast.Pass())
            return fn
    return P().visit(tree)


def split_module(tree):
    """`x = a.m1(..).m2(..)` at statement level becomes `_s1 = a.m1(..)` ; `x = _s1.m2(..)` (one level), inside function bodies only"""
    counter = [0]

    class S(ast.NodeTransformer):
        def visit_FunctionDef(self, fn):
            self.generic_visit(fn)
            fn.body = self.rewrite(fn.body)
            return fn

        def rewrite(self, body):
            out = []
            for st in body:
                for fld in ("body", "orelse", "finalbody"):
                    sub = getattr(st, fld, None)
                    if isinstance(sub, list) and sub and isinstance(sub[0], ast.stmt) and not isinstance(st, (ast.FunctionDef, ast.ClassDef)):
                        setattr(st, fld, self.rewrite(sub))
                if isinstance(st, ast.Assign) and len(st.targets) == 1 and isinstance(st.targets[0], ast.Name) and isinstance(st.value, ast.Call) \
                        and isinstance(st.value.func, ast.Attribute) and isinstance(st.value.func.value, ast.Call) and isinstance(st.value.func.value.func, ast.Attribute):
                    counter[0] += 1
                    tmp = f"_s{counter[0]}"
                    inner = st.value.func.value
                    out.append(ast.Assign(targets=[ast.Name(id=tmp, ctx=ast.Store())], value=inner))
                    st.value.func.value = ast.Name(id=tmp, ctx=ast.Load())
                out.append(st)
            return out
    t = S().visit(tree)
    ast.fix_missing_locations(t)
    return t


def ifswap_module(tree):
    """`if c: A else: B` becomes `if not c: B else: A` (statements with an else branch only), inside function bodies"""
    class I(ast.NodeTransformer):
        def visit_If(self, n):
            self.generic_visit(n)
            if n.orelse:
                n.test = ast.UnaryOp(op=ast.Not(), operand=n.test)
                n.body, n.orelse = n.orelse, n.body
            return n

        def visit_IfExp(self, n):
            self.generic_visit(n)
            n.test = ast.UnaryOp(op=ast.Not(), operand=n.test)
            n.body, n.orelse = n.orelse, n.body
            return n
    return I().visit(tree)


def retvar_module(tree):
    """`return <expression>` becomes `_ret = <expression>; return _ret`"""
    class R(ast.NodeTransformer):
        def generic_visit(self, node):
            super().generic_visit(node)
            for fld in ("body", "orelse", "finalbody"):
                sub = getattr(node, fld, None)
                if isinstance(sub, list) and sub and isinstance(sub[0], ast.stmt):
                    out = []
                    for st in sub:
                        if isinstance(st, ast.Return) and st.value is not None and not isinstance(st.value, (ast.Name, ast.Constant)):
                            out.append(ast.Assign(targets=[ast.Name(id="_ret", ctx=ast.Store())], value=st.value))
                            st.value = ast.Name(id="_ret", ctx=ast.Load())
                        out.append(st)
                    setattr(node, fld, out)
            return node
    return R().visit(tree)


def cmpflip_module(tree):
    """a comparison of an expression with a numeric literal is written the other way round: `x > 1` -> `1 < x`, `x == 0` -> `0 == x`"""
    flip = {ast.Lt: ast.Gt, ast.Gt: ast.Lt, ast.LtE: ast.GtE, ast.GtE: ast.LtE, ast.Eq: ast.Eq, ast.NotEq: ast.NotEq}

    class C(ast.NodeTransformer):
        def visit_Compare(self, n):
            self.generic_visit(n)
            if len(n.ops) == 1 and type(n.ops[0]) in flip and isinstance(n.comparators[0], ast.Constant) and isinstance(n.comparators[0].value, (int, float)) \
                    and not isinstance(n.comparators[0].value, bool) and not isinstance(n.left, ast.Constant):
                n.left, n.comparators = n.comparators[0], [n.left]
                n.ops = [flip[type(n.ops[0])]()]
            return n
    return C().visit(tree)


def kwsort_module(tree):
    """keyword arguments of every call are written in reversed order"""
    class K(ast.NodeTransformer):
        def visit_Call(self, n):
            self.generic_visit(n)
            if len(n.keywords) > 1 and all(k.arg is not None for k in n.keywords):
                n.keywords = list(reversed(n.keywords))
            return n
    return K().visit(tree)


def transform(dst, what):
    n = 0
    for dp, dn, fns in os.walk(os.path.join(dst, "renormalizer")):
        for f in fns:
            if not f.endswith(".py"):
                continue
            p = os.path.join(dp, f)
            try:
                tree = ast.parse(open(p).read())
            except SyntaxError:
                continue
            if what == "rename":
                tree = rename_module(tree)
            if what == "pad":
                tree = pad_module(tree)
            if what == "split":
                tree = split_module(tree)
            if what in EXTRA:
                tree = EXTRA[what](tree)
            ast.fix_missing_locations(tree)
            out = ast.unparse(tree)
            compile(out, p, "exec")
            open(p, "w").write(out + "\n")
            n += 1
    return n


EXTRA = {"ifswap": ifswap_module, "retvar": retvar_module, "cmpflip": cmpflip_module, "kwsort": kwsort_module}
rc = 0
for what in (["reformat", "rename", "pad"] if mode == "both" else [mode]):
    tmp = tempfile.mkdtemp(prefix="renostat-twin-") if not keep else keep[0]
    if keep:
        shutil.rmtree(tmp, ignore_errors=True)
        os.makedirs(tmp)
    try:
        for dp, dn, fns in os.walk(os.path.join(REPO, "renormalizer")):
            dn[:] = [d for d in dn if d not in ("__pycache__", "tests")]
            rel = os.path.relpath(dp, REPO)
            os.makedirs(os.path.join(tmp, rel), exist_ok=True)
            for f in fns:
                if f.endswith(".py"):
                    shutil.copyfile(os.path.join(dp, f), os.path.join(tmp, rel, f))
        n = transform(tmp, what)
        import json
        claimed = pids or [c["property_id"] for c in json.load(open("/verif/MANIFEST.json"))["checks"]]
        bad = []
        for pid in claimed:
            r = subprocess.run(["/venv/bin/python", "-m", "renostat", "check", pid, "--no-write", "--repo", tmp], cwd="/verif", capture_output=True, text=True)
            if r.returncode != 0:
                bad.append(pid)
                lines = [l[:260] for l in r.stdout.splitlines() if l.startswith("  " + pid) or l.startswith("ANALYSIS-ERROR")][:4]
                print(f"[{what}] {pid}: exit {r.returncode}")
                for l in lines:
                    print("     ", l)
        print(f"[{what}] {n} modules transformed; {len(claimed) - len(bad)}/{len(claimed)} checks silent; not silent: {bad}")
        if bad:
            rc = 1
    finally:
        if not keep:
            shutil.rmtree(tmp, ignore_errors=True)
sys.exit(rc)
