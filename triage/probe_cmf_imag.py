"""triage probe: imaginary-time CMF (second order, midpoint environment) vs dense exp(-tau H)"""
import numpy as np, scipy.linalg
from renormalizer.model import Model, Op
from renormalizer.model import basis as ba
from renormalizer.mps import Mps, Mpo
from renormalizer.utils import EvolveConfig, EvolveMethod, CompressConfig, CompressCriteria
np.random.seed(3)
basis=[ba.BasisHalfSpin(i) for i in range(4)]
terms=[]
for i in range(3):
    terms += [Op("X X",[i,i+1],1.0), Op("iY iY",[i,i+1],-0.7), Op("Z Z",[i,i+1],0.5)]
terms += [Op("Z",i,0.3*(i+1)) for i in range(4)]
m=Model(basis,terms); mpo=Mpo(m); H=mpo.todense()
mps=Mps.random(m,0,4,1.0)
mps.compress_config=CompressConfig(CompressCriteria.fixed,max_bonddim=4)
mps.canonicalise()
psi0=mps.todense()*mps.coeff
tau=0.2
ref=scipy.linalg.expm(-tau*H)@psi0; ref/=np.linalg.norm(ref)
for method in (EvolveMethod.tdvp_mu_cmf, EvolveMethod.tdvp_ps):
  for solver in ("krylov","RK45"):
    cfg=EvolveConfig(method, ivp_solver=solver, ivp_rtol=1e-9, ivp_atol=1e-11)
    x=mps.copy(); x.evolve_config=cfg
    y=x.evolve(mpo,-1j*tau)
    out=y.todense()*y.coeff; out=out/np.linalg.norm(out)
    print(method.name, solver, "distance to exp(-tau H) psi / norm:", min(np.linalg.norm(out-ref), np.linalg.norm(out+ref)))
