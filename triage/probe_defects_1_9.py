import sys, types, os, tempfile
sys.modules.setdefault("print_tree", types.ModuleType("print_tree"))
import numpy as np
from renormalizer.model import Model, Op, HolsteinModel, Mol, Phonon
from renormalizer.model import basis as ba
from renormalizer.mps import Mps, Mpo, MpDm
from renormalizer.utils import Quantity
res = {}
def rec(name, ok): res[name]=ok; print(("PASS " if ok else "FAIL ")+name)
# model: 2 electrons sites + 2 phonons
def model():
    basis=[ba.BasisSimpleElectron("e0"), ba.BasisSHO("v0",1.0,3), ba.BasisSimpleElectron("e1"), ba.BasisSHO("v1",1.3,3)]
    terms=[Op(r"a^\dagger a","e0",1.0), Op(r"a^\dagger a","e1",1.2), Op(r"a^\dagger a",["e0","e1"],0.3), Op(r"a^\dagger a",["e1","e0"],0.3),
           Op(r"b^\dagger b","v0",1.0), Op(r"b^\dagger b","v1",1.3), Op(r"a^\dagger a x",["e0","e0","v0"],0.4), Op(r"a^\dagger a x",["e1","e1","v1"],0.2)]
    return Model(basis, terms)
m=model()
np.random.seed(1)
# 1. add with different qn centres
a=Mps.random(m,1,4); b=Mps.random(m,1,4)
b.move_qnidx(0); b.to_right=True
da,db=a.todense()*a.coeff, b.todense()*b.coeff
s=a.add(b); ds=s.todense()*s.coeff
ok1=np.allclose(ds,da+db)
s.canonicalise()
ds2=s.todense()*s.coeff
rec("add-different-centres-after-canonicalise", ok1 and np.allclose(ds2,da+db))
# 2. conj_trans of a^dagger
cre=Mpo(m, Op(r"a^\dagger","e0"))
ct=cre.conj_trans()
rec("conj_trans-qntot", np.all(ct.qntot==-cre.qntot))
try:
    gs=Mps.hartree_product_state(m,{"e0":1})
    r=ct.apply(gs); r.canonicalise(); 
    rec("conj_trans-apply-canonicalise", np.allclose(r.todense(), ct.todense()@gs.todense()))
except Exception as e:
    rec("conj_trans-apply-canonicalise", False); print("   ",type(e).__name__,e)
# 6. squeeze_identity multi qn
try:
    op=Op("X I",[0,1],1.0,qn=[[0,0],[0,0]])
    (op+op).simplify(); rec("squeeze_identity-multi-qn",True)
except Exception as e:
    rec("squeeze_identity-multi-qn",False); print("   ",type(e).__name__,e)
# 7. SHO x p
for x0 in (0.0,0.7):
    bs=ba.BasisSHO("v",1.3,12,x0=x0)
    x,p=bs.op_mat("x"),bs.op_mat("p")
    k=8
    rec(f"sho-xp-x0={x0}", np.allclose(bs.op_mat("x p")[:k,:k],(x@p)[:k,:k]) and np.allclose(bs.op_mat("p x")[:k,:k],(p@x)[:k,:k])
        and np.allclose(bs.op_mat("x dx")[:k,:k],(x@(1j*p)).real[:k,:k]) and np.allclose(bs.op_mat("dx x")[:k,:k],((1j*p)@x).real[:k,:k]))
bs=ba.BasisSHO("v",1.3,12,x0=0.3,dvr=True)
x,p=bs.op_mat("x"),bs.op_mat("p")
rec("sho-xp-dvr", np.allclose(bs.op_mat("x p")[:6,:6], (x@p)[:6,:6], atol=1e-6) or np.allclose(bs.dvr_v@bs.op_mat("x p")@bs.dvr_v.T, ba.BasisSHO("v",1.3,12,x0=0.3).op_mat("x p")))
# 8. copies
b1=ba.BasisSineDVR("q",5,0.,1.,dvr=True,quadrature=True).copy("q2"); rec("sinedvr-copy", b1.dvr and b1.quadrature)
b2=ba.BasisSimpleElectron("e",sigmaqn=[[0,0],[1,0]]).copy("e2"); rec("simpleelectron-copy", b2.sigmaqn.tolist()==[[0,0],[1,0]])
try:
    b3=ba.BasisDummy("d",nbas=1,sigmaqn=[[0,0]]).copy("d2"); rec("dummy-copy", b3.nbas==1 and b3.sigmaqn.tolist()==[[0,0]])
except Exception as e:
    rec("dummy-copy",False); print("   ",type(e).__name__,e)
# 3. evolve_exact phase (Holstein)
ph=Phonon.simple_phonon(Quantity(1.0),Quantity(0.5),3)
hm=HolsteinModel([Mol(Quantity(0),[ph])]*2, Quantity(0.1))
hmpo=Mpo(hm, offset=Quantity(0.37))
g=Mps.ground_state(hm,True)
c0=g.coeff; d0=g.todense()*g.coeff
n=g.evolve_exact(hmpo,0.4,"GS")
rec("evolve_exact-input-unchanged", np.allclose(g.todense()*g.coeff,d0))
H=Mpo(hm).todense()
import scipy.linalg
ref=scipy.linalg.expm(-1j*0.4*(H-hm.gs_zpe*np.eye(len(H))))@d0
rec("evolve_exact-output", np.allclose(n.todense()*n.coeff, ref))
# 5. compressed_sum single
from renormalizer.mps.lib import compressed_sum
a=Mps.random(m,1,6); a.compress_config.bond_dim_max_value=2
from renormalizer.utils import CompressConfig, CompressCriteria
a.compress_config=CompressConfig(CompressCriteria.fixed,max_bonddim=2)
bd=list(a.bond_dims); r=compressed_sum([a])
rec("compressed_sum-1elem-input-unchanged", list(a.bond_dims)==bd and r is not a)
# 9. dump_dict restart
from renormalizer.utils import TdMpsJob
class J(TdMpsJob):
    def init_mps(self): return 1
    def process_mps(self,mps): pass
    def get_dump_dict(self): return {"x":np.arange(3)}
d=tempfile.mkdtemp()
j=J(dump_dir=d,job_name="job")
fp=os.path.join(d,"job.npz")
np.savez(fp+".bak.npz",x=np.arange(3)); os.rename(fp+".bak.npz",fp+".bak")
open(fp,"wb").write(b"partial")
import renormalizer.utils.tdmps as T
orig=np.savez
def boom(path,**kw):
    # crash inside the writer: what is on disk right now?
    files={f:(os.path.getsize(os.path.join(d,f))) for f in os.listdir(d)}
    good=[]
    for f in os.listdir(d):
        try:
            np.load(os.path.join(d,f),allow_pickle=True)["x"]; good.append(f)
        except Exception: pass
    raise KeyboardInterrupt(str(good))
T.np.savez=boom
try:
    j.dump_dict()
except KeyboardInterrupt as e:
    rec("dump_dict-restart-keeps-complete-file", e.args[0]!="[]")
T.np.savez=orig
print(sum(res.values()),"/",len(res))
