import numpy as np, logging
logging.disable(logging.CRITICAL)
from renormalizer.model import Model, Op
from renormalizer.model import basis as ba
from renormalizer.mps import Mps
m = Model([ba.BasisHalfSpin(i) for i in range(4)], [Op("sigma_x", i) for i in range(4)])
np.random.seed(0)
a = Mps.random(m, 0, 4); b = Mps.random(m, 0, 4)
for ca, cb in ((1.0, 1.0), (2.0, 2.0), (2.0, 3.0), (0.5j, 0.5j)):
    a.coeff, b.coeff = ca, cb
    da, db = a.todense() * a.coeff, b.todense() * b.coeff
    print(f"coeff a={ca}, b={cb}: distance()={a.copy().distance(b.copy()):.6f} dense={np.linalg.norm(da - db):.6f}   norm()={a.norm:.4f} dense={np.linalg.norm(da):.4f}")
from renormalizer.mps import Mpo
a.coeff, b.coeff = 2.0, 3.0j
da, db = a.todense() * a.coeff, b.todense() * b.coeff
print("dot:", a.conj().dot(b), " dense <a|b>:", np.vdot(da, db))
H = Mpo(m)
print("expectation:", a.expectation(H), " dense:", np.vdot(da, H.todense() @ da).real)
print("mp_norm:", a.mp_norm, "norm:", a.norm)
