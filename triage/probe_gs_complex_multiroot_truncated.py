import numpy as np, logging
logging.disable(logging.CRITICAL)
from renormalizer.model import Model, Op
from renormalizer.model import basis as ba
from renormalizer.mps import Mps, Mpo
from renormalizer.mps.gs import optimize_mps
from renormalizer.utils import OptimizeConfig
n=8
for cplx in (False, True):
    rng=np.random.RandomState(1)
    terms=[]
    for i in range(n):
        terms.append(Op("sigma_z", i, rng.rand()-0.5))
        for j in range(i+1,min(i+3,n)):
            c = (rng.rand()-0.5) + (1j*(rng.rand()-0.5) if cplx else 0)
            terms.append(Op("sigma_+ sigma_-", [i,j], c)); terms.append(Op("sigma_- sigma_+", [i,j], np.conj(c)))
            terms.append(Op("sigma_z sigma_z",[i,j], rng.rand()-0.5))
    m=Model([ba.BasisHalfSpin(i) for i in range(n)], terms)
    H=Mpo(m); Hd=H.todense(); w=np.linalg.eigvalsh(Hd)
    for nroots in (1,2,3):
      for M in (4,8,16):
        np.random.seed(3)
        mps=Mps.random(m, 0, M)
        if cplx: mps=mps.to_complex()
        mps.optimize_config=OptimizeConfig(procedure=[[M,0.4],[M,0.2],[M,0],[M,0],[M,0],[M,0]]); mps.optimize_config.method="2site"; mps.optimize_config.nroots=nroots
        es,out=optimize_mps(mps.copy(),H)
        e=np.atleast_1d(es[-1]); outs=out if isinstance(out,list) else [out]
        ev=np.array([o.expectation(H) for o in outs]); nrm=[abs(o.norm*np.sqrt(o.conj().dot(o).real))-1 if hasattr(o,'norm') else 0 for o in outs]
        print("complex" if cplx else "real   ","nroots",nroots,"M",M,"reported-exact",np.round(e-w[:nroots],6),"<H>returned-exact",np.round(ev.real-w[:nroots],6))
