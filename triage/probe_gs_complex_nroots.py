import numpy as np, logging
logging.disable(logging.CRITICAL)
from renormalizer.model import Model, Op
from renormalizer.model import basis as ba
from renormalizer.mps import Mps, Mpo
from renormalizer.mps.gs import optimize_mps
from renormalizer.utils import OptimizeConfig, CompressConfig
n=5
rng=np.random.RandomState(1)
terms=[]
for i in range(n):
    terms.append(Op("sigma_z", i, rng.rand()-0.5))
    for j in range(i+1,n):
        c = (rng.rand()-0.5) + 1j*(rng.rand()-0.5)
        terms.append(Op("sigma_+ sigma_-", [i,j], c)); terms.append(Op("sigma_- sigma_+", [i,j], np.conj(c)))
        terms.append(Op("sigma_z sigma_z",[i,j], rng.rand()-0.5))
m=Model([ba.BasisHalfSpin(i) for i in range(n)], terms)
H=Mpo(m)
Hd=H.todense(); print("hermitian:", np.allclose(Hd, Hd.conj().T), "complex:", np.iscomplexobj(Hd) and not np.allclose(Hd.imag,0))
w=np.linalg.eigvalsh(Hd)
for nroots in (1,2,3):
    for method in ("2site","1site"):
        np.random.seed(3)
        mps=Mps.random(m, 0, 16).to_complex()
        mps.optimize_config=OptimizeConfig(procedure=[[16,0.4],[16,0.2],[16,0],[16,0],[16,0]]); mps.optimize_config.method=method; mps.optimize_config.nroots=nroots
        try:
            es, out = optimize_mps(mps.copy(), H)
            e = np.atleast_1d(es[-1])
            outs = out if isinstance(out, list) else [out]
            ev = [o.expectation(H) for o in outs]
            print(method, "nroots", nroots, "reported", np.round(e,6), "<H> of returned", np.round(np.real(ev),6), "exact", np.round(w[:nroots],6))
        except Exception as ex:
            print(method, "nroots", nroots, "EXC", type(ex).__name__, str(ex)[:100])
