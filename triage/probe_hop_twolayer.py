"""triage probe (not part of the machinery): two-layer hop_expr must equal the matrix built by get_ham_direct's spec"""
import numpy as np
from renormalizer.mps.hop_expr import hop_expr
from renormalizer.mps.oe_contract_wrap import oe_contract
rng = np.random.default_rng(0)
c = lambda *s: rng.normal(size=s) + 1j * rng.normal(size=s)
L, O, R = c(3, 4, 4, 3), c(4, 2, 2, 5), c(3, 5, 5, 3)
x = c(3, 2, 3)
M = oe_contract("abcd, befg, cfhi, jgik -> aejdhk", L, O, O, R).reshape(18, 18)
y = hop_expr(L, R, [O], x.shape, twolayer=True)(x)
print("1-site  expr(x) == M x  :", np.allclose(y.ravel(), M @ x.ravel()), "  == M^T x:", np.allclose(y.ravel(), M.T @ x.ravel()))
O2 = c(5, 2, 2, 4); R2 = c(3, 4, 4, 3); x2 = c(3, 2, 2, 3)
M2 = oe_contract("abcd, befg, cfhi, gjkl, ikmn, olnp -> aejodhmp", L, O, O, O2, O2, R2).reshape(36, 36)
y2 = hop_expr(L, R2, [O, O2], x2.shape, twolayer=True)(x2)
print("2-site  expr(x) == M x  :", np.allclose(y2.ravel(), M2 @ x2.ravel()), "  == M^T x:", np.allclose(y2.ravel(), M2.T @ x2.ravel()))
