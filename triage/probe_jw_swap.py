"""triage probe: operator-side Jordan-Wigner swap for qc_model Hamiltonians (documented use of ofs_swap_jw=True)"""
import numpy as np
from renormalizer.model import Model
from renormalizer.model.h_qc import qc_model, int_to_h
from renormalizer.mps import Mpo
np.random.seed(0)
norb = 2
h = np.random.rand(norb, norb); h = h + h.T
eri = np.random.rand(norb, norb, norb, norb)
eri = eri + eri.transpose(1, 0, 2, 3); eri = eri + eri.transpose(0, 1, 3, 2); eri = eri + eri.transpose(2, 3, 0, 1)
sh, aseri = int_to_h(h, eri)
basis, terms = qc_model(sh, aseri)
model = Model(basis, terms)
mpo = Mpo(model, algo="Hopcroft-Karp")
H = mpo.todense()
n = len(basis)
def two_site(U, i):
    return np.kron(np.kron(np.eye(2 ** i), U), np.eye(2 ** (n - i - 2)))
SWAP = np.array([[1, 0, 0, 0], [0, 0, 1, 0], [0, 1, 0, 0], [0, 0, 0, 1.]])
FSWAP = SWAP.copy(); FSWAP[3, 3] = -1
for i in range(n - 1):
    for jw in (False, True):
        m2 = Mpo(model, algo="Hopcroft-Karp")
        nb = list(model.basis); nb[i], nb[i + 1] = nb[i + 1], nb[i]
        new_model = Model(nb, model.ham_terms)
        m2.try_swap_site(new_model, jw)
        H2 = m2.todense()
        U = two_site(FSWAP if jw else SWAP, i)
        ref = U @ H @ U.T
        plain = two_site(SWAP, i) @ H @ two_site(SWAP, i).T
        print(f"swap sites {i},{i+1} swap_jw={jw}: matches {'fermionic' if jw else 'plain'} swap: {np.allclose(H2, ref)}   (matches plain swap: {np.allclose(H2, plain)})")
