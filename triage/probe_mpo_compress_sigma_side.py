import numpy as np, logging
logging.disable(logging.CRITICAL)
from renormalizer import Model, Mps, Mpo, Op, BasisHalfSpin
from renormalizer.utils import CompressConfig
from renormalizer.utils.configs import CompressCriteria
np.random.seed(1)
n=8
basis=[BasisHalfSpin(i) for i in range(n)]
ham=[]
for i in range(n):
    for j in range(i+1,n):
        ham.append(Op("X X",[i,j],np.random.rand())); ham.append(Op("Z Z",[i,j],np.random.rand()))
    ham.append(Op("Z",i,np.random.rand()))
model=Model(basis,ham)
mpo=Mpo(model)
D=mpo.todense()
print("bond dims", mpo.bond_dims)
for M in (3,4,6):
    m=mpo.copy(); m.compress_config=CompressConfig(CompressCriteria.fixed, max_bonddim=M)
    m.canonicalise(); m.compress()
    e=np.linalg.norm(m.todense()-D)/np.linalg.norm(D)
    # optimal-ish reference: successive SVD truncation of the dense operator viewed as a state with merged physical index (left to right, exact Schmidt at each cut)
    T=D.reshape([2]*(2*n)); perm=[x for i in range(n) for x in (i,n+i)]; V=T.transpose(perm).reshape([4]*n)
    # sequential truncated SVD (canonical, weights carried)
    rest=V.reshape(1,-1); errs=0
    A=[]
    for k in range(n-1):
        mat=rest.reshape(rest.shape[0]*4,-1)
        u,s,vt=np.linalg.svd(mat,full_matrices=False)
        keep=min(M,len(s)); 
        A.append(u[:,:keep]); rest=(s[:keep,None]*vt[:keep])
    approx=rest
    for a in reversed(A):
        approx=(a@approx.reshape(a.shape[1],-1)).reshape(-1, approx.size*a.shape[0]//a.shape[1]//a.shape[0]* (a.shape[0]//a.shape[0])) if False else (a@approx.reshape(a.shape[1],-1))
        approx=approx.reshape(a.shape[0]//4,-1)
    e2=np.linalg.norm(approx.reshape(-1)-V.reshape(-1))/np.linalg.norm(V)
    print("M",M,"library rel err %.3e"%e,"one-pass canonical SVD truncation %.3e"%e2, m.bond_dims)
