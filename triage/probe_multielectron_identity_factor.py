"""probe: BasisMultiElectron(.Vac).op_mat(Op("I I", [d1, d2], f)) must be f * identity, like every other symbol.
run: cd /repo && PYTHONPATH=/repo /venv/bin/python /verif/triage/probe_multielectron_identity_factor.py"""
import numpy as np
from renormalizer.model import Op
from renormalizer.model.basis import BasisMultiElectron, BasisMultiElectronVac

for cls in (BasisMultiElectron, BasisMultiElectronVac):
    b = cls(["e0", "e1", "e2"]) if cls is BasisMultiElectronVac else cls(["e0", "e1", "e2"], [1, 1, 1])
    for op in (Op("I", "e0", 0.5), Op("I I", ["e0", "e1"], 0.5), Op(r"a^\dagger a", ["e0", "e1"], 0.5)):
        m = b.op_mat(op)
        ref = b.op_mat(Op(op.symbol, op.dofs, 1.0)) * 0.5
        print(cls.__name__, repr(op.symbol), "factor applied:", bool(np.allclose(m, ref)), "max element", float(np.abs(m).max()))
