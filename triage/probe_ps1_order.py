import sys, types
pt = types.ModuleType("print_tree"); pt.print_tree = object; sys.modules.setdefault("print_tree", pt)
import numpy as np
MS=(1,2)
import logging
from renormalizer import Op, BasisHalfSpin
from renormalizer.tn import BasisTree, TTNS, TTNO
from renormalizer.tn.node import TreeNodeBasis
from renormalizer.utils import EvolveConfig, EvolveMethod, CompressConfig
from renormalizer.utils.configs import CompressCriteria

logging.disable(logging.CRITICAL)
def model(n):
    terms=[]
    rng=np.random.RandomState(3)
    for i in range(n):
        terms.append(Op("sigma_x", i, rng.rand()+0.3)); terms.append(Op("sigma_z", i, rng.rand()))
        for j in range(i+1,n):
            terms.append(Op("sigma_z sigma_z",[i,j], rng.rand()))
            terms.append(Op("sigma_x sigma_x",[i,j], rng.rand()*0.5))
    return terms
def tree(kind, n):
    nodes=[TreeNodeBasis([BasisHalfSpin(i)]) for i in range(n)]
    if kind=="star":
        for c in nodes[1:]: nodes[0].add_child(c)
    elif kind=="chain":
        for a,b in zip(nodes[:-1],nodes[1:]): a.add_child(b)
    elif kind=="star2":
        # 0 -> 1,3,5 ; 1->2 ; 3->4 ; 5->6
        for a in (1,3,5):
            nodes[0].add_child(nodes[a]); nodes[a].add_child(nodes[a+1])
    elif kind=="binary":
        # 0 -> 1,2 ; 1 -> 3,4
        nodes[0].add_child(nodes[1]); nodes[0].add_child(nodes[2]); nodes[1].add_child(nodes[3]); nodes[1].add_child(nodes[4])
    return BasisTree(nodes[0])
def run(kind, n, M, T, nsteps, method):
    basis=tree(kind,n)
    ttno=TTNO(basis, model(n))
    np.random.seed(7)
    ttns=TTNS.random(basis, qntot=0, m_max=M)
    ttns.canonicalise(); ttns.normalize("mps_and_coeff") if hasattr(ttns,"normalize") else None
    ttns.evolve_config=EvolveConfig(method)
    ttns.compress_config=CompressConfig(CompressCriteria.fixed, max_bonddim=M)
    dt=T/nsteps
    for _ in range(nsteps):
        ttns=ttns.evolve(ttno, dt)
    order=basis.basis_list
    return ttns.todense(order).ravel()*ttns.coeff
for method in (EvolveMethod.tdvp_ps,):
  for kind,n in (("star",4),("star2",7),("binary",5)):
    for M in MS:
        T=0.4
        ref=run(kind,n,M,T,256,method)
        errs=[]
        for ns in (4,8,16,32):
            v=run(kind,n,M,T,ns,method)
            errs.append(np.linalg.norm(v-ref))
        print(method, kind, "M",M, "errors", ["%.2e"%e for e in errs], "ratios", ["%.2f"%(errs[i]/errs[i+1]) for i in range(3)])
