import numpy as np, scipy.linalg, logging
from renormalizer import Model, Mps, Mpo, Op, BasisHalfSpin
from renormalizer.utils import EvolveConfig, EvolveMethod, CompressConfig
from renormalizer.utils.configs import CompressCriteria
logging.disable(logging.CRITICAL)
np.random.seed(3)
n=7
basis=[BasisHalfSpin(i) for i in range(n)]
ham=[]
for i in range(n-1):
    ham += [Op("X X",[i,i+1],0.7), Op("Z Z",[i,i+1],0.3)]
for i in range(n): ham += [Op("Z",i,0.2*(i+1)), Op("X",i,0.31)]
model=Model(basis,ham)
mpo=Mpo(model)
H=mpo.todense()
for method in (EvolveMethod.tdvp_ps, EvolveMethod.tdvp_ps2):
  for M,lim in ((3,3),(3,64),(8,8),(8,64)):
    for prep in ("canonical","regauge"):
        np.random.seed(5)
        a=Mps.random(model,0,M,percent=1.0)
        m=a.copy(); m.ensure_left_canonical(); m.normalize("mps_only")
        if prep=="regauge":
            k=3
            X=np.random.rand(m[k].shape[0],m[k].shape[0])+np.eye(m[k].shape[0])
            m[k-1]=np.tensordot(m[k-1].array, X, axes=1); m[k]=np.tensordot(np.linalg.inv(X), m[k].array, axes=1)
        m=m.to_complex()
        m.compress_config=CompressConfig(CompressCriteria.fixed, max_bonddim=lim)
        m.evolve_config=EvolveConfig(method)
        psi0=m.todense().ravel()*m.coeff
        for t in (0.01,0.02):
            ref=scipy.linalg.expm(-1j*H*t)@psi0
            out=m.evolve(mpo,t,normalize=False)
            v=out.todense().ravel()*out.coeff
            print(method.name, "M",M,"lim",lim, prep, "t",t, "err %.2e"%(np.linalg.norm(v-ref)/np.linalg.norm(ref)), out.bond_dims)
