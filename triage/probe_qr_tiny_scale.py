import numpy as np
from renormalizer import Model, Op, Mpo, BasisHalfSpin
basis = [BasisHalfSpin(i) for i in range(3)]
for scale in (1.0, 1e-9, 1e-11, 1e-13):
    terms = [Op("sigma_x sigma_x", [0, 1], scale), Op("sigma_z sigma_z", [1, 2], 2 * scale), Op("sigma_x", 2, 3*scale)]
    out = {}
    for algo in ("qr", "Hopcroft-Karp"):
        m = Mpo(Model(basis, terms), algo=algo)
        out[algo] = m.todense()
    ref = out["Hopcroft-Karp"]
    print(scale, "norm HK", np.linalg.norm(ref), "norm qr", np.linalg.norm(out["qr"]), "rel diff", np.linalg.norm(out["qr"] - ref) / np.linalg.norm(ref))
