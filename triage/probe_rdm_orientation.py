import numpy as np, logging
logging.disable(logging.CRITICAL)
from renormalizer import Model, Mps, Mpo, Op, BasisHalfSpin, BasisSHO
np.random.seed(2)
n=4
basis=[BasisHalfSpin(i) for i in range(n)]
model=Model(basis,[Op("X",0)])
a=Mps.random(model,0,4,percent=1.0); b=Mps.random(model,0,4,percent=1.0)
m=(a.to_complex()+b.to_complex().scale(1j)).canonicalise(); m.normalize("mps_only")
psi=(m.todense()*m.coeff).reshape([2]*n)
r1=m.calc_1site_rdm()
r2=m.calc_2site_rdm()
for i in range(n):
    ax=[k for k in range(n) if k!=i]
    rho=np.tensordot(psi,psi.conj(),(ax,ax))   # rho[a,b]=sum psi[a..]psi*[b..]
    print(i,"|lib-rho|=%.2e"%np.abs(r1[i]-rho).max(),"|lib-rho^T|=%.2e"%np.abs(r1[i]-rho.T).max())
for (i,j),v in list(r2.items())[:3]:
    ax=[k for k in range(n) if k not in (i,j)]
    rho=np.tensordot(psi,psi.conj(),(ax,ax))  # [a_i,a_j,b_i,b_j]
    print((i,j),v.shape,"|lib-rho|=%.2e"%np.abs(v-rho.reshape(4,4)).max(),"|lib-rho^T|=%.2e"%np.abs(v-rho.reshape(4,4).T).max())
# how does expectation of an operator relate: Tr(rho O)
O=np.array([[0,-1j],[1j,0]])
print("Tr(lib O)", np.trace(r1[1]@O), "Tr(lib^T O)", np.trace(r1[1].T@O))
