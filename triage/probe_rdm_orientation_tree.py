import sys, types; _pt = types.ModuleType("print_tree"); _pt.print_tree = object; sys.modules.setdefault("print_tree", _pt)
import numpy as np, logging
logging.disable(logging.CRITICAL)
from renormalizer import Model, Mps, Mpo, Op, BasisHalfSpin
from renormalizer.tn.tree import from_mps
np.random.seed(2)
n=4
basis=[BasisHalfSpin(i) for i in range(n)]
model=Model(basis,[Op("X",0)])
a=Mps.random(model,0,4,percent=1.0); b=Mps.random(model,0,4,percent=1.0)
m=(a.to_complex()+b.to_complex().scale(1j)).canonicalise(); m.normalize("mps_only")
bt, ttns, ttno = from_mps(m)
r_chain=m.calc_1site_rdm()
r_tree=ttns.calc_1site_rdm()
psi=(m.todense()*m.coeff).reshape([2]*n)
for k,(node,v) in enumerate(r_tree.items()):
    # tree nodes are reversed chain order
    i=n-1-k if not isinstance(node,int) else node
    ax=[q for q in range(n) if q!=i]
    rho=np.tensordot(psi,psi.conj(),(ax,ax))
    print(k, i, "tree-rho %.1e"%np.abs(np.asarray(v).reshape(2,2)-rho).max(), "tree-rho^T %.1e"%np.abs(np.asarray(v).reshape(2,2)-rho.T).max(), "chain-rho %.1e"%np.abs(r_chain[i]-rho).max())
print([type(k).__name__ for k in r_tree.keys()], list(r_tree.keys())[:4])
for key,v in r_tree.items():
    v=np.asarray(v).reshape(2,2)
    for i in range(n):
        ax=[q for q in range(n) if q!=i]
        rho=np.tensordot(psi,psi.conj(),(ax,ax))
        if np.abs(v-rho).max()<1e-10: print(key,"= rho of site",i)
        if np.abs(v-rho.T).max()<1e-10: print(key,"= rho^T of site",i)
