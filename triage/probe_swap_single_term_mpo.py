"""probe: on-the-fly site swap of an MPO that consists of a single term (fast path of construct_symbolic_mpo).
run: cd /repo && PYTHONPATH=/repo /venv/bin/python /verif/triage/probe_swap_single_term_mpo.py"""
import numpy as np
from renormalizer.model import Model, Op
from renormalizer.model.basis import BasisHalfSpin
from renormalizer.mps import Mpo

basis = [BasisHalfSpin(f"s{i}") for i in range(4)]
for name, terms in (("single term", [Op("sigma_x sigma_z", ["s1", "s2"], 0.7)]), ("two terms", [Op("sigma_x sigma_z", ["s1", "s2"], 0.7), Op("sigma_z", "s0", 0.2)])):
    model = Model(basis, terms)
    mpo = Mpo(model)
    dense = mpo.todense()
    new_basis = list(basis)
    new_basis[1], new_basis[2] = basis[2], basis[1]
    new_model = Model(new_basis, terms)
    try:
        mpo.try_swap_site(new_model, swap_jw=False)
        ref = Mpo(new_model).todense()
        print(name, ": swapped; equals the operator built in the new order:", np.allclose(mpo.todense(), ref))
    except Exception as e:
        print(name, ": try_swap_site raises", type(e).__name__, e)
