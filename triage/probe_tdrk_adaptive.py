"""triage probe: adaptive general-RK P&C evolver, rejected first trial step"""
import numpy as np, scipy.linalg
from renormalizer.model import Model, Op
from renormalizer.model import basis as ba
from renormalizer.mps import Mps, Mpo
from renormalizer.utils import EvolveConfig, EvolveMethod, CompressConfig, CompressCriteria
np.random.seed(3)
basis=[ba.BasisHalfSpin(i) for i in range(4)]
terms=[]
for i in range(3):
    terms += [Op("X X",[i,i+1],1.0), Op("iY iY",[i,i+1],-0.7), Op("Z Z",[i,i+1],0.5)]
terms += [Op("Z",i,0.3*(i+1)) for i in range(4)]
m=Model(basis,terms); mpo=Mpo(m); H=mpo.todense()
mps=Mps.random(m,0,4,1.0)
mps.compress_config=CompressConfig(CompressCriteria.fixed,max_bonddim=4)
mps.canonicalise()
psi0=mps.todense()*mps.coeff
T=1.0
ref=scipy.linalg.expm(-1j*T*H)@psi0
for guess in (0.05, 5.0):
    cfg=EvolveConfig(EvolveMethod.prop_and_compress_tdrk, adaptive=True, guess_dt=guess, adaptive_rtol=1e-5, rk_solver="RKF45")
    x=mps.copy(); x.evolve_config=cfg
    y=x.evolve(mpo,T)
    out=y.todense()*y.coeff
    print("guess_dt",guess,"distance to exact:", np.linalg.norm(out-ref), "norm", np.linalg.norm(out))
