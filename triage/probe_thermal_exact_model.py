import numpy as np, logging
logging.disable(logging.CRITICAL)
from renormalizer.model import Model, Op, HolsteinModel, Mol, Phonon
from renormalizer.mps import MpDm, Mpo
from renormalizer.mps.thermalprop import ThermalProp
from renormalizer.utils import Quantity, EvolveConfig, EvolveMethod
def model(omega):
    ph=[Phonon.simple_phonon(Quantity(omega), Quantity(0.5), 8)]
    mols=[Mol(Quantity(0.0), ph), Mol(Quantity(0.0), ph)]
    return HolsteinModel(mols, Quantity(0.0))
A, B = model(1.0), model(1.6)
beta = 1.2
for exact in (True, False):
    mpdm = MpDm.max_entangled_gs(A)
    tp = ThermalProp(mpdm, h_mpo_model=B, exact=exact, space="GS", evolve_config=EvolveConfig(EvolveMethod.prop_and_compress))
    tp.evolve(None, 20 if not exact else 1, -1j*beta/2)
    nocc = tp.latest_mps.ph_occupations
    be = lambda w: 1/(np.exp(beta*w)-1)
    print("exact" if exact else "p&c  ", "phonon occupation", np.round(nocc,4), " Bose-Einstein for requested H (omega=1.6):", round(be(1.6),4), " for the state's model (omega=1.0):", round(be(1.0),4))
