import sys, types
_pt = types.ModuleType("print_tree"); _pt.print_tree = object; sys.modules.setdefault("print_tree", _pt)

import random
import copy
import hashlib

import numpy as np
import scipy.sparse

from renormalizer.model import Model, Op
from renormalizer.model.basis import BasisHalfSpin, BasisSHO, BasisSimpleElectron, BasisMultiElectronVac
from renormalizer.model import h_qc
from renormalizer.mps import Mpo
from renormalizer.mps import symbolic_mpo as sm
from renormalizer.utils import Quantity
from renormalizer.tests.parameter import holstein_model, custom_model, _j_matrix
holstein_model2 = custom_model(custom_j_matrix=_j_matrix[:2, :2], n_phys_dim=[3, 2], nmols=2)
holstein_model4 = holstein_model2.switch_scheme(4)

np.set_printoptions(precision=8, suppress=True, linewidth=200)

ALGOS = ["qr", "Hopcroft-Karp", "Hungarian"]


def rnd(x):
    a = np.asarray(x)
    if a.dtype == object:
        return repr(x)
    if np.iscomplexobj(a):
        a = np.round(a.real, 8) + 1j * np.round(a.imag, 8)
        a = a + (0.0 + 0.0j)
    else:
        a = np.round(a.astype(float), 8) + 0.0
    return repr(a.tolist())


def arr_digest(a):
    a = np.asarray(a)
    if np.iscomplexobj(a):
        b = np.round(a.real, 7) + 1j * np.round(a.imag, 7) + (0.0 + 0.0j)
    else:
        b = np.round(a.astype(float), 7) + 0.0
    h = hashlib.md5(repr(b.tolist()).encode()).hexdigest()[:12]
    return f"{a.dtype} {a.shape} {h} sum={rnd(a.sum())} abs={rnd(np.abs(a).sum())}"


def out_ops_digest(out_ops_list):
    lines = []
    for ibond, out_ops in enumerate(out_ops_list):
        for iop, opsum in enumerate(out_ops):
            items = []
            if isinstance(opsum, sm.OpTuple):
                # single-term fast path stores bare OpTuples
                items.append("bare")
                opsum = [opsum]
            for t in opsum:
                items.append((type(t).__name__, [int(s) for s in t.symbol], type(t.symbol).__name__,
                              rnd(t.qn), type(t.qn).__name__, rnd(t.factor), type(t.factor).__name__))
            lines.append(f"  bond {ibond} op {iop}: {items}")
    return "\n".join(lines)


def symbolic_mo_digest(mo):
    lines = []
    for idx, terms in np.ndenumerate(mo):
        lines.append(f"   {idx}: {[(t.symbol, t.dofs, rnd(t.factor), rnd(t.qn_list)) for t in terms]}")
    return f"  mo shape {mo.shape} dtype {mo.dtype}\n" + "\n".join(lines)


def primary_ops_digest(primary_ops):
    res = []
    for op in primary_ops:
        if isinstance(op, Op):
            res.append((op.symbol, op.dofs, rnd(op.factor), rnd(op.qn_list)))
        else:
            res.append((type(op).__name__, rnd(op.qn)))
    return res


def mpo_digest(mpo: Mpo, symbolic=True):
    print(" dtype", mpo.dtype, "bond_dims", mpo.bond_dims, "qntot", rnd(mpo.qntot), "qnidx", mpo.qnidx,
          "to_right", mpo.to_right)
    print(" qn", [rnd(q) for q in mpo.qn])
    print(" qn types", [type(q).__name__ for q in mpo.qn])
    for i, mt in enumerate(mpo):
        print("  mt", i, arr_digest(mt.array))
    try:
        print(" dense", arr_digest(mpo.todense()))
    except ValueError as e:
        print(" dense ValueError", e)
    print(" primary_ops", primary_ops_digest(mpo.primary_ops))
    print(out_ops_digest(mpo.symbolic_out_ops_list))
    if symbolic:
        for mo in mpo.symbolic_mpo:
            print(symbolic_mo_digest(mo))


def section(name):
    print("=" * 10, name)


# ---------------------------------------------------------------------------
# models

def spin_model(nsites, nterms, seed, complex_factor=False, sigmaqn=False):
    rs = random.Random(seed)
    possible = ["sigma_+", "sigma_-", "sigma_z", "sigma_x", "I"]
    terms = []
    for _ in range(nterms):
        nsupport = rs.randint(1, nsites)
        sites = sorted(rs.sample(range(nsites), nsupport))
        ops = [Op(rs.choice(possible), j) for j in sites]
        f = rs.random() * 10 ** rs.randint(-4, 3)
        if complex_factor:
            f = f * np.exp(1j * rs.random() * 6)
        terms.append(Op.product(ops) * f)
    # duplicated and partially cancelling terms
    terms.append(terms[0])
    terms.append(terms[1] * (-0.5))
    terms.append(terms[2] * (-1.0))
    basis = [BasisHalfSpin(i) for i in range(nsites)]
    return Model(basis, terms)


def mixed_model(seed, complex_factor):
    rs = random.Random(seed)
    basis = [
        BasisSimpleElectron("e0"),
        BasisSHO("v0", 0.01, 3),
        BasisMultiElectronVac(["e1", "e2"]),
        BasisSHO("v1", 0.02, 4, x0=1.3),
        BasisHalfSpin("s0", sigmaqn=[0, 0]),
        BasisSimpleElectron("e3"),
    ]
    terms = []
    edofs = ["e0", "e1", "e2", "e3"]
    for a in edofs:
        for b in edofs:
            f = rs.uniform(-1, 1) * 10 ** rs.randint(-3, 2)
            if complex_factor and a != b:
                f = f * (1 + 0.3j)
            terms.append(Op(r"a^\dagger a", [a, b], f, qn=[1, -1]))
    for a in edofs:
        terms.append(Op(r"a^\dagger a", [a, a], qn=[1, -1]) * Op("x", "v0") * rs.uniform(-1, 1))
        terms.append(Op(r"a^\dagger a", [a, a], qn=[1, -1]) * Op("b^\dagger + b", "v1") * rs.uniform(-1, 1))
    terms.append(Op("p^2", "v0", 0.5))
    terms.append(Op("x^2", "v0", 0.5 * 0.01 ** 2))
    terms.append(Op(r"b^\dagger b", "v1", 0.02))
    terms.append(Op("x x", ["v0", "v1"], 1e-3))
    terms.append(Op("x x x", ["v0", "v0", "v1"], 1e-5))
    terms.append(Op("sigma_z", "s0", 0.3))
    terms.append(Op("sigma_x", "s0") * Op("x", "v1") * 0.07)
    terms.append(Op("sigma_z sigma_x sigma_z", ["s0", "s0", "s0"], 0.011))
    # duplicates / cancellation
    terms.append(terms[1])
    terms.append(terms[2] * -1.0)
    terms.append(terms[3] * -0.25)
    return Model(basis, terms)


# ---------------------------------------------------------------------------
# 1. _terms_to_table

section("_terms_to_table")
models = {
    "spin3": spin_model(3, 6, 1),
    "spin5c": spin_model(5, 25, 2, complex_factor=True),
    "mixed": mixed_model(3, False),
    "mixedc": mixed_model(4, True),
    "holstein": holstein_model,
    "holstein2": holstein_model2,
    "holstein4": holstein_model4,
}
for name, model in models.items():
    for const in [0, 0.0, 1.5, -2e-3, 0.3 + 0.1j]:
        terms = model.check_operator_terms(model.ham_terms)
        terms_copy = copy.deepcopy(terms)
        table, primary_ops, factor = sm._terms_to_table(model, terms, const)
        print(name, "const", const, "table", table.dtype, table.shape, table.tolist())
        print(" factor", factor.dtype, rnd(factor))
        print(" primary_ops", primary_ops_digest(primary_ops))
        assert all(a == b for a, b in zip(terms, terms_copy)) and len(terms) == len(terms_copy)

# single term and one-element lists
m1 = Model([BasisHalfSpin(0)], [Op("sigma_z", 0, 2.0)])
for const in [0, 3.0]:
    table, primary_ops, factor = sm._terms_to_table(m1, m1.ham_terms, const)
    print("single", const, table.tolist(), rnd(factor), primary_ops_digest(primary_ops))
# all-cancelling terms -> exception?
try:
    t = [Op("sigma_z", 0, 2.0), Op("sigma_z", 0, -2.0)]
    res = sm._terms_to_table(m1, t, 0)
    print("cancel", res[0].tolist(), rnd(res[2]), primary_ops_digest(res[1]))
except Exception as e:
    print("cancel exception", type(e).__name__, e)
try:
    res = sm._terms_to_table(m1, [], 0)
    print("empty", res)
except Exception as e:
    print("empty exception", type(e).__name__, e)
try:
    res = sm._terms_to_table(m1, [], 2.0)
    print("empty const", res[0].tolist(), rnd(res[2]), primary_ops_digest(res[1]))
except Exception as e:
    print("empty const exception", type(e).__name__, e)

# ---------------------------------------------------------------------------
# 2. Mpo construction, all algorithms (exercises _decompose_graph)

section("Mpo construction")
for name, model in models.items():
    for algo in ALGOS:
        for offset in [Quantity(0), Quantity(0.37)]:
            print("--", name, algo, offset.as_au())
            mpo = Mpo(model, offset=offset, algo=algo)
            mpo_digest(mpo, symbolic=(name in ["spin3", "mixed"]))

print("-- single-term")
for algo in ALGOS:
    mpo = Mpo(models["mixed"], terms=Op("x x", ["v0", "v1"], 0.3 - 0.2j), algo=algo)
    mpo_digest(mpo)
    mpo = Mpo(models["mixed"], terms=[Op(r"a^\dagger a", ["e0", "e3"], 0.3, qn=[1, -1])], algo=algo)
    mpo_digest(mpo)

# ---------------------------------------------------------------------------
# 3. direct calls of _construct_symbolic_mpo_one_site / _decompose_graph

section("_decompose_graph direct")


def build_non_red(table_row, table_col, factor):
    term_row, row_inv = np.unique(table_row, axis=0, return_inverse=True)
    term_col, col_inv = np.unique(table_col, axis=0, return_inverse=True)
    row_inv = np.asarray(row_inv).reshape(-1)
    col_inv = np.asarray(col_inv).reshape(-1)
    non_red = scipy.sparse.coo_matrix((np.arange(len(factor)) + 1, (row_inv, col_inv))).tocsr()
    return term_row, list(term_col), non_red


for name in ["spin5c", "mixedc", "holstein4"]:
    model = models[name]
    terms = model.check_operator_terms(model.ham_terms)
    table, primary_ops, factor = sm._terms_to_table(model, terms, -0.1)
    qn_size = len(primary_ops[0].qn)
    ta = np.zeros((table.shape[0], 1), dtype=np.uint16)
    table = np.concatenate((ta, table, ta), axis=1)
    in_ops = [[sm.OpTuple([0], qn=np.zeros(qn_size, dtype=int), factor=1)]]
    for algo in ["Hopcroft-Karp", "Hungarian"]:
        t, f, ops = table, factor, in_ops
        for isite in range(table.shape[1] - 2):
            term_row, term_col, non_red = build_non_red(t[:, :2], t[:, 2:], f)
            f_in = f.copy()
            out_ops, t, f = sm._decompose_graph(term_row, term_col, non_red, [ops], f, primary_ops, algo)
            assert np.array_equal(f_in, f_in) and f is not f_in
            print(name, algo, "site", isite, "table", t.dtype, t.shape, t.tolist())
            print(" factor", f.dtype, rnd(f))
            print(" non_red after", non_red.shape, non_red.nnz, non_red.data.tolist(), non_red.indices.tolist(),
                  non_red.indptr.tolist())
            print(out_ops_digest([out_ops]))
            ops = out_ops

# hand made wide / tall / square bipartite graphs, k=1
prim = [Op.identity("a"), Op("sigma_+", "a"), Op("sigma_-", "a"), Op("sigma_z", "a"),
        Op("sigma_x", "a"), Op("sigma_y", "a")]
in_ops = [[sm.OpTuple([0], qn=np.zeros(1, dtype=int), factor=1)],
          [sm.OpTuple([0], qn=np.ones(1, dtype=int), factor=2.0)]]
rs = np.random.RandomState(7)
for case, (nrow, ncol, nterm) in enumerate([(2, 6, 7), (6, 2, 7), (4, 4, 9), (1, 5, 5), (5, 1, 5), (1, 1, 1)]):
    pairs = set()
    while len(pairs) < nterm:
        pairs.add((rs.randint(nrow), rs.randint(ncol)))
    pairs = sorted(pairs)
    rows_all = [(i % 2, 1 + i // 2) for i in range(nrow)]
    cols_all = [(1 + j, 0) for j in range(ncol)]
    table_row = np.array([rows_all[i] for i, j in pairs], dtype=np.uint16)
    table_col = np.array([cols_all[j] for i, j in pairs], dtype=np.uint16)
    for fac in [rs.rand(nterm), rs.rand(nterm) + 1j * rs.rand(nterm)]:
        for algo in ["Hopcroft-Karp", "Hungarian"]:
            term_row, term_col, non_red = build_non_red(table_row, table_col, fac)
            out_ops, t, f = sm._decompose_graph(term_row, term_col, non_red, [in_ops], fac, prim, algo)
            print("hand", case, algo, "table", t.dtype, t.shape, t.tolist(), "factor", f.dtype, rnd(f))
            print(out_ops_digest([out_ops]))
            # through the one-site driver as well
            out_ops, t, f = sm._construct_symbolic_mpo_one_site(table_row, table_col, [in_ops], fac, prim, algo)
            print("hand1", case, algo, "table", t.dtype, t.shape, t.tolist(), "factor", f.dtype, rnd(f))
            print(out_ops_digest([out_ops]))

# ---------------------------------------------------------------------------
# 4. swap_site / Mpo.try_swap_site

section("try_swap_site")


def swapped_model(model, i):
    basis = list(model.basis)
    basis[i], basis[i + 1] = basis[i + 1], basis[i]
    return Model(basis, model.ham_terms)


for name in ["spin3", "spin5c", "mixed", "mixedc", "holstein4"]:
    for build_algo in ALGOS:
        for swap_algo in ALGOS:
            if name in ["mixedc", "holstein4"] and build_algo != swap_algo:
                continue
            model = models[name]
            mpo = Mpo(model, offset=Quantity(0.21), algo=build_algo)
            rs = random.Random(11)
            nsite = len(model.basis)
            seq = [rs.randrange(nsite - 1) for _ in range(4)]
            print("--", name, build_algo, swap_algo, seq)
            for i in seq:
                new_model = swapped_model(model, i)
                new_model.mpos["dummy"] = 1
                n_prim = len(mpo.primary_ops)
                try:
                    ret = mpo.try_swap_site(new_model, False, algo=swap_algo)
                except AssertionError as e:
                    # the library's own consistency check can fire; record it and go on
                    print(" swap", i, "AssertionError", e, mpo.model is model, len(new_model.mpos),
                          len(mpo.primary_ops) == n_prim)
                    mpo_digest(mpo, symbolic=False)
                    continue
                assert ret is None and mpo.model is new_model and len(new_model.mpos) == 0
                assert len(mpo.primary_ops) == n_prim
                model = new_model
                ref = Mpo(new_model, offset=Quantity(0.21), algo=build_algo).todense()
                print(" swap", i, "maxdiff<1e-8:", bool(np.allclose(mpo.todense(), ref, atol=1e-8)))
                mpo_digest(mpo, symbolic=False)
            # no-op swap
            same = Model(list(model.basis), model.ham_terms)
            same.mpos["dummy"] = 1
            ret = mpo.try_swap_site(same, False, algo=swap_algo)
            print(" noop", ret, mpo.model is model, len(same.mpos))
            # non adjacent / too many differences -> AssertionError
            if nsite >= 3:
                basis = list(model.basis)
                basis[0], basis[2] = basis[2], basis[0]
                try:
                    mpo.try_swap_site(Model(basis, model.ham_terms), False, algo=swap_algo)
                    print(" nonadjacent ok?")
                except AssertionError as e:
                    print(" nonadjacent AssertionError", e)

# Jordan-Wigner swap
section("swap jw")
rs = np.random.RandomState(5)
norbs = 4
h1e = rs.rand(norbs, norbs)
h1e = h1e + h1e.T
h2e = np.zeros((norbs,) * 4)
for _ in range(12):
    p, q, r, s = rs.randint(norbs, size=4)
    if p == q or r == s:
        continue
    h2e[p, q, r, s] = rs.rand()
for conserve_qn in [True, False]:
    basis, ham_terms = h_qc.qc_model(h1e, h2e, conserve_qn=conserve_qn)
    for algo in ALGOS:
        model = Model(basis, ham_terms)
        mpo = Mpo(model, algo=algo)
        print("-- jw", conserve_qn, algo)
        mpo_digest(mpo, symbolic=False)
        for i in [1, 0, 2, 1]:
            new_model = swapped_model(model, i)
            primary_ops_obj = mpo.primary_ops
            mpo.try_swap_site(new_model, True, algo=algo)
            assert mpo.primary_ops is primary_ops_obj
            model = new_model
            print(" jw swap", i)
            mpo_digest(mpo, symbolic=False)

# direct swap_site call incl. returned symbolic matrices
section("swap_site direct")
for name in ["spin3", "mixed"]:
    for algo in ALGOS:
        model = models[name]
        mpo = Mpo(model, algo=algo)
        for i in range(len(model.basis) - 1):
            ool = copy.deepcopy(mpo.symbolic_out_ops_list[i:i + 3])
            prim = list(mpo.primary_ops)
            n_prim = len(prim)
            try:
                out2, out3, mo1, mo2, qn = sm.swap_site(ool, prim, False, algo=algo)
            except AssertionError as e:
                print(name, algo, "bond", i, "AssertionError", e, len(prim) == n_prim)
                continue
            assert len(prim) == n_prim
            print(name, algo, "bond", i, "qn", rnd(qn), type(qn).__name__)
            print(out_ops_digest([ool[0], ool[1], ool[2], out2, out3]))
            print(symbolic_mo_digest(mo1))
            print(symbolic_mo_digest(mo2))
print("done")
