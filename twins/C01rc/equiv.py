"""Equivalence digest for the C01rc refactoring.

Exercises
  * renormalizer.mps.symbolic_mpo.construct_symbolic_mpo
  * renormalizer.mps.symbolic_mpo._construct_symbolic_mpo_one_site
  * renormalizer.mps.symbolic_mpo._decompose_qr
  * renormalizer.mps.symbolic_mpo.check_swap_consistency
and prints a deterministic digest.
"""
import contextlib
import io
import random

import numpy as np
import scipy.sparse

from renormalizer.model import Model, Op
from renormalizer.model.basis import BasisHalfSpin, BasisSHO, BasisSimpleElectron, BasisMultiElectron
from renormalizer.mps import Mpo
from renormalizer.mps import symbolic_mpo as sm
from renormalizer.mps.symbolic_mpo import (
    OpTuple, ExpandedOp, construct_symbolic_mpo, _construct_symbolic_mpo_one_site,
    _decompose_qr, check_swap_consistency, _terms_to_table, swap_site, expand_out_op_sum_list,
)
from renormalizer.utils import Quantity

ALGOS = ["qr", "Hopcroft-Karp", "Hungarian"]


def rnd(x):
    """canonical printable form"""
    if isinstance(x, (list, tuple)):
        return "[" + ",".join(rnd(i) for i in x) + "]"
    if isinstance(x, np.ndarray) or isinstance(x, np.matrix):
        a = np.asarray(x)
        if a.dtype == object:
            return "obj" + str(a.shape) + rnd(a.ravel().tolist())
        if a.dtype.kind == "c":
            a = np.round(a, 9) + (0.0 + 0.0j)
        elif a.dtype.kind == "f":
            a = np.round(a, 9) + 0.0
        return f"{type(x).__name__}:{a.dtype}{a.shape}{a.ravel().tolist()}"
    if isinstance(x, OpTuple):
        return f"OT({rnd(np.asarray(x.symbol))};{rnd(x.qn)};{rnd(x.factor)})"
    if isinstance(x, Op):
        return f"Op({x.symbol!r},{x.dofs!r},{rnd(x.factor)},{x.qn_list!r})"
    if isinstance(x, (complex, np.complexfloating)):
        c = complex(x)
        return f"{type(x).__name__}({round(c.real, 9) + 0.0},{round(c.imag, 9) + 0.0})"
    if isinstance(x, (float, np.floating)):
        return f"{type(x).__name__}({round(float(x), 9) + 0.0})"
    if isinstance(x, (int, np.integer)):
        return f"{type(x).__name__}({int(x)})"
    return repr(x)


def show(tag, x):
    print(tag, rnd(x))


def call(tag, f, *args, **kwargs):
    buf = io.StringIO()
    try:
        with contextlib.redirect_stdout(buf):
            res = f(*args, **kwargs)
    except Exception as e:  # noqa
        print(tag, "EXC", type(e).__name__, str(e)[:120].replace("\n", " "), "| stdout:", repr(buf.getvalue()))
        return None
    print(tag, "stdout:", repr(buf.getvalue()))
    return res


def digest_mpo(tag, mpo):
    show(tag + " qn", [np.asarray(q) for q in mpo.qn])
    show(tag + " qntot", mpo.qntot)
    show(tag + " qnidx", mpo.qnidx)
    show(tag + " dims", list(mpo.bond_dims))
    show(tag + " dtype", str(mpo.dtype))
    show(tag + " out_ops", mpo.symbolic_out_ops_list)
    show(tag + " symbolic", [mo for mo in mpo.symbolic_mpo])
    show(tag + " primary", list(mpo.primary_ops))
    show(tag + " dense", np.asarray(mpo.todense()))


# ---------------------------------------------------------------------------
# 1. construct_symbolic_mpo through Mpo, many models
# ---------------------------------------------------------------------------
def spin_model(nsites, nterms, rng, cplx=False, scale=False):
    possible = ["sigma_+", "sigma_-", "sigma_z", "sigma_x"]
    terms = []
    for i in range(nterms):
        sites = sorted(rng.sample(range(nsites), rng.randint(1, nsites)))
        f = rng.random() - 0.5
        if scale:
            f *= 10 ** rng.randint(-4, 4)
        if cplx:
            f = f + 1j * (rng.random() - 0.5)
        terms.append(Op.product([Op(rng.choice(possible), j) for j in sites]) * f)
    # duplicates and partially cancelling terms
    terms.append(terms[0] * 1.0)
    terms.append(terms[1] * (-0.5))
    basis = [BasisHalfSpin(i) for i in range(nsites)]
    return Model(basis, terms), terms


def mixed_model(rng):
    basis = [
        BasisSimpleElectron("e0"),
        BasisSHO("v0", omega=0.5, nbas=3),
        BasisSimpleElectron("e1"),
        BasisSHO("v1", omega=1.3, nbas=4, x0=0.7),
        BasisHalfSpin("s", sigmaqn=[0, 0]),
    ]
    terms = [
        Op(r"a^\dagger a", "e0", 0.3, qn=[1, -1]),
        Op(r"a^\dagger a", "e1", 0.7, qn=[1, -1]),
        Op(r"a^\dagger a", ["e0", "e1"], -0.1, qn=[1, -1]),
        Op(r"a^\dagger a", ["e1", "e0"], -0.1, qn=[1, -1]),
        Op(r"b^\dagger b", "v0", 0.5),
        Op(r"b^\dagger b", "v1", 1.3),
        Op("x", "v1", 0.2),
        Op(r"a^\dagger a", "e0", 0.11, qn=[1, -1]) * Op("x", "v0"),
        Op(r"a^\dagger a", "e1", 0.12, qn=[1, -1]) * Op("x^2", "v1"),
        Op("sigma_z", "s", 0.4),
        Op("sigma_x", "s", 2e-3) * Op("x", "v0") * Op("x", "v1"),
        Op(r"a^\dagger a", "e0", 1e3, qn=[1, -1]) * Op("sigma_z", "s"),
    ]
    return Model(basis, terms), terms


def multi_electron_model():
    basis = [
        BasisMultiElectron(["g", "e1", "e2"], [0, 1, 1]),
        BasisSHO("v0", omega=1.0, nbas=3),
        BasisSHO("v1", omega=2.0, nbas=2),
    ]
    terms = [
        Op(r"a^\dagger a", ["e1", "e1"], 1.0, qn=[1, -1]),
        Op(r"a^\dagger a", ["e2", "e2"], 1.5, qn=[1, -1]),
        Op(r"a^\dagger a", ["e1", "e2"], 0.2, qn=[1, -1]),
        Op(r"a^\dagger a", ["e2", "e1"], 0.2, qn=[1, -1]),
        Op(r"a^\dagger a", ["e1", "g"], 0.05, qn=[1, 0]),
        Op(r"b^\dagger b", "v0", 1.0),
        Op(r"b^\dagger b", "v1", 2.0),
        Op(r"a^\dagger a", ["e1", "e1"], 0.3, qn=[1, -1]) * Op(r"b^\dagger + b", "v0"),
        Op(r"a^\dagger a", ["e2", "e2"], 0.4, qn=[1, -1]) * Op(r"b^\dagger + b", "v1"),
    ]
    return Model(basis, terms), terms


def part1():
    rng = random.Random(2024)
    cases = []
    for nsites, nterms, cplx, scale in [(1, 1, False, False), (1, 3, True, False), (2, 4, False, True),
                                        (3, 7, True, True), (4, 12, False, False), (5, 20, True, True)]:
        cases.append((f"spin{nsites}x{nterms}", spin_model(nsites, nterms, rng, cplx, scale), Quantity(0)))
    cases.append(("mixed", mixed_model(rng), Quantity(0)))
    cases.append(("mixed_off", mixed_model(rng), Quantity(0.37)))
    cases.append(("multi_e", multi_electron_model(), Quantity(-1.2)))
    for name, (model, terms), offset in cases:
        for algo in ALGOS:
            tag = f"P1 {name} {algo}"
            mpo = call(tag, Mpo, model, terms, offset, algo)
            if mpo is not None:
                digest_mpo(tag, mpo)
    # single term (the fast path), with and without offset, real and complex
    for nsites in [1, 2, 4]:
        basis = [BasisHalfSpin(i) for i in range(nsites)]
        for f in [1.0, -2.5, 0.3 - 0.4j]:
            term = Op.product([Op("sigma_+" if j % 2 == 0 else "sigma_z", j) for j in range(nsites)]) * f
            model = Model(basis, [term])
            for algo in ALGOS:
                tag = f"P1 single{nsites} {f} {algo}"
                mpo = call(tag, Mpo, model, [term], Quantity(0), algo)
                if mpo is not None:
                    digest_mpo(tag, mpo)
    # single term with quantum number
    basis = [BasisSimpleElectron("e0"), BasisSHO("v", 1.0, 3), BasisSimpleElectron("e1")]
    term = Op(r"a^\dagger a", ["e0", "e1"], 0.25, qn=[1, -1]) * Op("x", "v")
    model = Model(basis, [term])
    for algo in ALGOS:
        tag = f"P1 single_qn {algo}"
        mpo = call(tag, Mpo, model, [term], Quantity(0), algo)
        if mpo is not None:
            digest_mpo(tag, mpo)


# ---------------------------------------------------------------------------
# 2. construct_symbolic_mpo called directly (return tuple, odd inputs)
# ---------------------------------------------------------------------------
def show_construct(tag, res):
    if res is None:
        return
    mpo, mpoqn, qntot, qnidx, out_ops_list, primary_ops = res
    show(tag + " mpo", list(mpo))
    show(tag + " mpoqn", list(mpoqn))
    show(tag + " mpoqn types", [type(q).__name__ + str(np.asarray(q).dtype) for q in mpoqn])
    show(tag + " qntot", qntot)
    show(tag + " qnidx", qnidx)
    show(tag + " out_ops", out_ops_list)
    show(tag + " primary", list(primary_ops))


def part2():
    rng = random.Random(7)
    model, terms = spin_model(3, 6, rng, cplx=True)
    terms = model.check_operator_terms(terms)
    for const in [0, 0.5, -2.0]:
        table, primary_ops, factor = _terms_to_table(model, terms, const)
        for algo in ALGOS + ["qr-foo", "nonsense"]:
            tag = f"P2 direct const={const} {algo}"
            p = list(primary_ops)
            res = call(tag, construct_symbolic_mpo, table.copy(), p, factor.copy(), algo)
            show_construct(tag, res)
            show(tag + " same primary object", res is not None and res[5] is p)
        # default algo
        tag = f"P2 direct const={const} default"
        show_construct(tag, call(tag, construct_symbolic_mpo, table.copy(), list(primary_ops), factor.copy()))
    # single-row tables
    model, terms = mixed_model(rng)
    for it, t in enumerate(model.check_operator_terms(terms)):
        table, primary_ops, factor = _terms_to_table(model, [t], 0)
        tag = f"P2 onerow {it}"
        f0 = factor.copy()
        res = call(tag, construct_symbolic_mpo, table, primary_ops, f0, "qr")
        show_construct(tag, res)
        show(tag + " factor after", f0)
        show(tag + " table after", table)
    # one row, zero sites -> exception path
    model1 = Model([BasisHalfSpin(0)], [Op("sigma_z", 0)])
    _, primary_ops, _ = _terms_to_table(model1, [Op("sigma_z", 0)], 0)
    call("P2 onerow zero sites", construct_symbolic_mpo, np.zeros((1, 0), dtype=np.uint16), primary_ops, np.array([1.0]))
    call("P2 empty primary", construct_symbolic_mpo, np.zeros((1, 1), dtype=np.uint16), [], np.array([1.0]))
    call("P2 empty factor", construct_symbolic_mpo, np.zeros((1, 1), dtype=np.uint16), primary_ops, np.array([]))
    call("P2 bad index", construct_symbolic_mpo, np.array([[7]], dtype=np.uint16), primary_ops, np.array([1.0]))
    # duplicated rows -> assertion in _construct_symbolic_mpo
    call("P2 dup rows", construct_symbolic_mpo, np.array([[0], [0]], dtype=np.uint16), primary_ops, np.array([1.0, 2.0]))


# ---------------------------------------------------------------------------
# 3. _construct_symbolic_mpo_one_site and _decompose_qr directly
# ---------------------------------------------------------------------------
def show_one_site(tag, res):
    if res is None:
        return
    out_ops, table, factor = res
    show(tag + " out_ops", out_ops)
    show(tag + " table", np.asarray(table))
    show(tag + " factor", np.asarray(factor))


def part3():
    rng = random.Random(99)
    nprng = np.random.RandomState(5)
    for icase, (nsites, nterms, cplx, scale) in enumerate([(3, 5, False, False), (4, 15, True, True), (5, 30, False, True), (2, 3, True, False)]):
        model, terms = spin_model(nsites, nterms, rng, cplx, scale)
        terms = model.check_operator_terms(terms)
        table, primary_ops, factor = _terms_to_table(model, terms, 0.25)
        qn_size = len(primary_ops[0].qn)
        ta = np.zeros((table.shape[0], 1), dtype=np.uint16)
        for algo in ALGOS:
            tab = np.concatenate((ta, table, ta), axis=1)
            fac = factor.copy()
            in_ops = [[OpTuple([0], qn=np.zeros(qn_size, dtype=int), factor=1)]]
            for isite in range(nsites):
                tag = f"P3 case{icase} {algo} site{isite}"
                trow, tcol = tab[:, :2].copy(), tab[:, 2:].copy()
                fbefore = fac.copy()
                res = call(tag, _construct_symbolic_mpo_one_site, trow, tcol, [in_ops], fac, primary_ops, algo)
                show_one_site(tag, res)
                show(tag + " args unchanged", [bool(np.array_equal(trow, tab[:, :2])), bool(np.array_equal(tcol, tab[:, 2:])),
                                                 bool(np.array_equal(fbefore, fac))])
                if res is None:
                    break
                in_ops, tab, fac = res

                # _decompose_qr on the very same decomposition problem of the next site
                if isite + 1 < nsites:
                    term_row, rinv = np.unique(tab[:, :2], axis=0, return_inverse=True)
                    term_col, cinv = np.unique(tab[:, 2:], axis=0, return_inverse=True)
                    non_red = scipy.sparse.coo_matrix((np.arange(len(fac)) + 1, (np.ravel(rinv), np.ravel(cinv)))).tocsr()
                    tag2 = tag + " qr-next"
                    res2 = call(tag2, _decompose_qr, term_row, list(term_col), non_red, [in_ops], fac.copy(), primary_ops, "qr")
                    show_one_site(tag2, res2)

    # _decompose_qr with hand made gamma matrices: rank deficient, single column, complex, tiny entries
    I = Op.identity(0)
    prim = [I, Op("sigma_z", 0), Op("sigma_+", 0, qn=1), Op("sigma_-", 0, qn=-1), Op("sigma_x", 0)]
    gammas = {
        "rankdef": np.array([[1.0, 2.0, 3.0], [2.0, 4.0, 6.0], [0.0, 1.0, 1.0]]),
        "single_col": np.array([[0.5], [-2.0], [1e-12]]),
        "single_row": np.array([[0.5, -2.0, 3.0, 1e-13]]),
        "one_by_one": np.array([[-3.0]]),
        "complex": np.array([[1 + 1j, 2.0, 0], [0, 1j, 1e-3], [1e3, 0, -1j], [0.1, 0.2, 0.3]]),
        "tiny": np.array([[1.0, 1e-11], [1e-11, 1e-12]]),
        "wide": nprng.rand(2, 4) - 0.5,
        "tall": nprng.rand(4, 2) - 0.5,
    }
    for name, gamma in gammas.items():
        nrow, ncol = gamma.shape
        term_row = np.array([[0, 1 + (i % 4)] if i < 4 else [0, 0] for i in range(nrow)], dtype=np.uint16)
        term_col = [np.array([j % 5, 0], dtype=np.uint16) for j in range(ncol)]
        rows, cols = np.nonzero(gamma)
        factor = gamma[rows, cols]
        non_red = scipy.sparse.coo_matrix((np.arange(len(factor)) + 1, (rows, cols)), shape=gamma.shape).tocsr()
        in_ops = [[OpTuple([0], qn=np.zeros(1, dtype=int), factor=1)]]
        tag = f"P3 gamma {name}"
        res = call(tag, _decompose_qr, term_row, term_col, non_red, [in_ops], factor, prim, "qr")
        show_one_site(tag, res)
        if res is not None:
            show(tag + " factor types", [type(o.factor).__name__ for ops in res[0] for o in ops])
        show(tag + " non_red.data after", non_red.data)
        # through the dispatcher as well
        table_row = term_row[rows]
        table_col = np.array([term_col[c] for c in cols])
        for algo in ["qr", "qr_x", "Hopcroft-Karp", "Hungarian"]:
            tag = f"P3 gamma {name} dispatch {algo}"
            res = call(tag, _construct_symbolic_mpo_one_site, table_row, table_col, [in_ops], factor, prim, algo)
            show_one_site(tag, res)
    # shape mismatch -> assertion
    call("P3 assert in_ops_list", _construct_symbolic_mpo_one_site, np.zeros((2, 3), dtype=np.uint16),
         np.array([[1, 0], [2, 0]], dtype=np.uint16), [[[OpTuple([0], 0, 1)]]], np.array([1.0, 2.0]), prim, "qr")
    call("P3 assert qr shape", _decompose_qr, np.zeros((2, 2), dtype=np.uint16), [np.zeros(2)], scipy.sparse.csr_matrix(np.ones((3, 3), dtype=int)),
         [[[OpTuple([0], 0, 1)]]], np.array([1.0, 2.0]), prim, "qr")
    call("P3 algo not str", _construct_symbolic_mpo_one_site, np.array([[0, 1], [0, 2]], dtype=np.uint16),
         np.array([[1, 0], [2, 0]], dtype=np.uint16), [[[OpTuple([0], 0, 1)]]], np.array([1.0, 2.0]), prim, None)
    # k = 2 (two local symbols per row)
    in_ops = [[OpTuple([0], qn=np.zeros(1, dtype=int), factor=1)]]
    table_row = np.array([[0, 1, 2], [0, 2, 3], [0, 1, 2], [0, 3, 3]], dtype=np.uint16)
    table_col = np.array([[1, 0], [1, 0], [2, 0], [2, 0]], dtype=np.uint16)
    for algo in ALGOS:
        tag = f"P3 k2 {algo}"
        res = call(tag, _construct_symbolic_mpo_one_site, table_row, table_col, [in_ops], np.array([1.0, 2.0, 3.0, 4.0]), prim, algo, k=2)
        show_one_site(tag, res)


# ---------------------------------------------------------------------------
# 4. check_swap_consistency (direct + through swap_site / try_swap_site)
# ---------------------------------------------------------------------------
def part4():
    rng = random.Random(31)
    for icase, (nsites, nterms, cplx, scale) in enumerate([(2, 4, False, False), (4, 12, True, True), (5, 25, False, True)]):
        model, terms = spin_model(nsites, nterms, rng, cplx, scale)
        for algo in ALGOS:
            mpo = Mpo(model, terms, algo=algo)
            basis = list(model.basis)
            for iswap in range(6):
                i = rng.randint(0, nsites - 2)
                tag = f"P4 case{icase} {algo} swap{iswap}@{i}"
                # direct call of swap_site on a copy, plus direct call of the checker
                ool = [list(map(list, x)) for x in mpo.symbolic_out_ops_list[i:i + 3]]
                res = call(tag + " swap_site", swap_site, ool, list(mpo.primary_ops), False, algo)
                if res is not None:
                    new2, new3, mo1, mo2, qn = res
                    expanded = [expand_out_op_sum_list(ool[1], s) for s in ool[2]]
                    r = call(tag + " check ok", check_swap_consistency, new2, new3, expanded)
                    show(tag + " check ret", r)
                    show(tag + " new2", new2)
                    show(tag + " new3", new3)
                    # perturbed -> must fail identically
                    bad = [list(e) for e in expanded]
                    bad[0][0] = ExpandedOp(bad[0][0].factor * 1.5, *bad[0][0][1:])
                    call(tag + " check perturbed", check_swap_consistency, new2, new3, bad)
                    bad = [list(e) for e in expanded]
                    bad[-1] = bad[-1] + [ExpandedOp(0.77, 0, 0, 0)]
                    call(tag + " check extra term", check_swap_consistency, new2, new3, bad)
                    bad = [list(e) for e in expanded]
                    bad[-1] = [ExpandedOp(e.factor, e.out_ops1_idx, e.site2_op_idx, e.site1_op_idx) for e in bad[-1]]
                    call(tag + " check symbol swapped", check_swap_consistency, new2, new3, bad)
                    call(tag + " check short", check_swap_consistency, new2, new3, expanded[:-1])
                    call(tag + " check empty row", check_swap_consistency, new2, new3, [[]] + expanded[1:])
                    call(tag + " check empty new", check_swap_consistency, new2, [[]] + list(new3[1:]), expanded)
                    call(tag + " check bad idx", check_swap_consistency, new2,
                         [[OpTuple([len(new2) + 3, 0], 0, 1.0)]] + list(new3[1:]), expanded)
                    call(tag + " check nothing", check_swap_consistency, new2, [], [])
                basis = basis.copy()
                basis[i], basis[i + 1] = basis[i + 1], basis[i]
                new_model = Model(basis, terms)
                call(tag + " try_swap", mpo.try_swap_site, new_model, False, algo)
                show(tag + " dense", np.asarray(mpo.todense()))
                show(tag + " qn", [np.asarray(q) for q in mpo.qn])
                show(tag + " out_ops", mpo.symbolic_out_ops_list)
    # hand made, duplicated keys that cancel and integer/complex factors
    new2 = [[OpTuple([0, 1], 0, 2.0)], [OpTuple([0, 2], 0, 1), OpTuple([0, 1], 0, -1j)]]
    new3 = [[OpTuple([0, 3], 0, 0.5), OpTuple([1, 4], 0, 1.0)], [OpTuple([1, 3], 0, 2)]]
    expanded = [[ExpandedOp(1.0, 0, 3, 1), ExpandedOp(1.0, 0, 4, 2), ExpandedOp(-1j, 0, 4, 1),
                 ExpandedOp(5.0, 0, 1, 1), ExpandedOp(-5.0, 0, 1, 1)],
                [ExpandedOp(2, 0, 3, 2), ExpandedOp(-2j, 0, 3, 1)]]
    show("P4 hand ret", call("P4 hand", check_swap_consistency, new2, new3, expanded))
    expanded[1][0] = ExpandedOp(2 + 1e-6, 0, 3, 2)
    call("P4 hand tol", check_swap_consistency, new2, new3, expanded)
    expanded[1][0] = ExpandedOp(2 + 1e-10, 0, 3, 2)
    call("P4 hand tol2", check_swap_consistency, new2, new3, expanded)


if __name__ == "__main__":
    part1()
    part2()
    part3()
    part4()
