# -*- coding: utf-8 -*-
# Equivalence check for the C01 refactoring (Op.split_elementary, _terms_to_table,
# _decompose_qr, compose_symbolic_mo).  Prints a deterministic digest.
import random
from collections import defaultdict, OrderedDict

import numpy as np
import scipy.sparse

from renormalizer.model import Model, Op
from renormalizer.model.basis import (
    BasisHalfSpin, BasisSHO, BasisSimpleElectron, BasisMultiElectron, BasisMultiElectronVac,
)
from renormalizer.mps import Mpo
from renormalizer.mps.symbolic_mpo import (
    OpTuple, _terms_to_table, _decompose_qr, _construct_symbolic_mpo_one_site,
    _construct_symbolic_mpo, compose_symbolic_mo, construct_symbolic_mpo,
)
from renormalizer.utils import Quantity

np.set_printoptions(linewidth=200, threshold=100000)


def rnd(x, n=8):
    a = np.round(np.asarray(x), n) + 0.0
    return a.tolist()


def fmt_op(op):
    f = op.factor
    return (op.symbol, [repr(d) for d in op.dofs], type(f).__name__, rnd(f), [q.tolist() for q in op.qn_list])


def fmt_optuple(o):
    return (np.asarray(o.symbol).tolist(), np.asarray(o.qn).tolist(),
            type(o.factor).__name__, rnd(o.factor))


def fmt_out_ops(out_ops):
    return [[fmt_optuple(o) for o in sumlist] for sumlist in out_ops]


def section(name):
    print("=" * 10, name)


# ---------------------------------------------------------------- split_elementary
section("split_elementary")
cases = [
    (Op("X", "v0", 2.5), {"v0": 0}),
    (Op("X", "v0", 2.5), {}),  # single DoF: the mapping is not consulted
    (Op("X Y", [3, 2], 0.5) * Op("Y X", [2, 3], 3.0) * Op("Z Z", [2, 2], 1.0), {2: 0, 3: 1}),
    (Op("X Y", [3, 2], 0.5) * Op("Y X", [2, 3], 3.0) * Op("Z Z", [2, 2], 1.0), {2: 1, 3: 0}),
    (Op(r"a^\dagger a", ["e0", "e1"], 1.0 + 2.0j), {"e0": 0, "e1": 0}),
    (Op(r"a^\dagger a", ["e0", "e1"], 1.0 + 2.0j), {"e0": 5, "e1": 2}),
    (Op(r"a^\dagger a b^\dagger + b x", ["e0", "e1", "v", "v"], -1e-6, qn=[[1, 0], [-1, 0], [0, 0], [0, 0]]),
     {"e0": 1, "e1": 1, "v": 0}),
    (Op("sigma_+ sigma_- sigma_z sigma_z", [("s", 0), ("s", 1), ("s", 0), ("s", 2)], 3, qn=[1, -1, 0, 0]),
     OrderedDict([(("s", 2), 0), (("s", 1), 1), (("s", 0), 2)])),
    (Op("I I", ["a", "b"], 1.0), defaultdict(int, {"a": 1, "b": 0})),
    (Op("x x x", "v", 7.0), {"v": 3}),
]
for op, mapping in cases:
    ops, factor = op.split_elementary(mapping)
    print(fmt_op(op), "->", [fmt_op(o) for o in ops], type(factor).__name__, rnd(factor))
    # the argument must not be mutated
    print("  mapping", sorted((repr(k), v) for k, v in mapping.items()))

bad_cases = [
    (Op("X Y", ["a", "b"], 1.0), {"a": 0}),
    (Op("X Y", ["a", "b"], 1.0), {"a": 0, "b": None}),
    (Op("X Y", ["a", "b"], 1.0), defaultdict(int, {"a": 0})),
    (Op("X Y", ["a", "b"], 1.0), {"a": 0, "b": "1"}),
]
for op, mapping in bad_cases:
    try:
        res = op.split_elementary(mapping)
        print("no error", [fmt_op(o) for o in res[0]], res[1], sorted(mapping.items()))
    except Exception as e:
        print("error", type(e).__name__, str(e), sorted(mapping.items(), key=repr))


# ---------------------------------------------------------------- models
def make_models():
    models = OrderedDict()
    models["spin4"] = [BasisHalfSpin(i) for i in range(4)]
    models["spin1"] = [BasisHalfSpin("only")]
    models["mixed"] = [
        BasisSimpleElectron("e0"),
        BasisSHO("v0", omega=1.3, nbas=3),
        BasisHalfSpin("s0", sigmaqn=[0, 0]),
        BasisSHO("v1", omega=0.7, nbas=4, x0=0.4),
        BasisSimpleElectron("e1"),
    ]
    models["multi"] = [
        BasisSHO("v0", omega=1.0, nbas=3),
        BasisMultiElectron(["e0", "e1", "e2"], [1, 1, 1]),
        BasisSHO("v1", omega=2.0, nbas=2),
        BasisHalfSpin("s"),
    ]
    models["multivac"] = [
        BasisMultiElectronVac(["e0", "e1"]),
        BasisSHO("v0", omega=1.0, nbas=3),
    ]
    return models


def random_terms(name, basis, rng, nterms, complex_factor):
    terms = []
    for _ in range(nterms):
        nfac = rng.randint(1, 4)
        op_list = []
        used = set()
        for _ in range(nfac):
            b = rng.choice(basis)
            if not isinstance(b, BasisHalfSpin):
                # only the spin basis evaluates arbitrary products of symbols
                if id(b) in used:
                    continue
                used.add(id(b))
            if isinstance(b, BasisHalfSpin):
                op_list.append(Op(rng.choice(["sigma_+", "sigma_-", "sigma_z", "sigma_x", "I"]), b.dof))
            elif isinstance(b, BasisSHO):
                op_list.append(Op(rng.choice(["x", "x^2", r"b^\dagger b", r"b^\dagger + b", "x^3", "p^2", "I"]), b.dof))
            elif isinstance(b, BasisSimpleElectron):
                op_list.append(Op(r"a^\dagger a", b.dof))
            else:
                d1, d2 = rng.choice(b.dofs), rng.choice(b.dofs)
                op_list.append(Op(r"a^\dagger a", [d1, d2]))
        if not op_list:
            op_list.append(Op.identity(basis[0].dofs[0]))
        factor = rng.choice([1.0, -1.0, 0.5]) * 10 ** rng.uniform(-4, 3)
        if complex_factor:
            factor = factor * complex(rng.uniform(-1, 1), rng.uniform(-1, 1))
        terms.append(Op.product(op_list) * factor)
    # duplicates and (partially) cancelling terms
    terms.append(terms[0])
    terms.append(terms[1] * -1.0)
    terms.append(terms[2] * -0.25)
    return terms


def dump_table(table, primary_ops, factor):
    print("table", table.dtype, table.shape)
    print(table)
    print("primary_ops", [fmt_op(o) for o in primary_ops])
    print("factor", factor.dtype, rnd(factor, 10))


# ---------------------------------------------------------------- _terms_to_table
section("_terms_to_table")
rng = random.Random(2024)
tables = OrderedDict()
for name, basis in make_models().items():
    for complex_factor in (False, True):
        for const in (0, 0.0, -1.75, 0.3 - 0.2j):
            nterms = rng.randint(3, 12)
            terms = random_terms(name, basis, rng, nterms, complex_factor)
            model = Model(basis, [])
            terms_before = [fmt_op(t) for t in terms]
            try:
                table, primary_ops, factor = _terms_to_table(model, terms, const)
            except Exception as e:
                print(name, complex_factor, const, "error", type(e).__name__, e)
                continue
            assert terms_before == [fmt_op(t) for t in terms]
            print("--", name, complex_factor, const, len(terms))
            dump_table(table, primary_ops, factor)
            tables[(name, complex_factor, const)] = (table, primary_ops, factor, basis)

# a single term, an identity term only, and an unknown DoF
m = Model([BasisHalfSpin(0), BasisHalfSpin(1)], [])
dump_table(*_terms_to_table(m, [Op("sigma_z", 1, 2.0)], 0))
dump_table(*_terms_to_table(m, [Op("I", 0, 2.0)], 1.5))
dump_table(*_terms_to_table(m, [Op("sigma_z sigma_x sigma_z", [1, 0, 1], 2.0j)], np.float64(0.5)))
try:
    _terms_to_table(m, [Op("sigma_z sigma_z", [0, 7], 2.0)], 0)
except Exception as e:
    print("error", type(e).__name__, e)
try:
    # everything cancels
    print(_terms_to_table(m, [Op("sigma_z", 0, 2.0), Op("sigma_z", 0, -2.0)], 0))
except Exception as e:
    print("error", type(e).__name__, e)
try:
    print(_terms_to_table(m, [], 0))
except Exception as e:
    print("error", type(e).__name__)


# ---------------------------------------------------------------- _decompose_qr
section("_decompose_qr / one site")


def one_site_inputs(table, factor, primary_ops):
    qn_size = len(primary_ops[0].qn)
    ta = np.zeros((table.shape[0], 1), dtype=np.uint16)
    table = np.concatenate((ta, table, ta), axis=1)
    in_ops = [[OpTuple([0], qn=np.zeros(qn_size, dtype=int), factor=1)]]
    return table, in_ops


def unique_split(table_row, table_col, factor):
    term_row, row_inv = np.unique(table_row, axis=0, return_inverse=True)
    term_col, col_inv = np.unique(table_col, axis=0, return_inverse=True)
    non_red = scipy.sparse.coo_matrix(
        (np.arange(len(factor)) + 1, (np.ravel(row_inv), np.ravel(col_inv)))).tocsr()
    return term_row, list(term_col), non_red


for key, (table, primary_ops, factor, basis) in tables.items():
    if len(table) < 2:
        continue
    print("--", key)
    big_table, in_ops = one_site_inputs(table, factor, primary_ops)
    cur_table, cur_factor = big_table, factor
    nsite = big_table.shape[1] - 2
    for isite in range(nsite):
        # direct call of _decompose_qr
        term_row, term_col, non_red = unique_split(cur_table[:, :2], cur_table[:, 2:], cur_factor)
        factor_copy = cur_factor.copy()
        o1, t1, f1 = _decompose_qr(term_row, term_col, non_red, [in_ops], cur_factor, primary_ops, "qr")
        assert np.array_equal(factor_copy, cur_factor)
        print("direct", isite, fmt_out_ops(o1))
        print(np.asarray(t1).dtype, np.asarray(t1).tolist(), np.asarray(f1).dtype, rnd(f1))
        # data of the sparse matrix is overwritten in place by the factors
        print("non_red.data", non_red.data.dtype, rnd(non_red.data))
        # through the dispatcher
        out_ops, cur_table, cur_factor = _construct_symbolic_mpo_one_site(
            cur_table[:, :2], cur_table[:, 2:], [in_ops], cur_factor, primary_ops, "qr")
        print("dispatch", isite, fmt_out_ops(out_ops))
        print(np.asarray(cur_table).dtype, np.asarray(cur_table).tolist(), rnd(cur_factor))
        in_ops = out_ops

# hand made gamma matrices: rank deficient, one column, one row, tiny entries, k=2
prim = [Op.identity("d", qn_size=2), Op("a", "d", qn=[[1, 0]]), Op("b", "d", qn=[[0, -1]]), Op("c", "d", qn=[[2, 2]])]
in_ops_a = [[OpTuple([0], qn=np.array([0, 0]), factor=1)], [OpTuple([0, 1], qn=np.array([1, 0]), factor=1.0)],
            [OpTuple([0, 2], qn=np.array([0, -1]), factor=2.0)]]
gammas = [
    np.array([[1.0, 2.0], [2.0, 4.0], [0.0, 1e-13]]),
    np.array([[1.0], [0.0], [-3.0]]),
    np.array([[1.0, 1e-12, 5.0]]),
    np.array([[1.0 + 1j, 2.0, 0.0], [0.0, 1e3, 1e-9j], [1e-5, 0.0, 1.0]]),
    np.array([[0.5, 0.5], [0.5, -0.5]]),
    np.array([[3.0]]),
]
for g in gammas:
    nrow, ncol = g.shape
    term_row = np.array([[i % 3, (i + 1) % 4] for i in range(nrow)], dtype=np.uint16)
    term_col = [np.array([(j + 1) % 4, 0], dtype=np.uint16) for j in range(ncol)]
    rows, cols = np.nonzero(g)
    fac = g[rows, cols]
    non_red = scipy.sparse.coo_matrix((np.arange(len(fac)) + 1, (rows, cols)), shape=g.shape).tocsr()
    o, t, f = _decompose_qr(term_row, term_col, non_red, [in_ops_a], fac, prim, "qr", 1)
    print("gamma", g.shape, fmt_out_ops(o), np.asarray(t).tolist(), np.asarray(f).dtype, rnd(f))
# k = 2: two primary operators per row
term_row = np.array([[0, 1, 2], [1, 0, 3], [2, 2, 2]], dtype=np.uint16)
term_col = [np.array([1, 0], dtype=np.uint16), np.array([2, 0], dtype=np.uint16)]
g = np.array([[1.0, 0.0], [0.5, 2.0], [0.0, -1.0]])
rows, cols = np.nonzero(g)
fac = g[rows, cols]
non_red = scipy.sparse.coo_matrix((np.arange(len(fac)) + 1, (rows, cols)), shape=g.shape).tocsr()
o, t, f = _decompose_qr(term_row, term_col, non_red, [in_ops_a], fac, prim, "qr", 2)
print("k=2", fmt_out_ops(o), np.asarray(t).tolist(), rnd(f))


# ---------------------------------------------------------------- compose_symbolic_mo
section("compose_symbolic_mo")


def fmt_mo(mo):
    return (mo.shape, str(mo.dtype), [[[fmt_op(o) for o in cell] for cell in row] for row in mo])


for key, (table, primary_ops, factor, basis) in tables.items():
    if len(table) < 2:
        continue
    for algo in ("qr", "Hopcroft-Karp", "Hungarian"):
        big_table, in_ops = one_site_inputs(table, factor, primary_ops)
        out_ops_list = _construct_symbolic_mpo(big_table, in_ops, factor, primary_ops, algo)
        print("--", key, algo)
        for i in range(len(out_ops_list) - 1):
            mo = compose_symbolic_mo(out_ops_list[i], out_ops_list[i + 1], primary_ops)
            print(fmt_mo(mo))

prim2 = [Op.identity("d"), Op("x", "d", 1.0), Op("p", "d", 2.0)]
print(fmt_mo(compose_symbolic_mo([[]], [], prim2)))
print(fmt_mo(compose_symbolic_mo([], [], prim2)))
print(fmt_mo(compose_symbolic_mo([[], []], [[], []], prim2)))
mo = compose_symbolic_mo(
    [[], []],
    [[OpTuple([1, 2], 0, 2.0), OpTuple([0, 1], 0, np.float64(0.5)), OpTuple([1, 2], 0, 1j)],
     [OpTuple(np.array([0, 0], dtype=np.uint16), 0, 1)], []],
    prim2)
print(fmt_mo(mo))
# every cell is an independent list
print(len({id(cell) for _, cell in np.ndenumerate(mo)}))
for bad_in, bad_out in [([[]], [[OpTuple([1, 0], 0, 1.0)]]), ([], [[OpTuple([0, 0], 0, 1.0)]]),
                        ([[]], [[OpTuple([0, 5], 0, 1.0)]])]:
    try:
        print(fmt_mo(compose_symbolic_mo(bad_in, bad_out, prim2)))
    except Exception as e:
        print("error", type(e).__name__, e)


# ---------------------------------------------------------------- whole MPO
section("Mpo")
rng = random.Random(7)
for name, basis in make_models().items():
    for complex_factor in (False, True):
        terms = random_terms(name, basis, rng, 8, complex_factor)
        for offset in (0.0, 0.37):
            for algo in ("qr", "Hopcroft-Karp", "Hungarian"):
                model = Model(basis, [])
                mpo = Mpo(model, terms, offset=Quantity(offset), algo=algo)
                dense = mpo.todense()
                print(name, complex_factor, offset, algo, mpo.bond_dims, str(mpo.dtype),
                      [np.asarray(q).tolist() for q in mpo.qn], np.asarray(mpo.qntot).tolist(), mpo.qnidx)
                print(rnd(np.linalg.norm(dense), 6), rnd(dense.sum(), 6), rnd(np.abs(dense).sum(), 6))
                for mt in mpo:
                    a = np.asarray(mt)
                    print(a.shape, rnd(a.ravel()[:: max(1, a.size // 7)], 7))

# single term (shortcut in construct_symbolic_mpo)
model = Model([BasisHalfSpin(i) for i in range(3)], [])
mpo = Mpo(model, Op("sigma_z sigma_x", [0, 2], 0.3))
print(rnd(mpo.todense()))

section("swap")
rng = random.Random(11)
for algo in ("qr", "Hopcroft-Karp", "Hungarian"):
    nsites = 5
    terms = []
    for _ in range(12):
        op_list = [Op(rng.choice(["sigma_+", "sigma_-", "sigma_z"]), j) for j in range(nsites)]
        terms.append(Op.product(op_list) * rng.uniform(-1, 1))
    basis = [BasisHalfSpin(i) for i in range(nsites)]
    mpo = Mpo(Model(basis, terms), algo=algo)
    for _ in range(6):
        i1 = rng.randint(0, nsites - 2)
        basis = basis.copy()
        basis[i1], basis[i1 + 1] = basis[i1 + 1], basis[i1]
        new_model = Model(basis, terms)
        mpo.try_swap_site(new_model, False, algo=algo)
        dense = mpo.todense()
        ref = Mpo(new_model, algo=algo).todense()
        print(algo, i1, mpo.bond_dims, rnd(np.linalg.norm(dense), 6), rnd(np.abs(dense - ref).max(), 8),
              rnd(dense.ravel()[::97], 6))
print("done")
