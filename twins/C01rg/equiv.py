"""Equivalence digest for the C01rg refactoring.

Exercises _decompose_graph, _decompose_qr, symbolic_mo_to_numeric_mo (mps/symbolic_mpo.py) and
Mpo.todense (mps/mpo.py) - directly and through Mpo.__init__ / try_swap_site - and prints a deterministic
digest.  The hashes are taken over the exact bytes, so the refactoring has to be bit-for-bit identical.
"""
import hashlib
import logging
import random
import warnings

import numpy as np
import scipy.sparse

logging.disable(logging.CRITICAL)
warnings.simplefilter("ignore")

from renormalizer.model import Model, Op
from renormalizer.model import basis as ba
from renormalizer.mps import Mpo, Mps, MpDm
from renormalizer.mps import symbolic_mpo as sm
from renormalizer.utils import Quantity


def h(arr):
    arr = np.ascontiguousarray(np.asarray(arr))
    return hashlib.sha256(arr.tobytes()).hexdigest()[:16]


def darr(arr):
    a = np.asarray(arr)
    if a.dtype == object:
        return f"obj{a.shape}"
    s = f"{type(arr).__name__} {a.dtype} {a.shape} {h(a)}"
    if a.size:
        s += f" sum={np.round(complex(np.sum(a)), 8)} abs={np.round(float(np.sum(np.abs(a))), 8)}"
    return s


def dops(out_ops):
    lines = []
    for ops in out_ops:
        items = []
        for op in ops:
            f = op.factor
            items.append((
                [int(x) for x in op.symbol],
                np.asarray(op.qn).tolist(),
                type(f).__name__,
                repr(complex(f)),
            ))
        lines.append(repr(items))
    return hashlib.sha256("\n".join(lines).encode()).hexdigest()[:16] + f" n={len(out_ops)} sizes={[len(o) for o in out_ops]}"


def attempt(label, fn):
    try:
        res = fn()
    except Exception as e:  # noqa
        print(label, "EXC", type(e).__name__, str(e)[:200])
        return None
    print(label, res)
    return res


# ----------------------------------------------------------------------------------------------
# A. the one-site decomposition routines on random tables
# ----------------------------------------------------------------------------------------------
class FakeOp:
    def __init__(self, qn):
        self.qn = np.array(qn)


def random_one_site_problem(rng, nterm, n_in, n_prim, ncol, complex_factor, qn_size):
    table = rng.integers(0, [n_in] + [n_prim] * (1 + ncol), size=(nterm, 2 + ncol)).astype(np.uint16)
    table = np.unique(table, axis=0)
    rng.shuffle(table, axis=0)
    factor = rng.normal(size=len(table)) * 10.0 ** rng.integers(-3, 4, size=len(table))
    if complex_factor:
        factor = factor + 1j * rng.normal(size=len(table))
    in_ops = [[sm.OpTuple([0, 0], qn=rng.integers(-2, 3, size=qn_size), factor=1.0)] for _ in range(n_in)]
    primary_ops = [FakeOp(rng.integers(-1, 2, size=qn_size)) for _ in range(n_prim)]
    return table, factor, in_ops, primary_ops


def section_a():
    print("== A: one-site decomposition")
    rng = np.random.default_rng(2024)
    cases = [
        (1, 1, 2, 1, False, 1), (2, 1, 2, 1, False, 1), (5, 2, 3, 2, False, 1), (12, 3, 3, 2, True, 2),
        (40, 4, 4, 3, False, 1), (40, 4, 4, 3, True, 2), (80, 3, 5, 1, False, 1), (30, 6, 2, 4, True, 1),
        (25, 1, 6, 1, False, 3), (60, 8, 3, 2, False, 1),
    ]
    for icase, (nterm, n_in, n_prim, ncol, cplx, qn_size) in enumerate(cases):
        table, factor, in_ops, primary_ops = random_one_site_problem(rng, nterm, n_in, n_prim, ncol, cplx, qn_size)
        for algo in ["qr", "Hopcroft-Karp", "Hungarian"]:
            def run():
                f_in = factor.copy()
                t_in = table.copy()
                out_ops, new_table, new_factor = sm._construct_symbolic_mpo_one_site(
                    t_in[:, :2], t_in[:, 2:], [in_ops], f_in, primary_ops, algo)
                assert np.array_equal(t_in, table) and np.array_equal(f_in, factor)
                return f"ops {dops(out_ops)} | table {darr(new_table)} | factor {darr(new_factor)}"
            attempt(f"A{icase} {algo}", run)

    # direct calls: the sparse matrix argument is mutated by both routines
    print("== A2: direct calls, argument mutation")
    for icase, (nterm, n_in, n_prim, ncol, cplx, qn_size) in enumerate(cases[2:8]):
        table, factor, in_ops, primary_ops = random_one_site_problem(rng, nterm, n_in, n_prim, ncol, cplx, qn_size)
        term_row, rinv = np.unique(table[:, :2], axis=0, return_inverse=True)
        term_col_arr, cinv = np.unique(table[:, 2:], axis=0, return_inverse=True)
        term_col = list(term_col_arr)
        rinv = np.asarray(rinv).ravel()
        cinv = np.asarray(cinv).ravel()
        for name, func, algo in [("qr", sm._decompose_qr, "qr"), ("graphHK", sm._decompose_graph, "Hopcroft-Karp"),
                                 ("graphHu", sm._decompose_graph, "Hungarian")]:
            def run():
                non_red = scipy.sparse.coo_matrix((np.arange(len(factor)) + 1, (rinv, cinv))).tocsr()
                f_in = factor.copy()
                out_ops, new_table, new_factor = func(term_row, term_col, non_red, [in_ops], f_in, primary_ops, algo)
                assert np.array_equal(f_in, factor)
                return (f"ops {dops(out_ops)} | table {darr(new_table)} | factor {darr(new_factor)} | "
                        f"non_red after: data {darr(non_red.data)} indices {darr(non_red.indices)} indptr {darr(non_red.indptr)}")
            attempt(f"A2-{icase} {name}", run)

    # single column gamma (the branch without a QR), k-column and rank deficient gamma
    print("== A3: special gamma")
    in_ops = [[sm.OpTuple([0, 0], qn=np.array([0]), factor=1.0)], [sm.OpTuple([0, 1], qn=np.array([1]), factor=1.0)]]
    primary_ops = [FakeOp([0]), FakeOp([1]), FakeOp([-1])]
    specials = {
        "onecol": (np.array([[0, 1, 2], [1, 2, 2], [0, 2, 2]], dtype=np.uint16), np.array([2.0, -3.0, 1e-12])),
        "onecol_c": (np.array([[0, 1, 2], [1, 2, 2]], dtype=np.uint16), np.array([2.0 + 1j, -3.0j])),
        "onerow": (np.array([[0, 1, 0], [0, 1, 1], [0, 1, 2]], dtype=np.uint16), np.array([1.0, 2.0, 3.0])),
        "rank1": (np.array([[0, 1, 0], [0, 1, 1], [1, 2, 0], [1, 2, 1]], dtype=np.uint16), np.array([1.0, 2.0, 2.0, 4.0])),
        "cancel": (np.array([[0, 1, 0], [0, 1, 1], [1, 2, 0], [1, 2, 1]], dtype=np.uint16), np.array([1.0, 1.0, 1.0, 1.0 + 1e-13])),
        "single": (np.array([[0, 1, 0]], dtype=np.uint16), np.array([7.5])),
        "int_factor": (np.array([[0, 1, 0], [1, 1, 1], [1, 0, 1]], dtype=np.uint16), np.array([3, -2, 5])),
    }
    for name, (table, factor) in specials.items():
        for algo in ["qr", "Hopcroft-Karp", "Hungarian"]:
            def run():
                out_ops, new_table, new_factor = sm._construct_symbolic_mpo_one_site(
                    table[:, :2], table[:, 2:], [in_ops], factor.copy(), primary_ops, algo)
                return f"ops {dops(out_ops)} | table {darr(new_table)} | factor {darr(new_factor)}"
            attempt(f"A3 {name} {algo}", run)

    # broken inputs: the same exception has to come out
    def bad_shape():
        non_red = scipy.sparse.csr_matrix(np.array([[1, 0], [0, 2]]))
        return sm._decompose_qr(np.zeros((3, 2), dtype=int), [np.array([0])] * 2, non_red, [in_ops], np.array([1., 2.]),
                                primary_ops, "qr")
    attempt("A4 qr bad shape", bad_shape)

    def bad_algo():
        table, factor = specials["rank1"]
        return sm._construct_symbolic_mpo_one_site(table[:, :2], table[:, 2:], [in_ops], factor, primary_ops, "nope")
    attempt("A4 graph bad algo", bad_algo)

    def zero_gamma():
        table, factor = specials["rank1"]
        return sm._construct_symbolic_mpo_one_site(table[:, :2], table[:, 2:], [in_ops], factor * 0, primary_ops, "qr")
    attempt("A4 qr zero gamma", zero_gamma)


# ----------------------------------------------------------------------------------------------
# B. symbolic_mo_to_numeric_mo
# ----------------------------------------------------------------------------------------------
def section_b():
    print("== B: symbolic_mo_to_numeric_mo")
    sho = ba.BasisSHO("v", 1.3, 4, x0=0.7)
    spin = ba.BasisHalfSpin("s", sigmaqn=[0, 1])
    me = ba.BasisMultiElectron(["e0", "e1", "e2"], [0, 1, 1])
    dummy = ba.BasisDummy("d")

    def obj_array(shape, filler):
        mo = np.full(shape, None, dtype=object)
        for i, _ in np.ndenumerate(mo):
            mo[i] = filler(i)
        return mo

    sho_ops = [Op("b", "v"), Op(r"b^\dagger", "v", 0.5), Op("x", "v", -2.0), Op(r"b^\dagger b", "v", 1e-3), Op("I", "v", 3.0)]
    spin_ops = [Op("sigma_+", "s", 1.0, qn=1), Op("sigma_z", "s", 2.0), Op("sigma_y", "s", 1.5), Op("I", "s", -1.0)]
    me_ops = [Op(r"a^\dagger a", ["e0", "e1"], 0.3, qn=[0, 0]), Op(r"a^\dagger a", ["e2", "e2"], -4.0), Op("I", "e0", 2.0)]

    def pick(ops, i, n):
        k = sum(i) if len(i) else 0
        return [ops[(k + j) % len(ops)] for j in range(n(k))]

    cases = [
        ("sho 2x3 float", sho, obj_array((2, 3), lambda i: pick(sho_ops, i, lambda k: k % 3)), np.float64),
        ("sho 2x3 complex", sho, obj_array((2, 3), lambda i: pick(sho_ops, i, lambda k: 1 + k % 2)), np.complex128),
        ("sho 1x1 empty", sho, obj_array((1, 1), lambda i: []), np.float64),
        ("spin 3x2 complex", spin, obj_array((3, 2), lambda i: pick(spin_ops, i, lambda k: 1 + k % 3)), np.complex128),
        ("spin 3x2 float (sigma_y)", spin, obj_array((3, 2), lambda i: pick(spin_ops, i, lambda k: 3)), np.float64),
        ("spin 2x2 float32", spin, obj_array((2, 2), lambda i: pick(spin_ops[:2], i, lambda k: 2)), np.float32),
        ("me 2x2", me, obj_array((2, 2), lambda i: pick(me_ops, i, lambda k: 1 + k % 2)), np.float64),
        ("dummy 1x4", dummy, obj_array((1, 4), lambda i: [Op("I", "d", float(i[1]))]), np.float64),
        ("sho 1-d", sho, obj_array((3,), lambda i: pick(sho_ops, i, lambda k: 2)), np.float64),
        ("sho 3-d", sho, obj_array((2, 1, 3), lambda i: pick(sho_ops, i, lambda k: k % 2 + 1)), np.float64),
        ("sho 0x2", sho, np.full((0, 2), None, dtype=object), np.float64),
        ("sho int dtype", sho, obj_array((1, 2), lambda i: [Op("I", "v", 2.0)]), np.int64),
    ]
    for name, basis, mo, dtype in cases:
        def run():
            snapshot = [(i, list(t)) for i, t in np.ndenumerate(mo)]
            res = sm.symbolic_mo_to_numeric_mo(basis, mo, dtype)
            assert snapshot == [(i, list(t)) for i, t in np.ndenumerate(mo)]
            return f"{darr(res)} contig={res.flags['C_CONTIGUOUS']} owndata={res.flags['OWNDATA']} strides={res.strides}"
        attempt(f"B {name}", run)

    def zero_d():
        mo = np.empty((), dtype=object)
        mo[()] = [Op("b", "v")]
        return darr(sm.symbolic_mo_to_numeric_mo(sho, mo, np.float64))
    attempt("B 0-d", zero_d)
    attempt("B not an array", lambda: sm.symbolic_mo_to_numeric_mo(sho, [[[Op("b", "v")]]], np.float64))
    attempt("B None entries", lambda: sm.symbolic_mo_to_numeric_mo(sho, np.full((1, 1), None), np.float64))
    attempt("B wrong dof", lambda: darr(sm.symbolic_mo_to_numeric_mo(spin, obj_array((1, 1), lambda i: [Op("sigma_q", "s")]), float)))


# ----------------------------------------------------------------------------------------------
# C. whole Mpo construction + todense + swaps
# ----------------------------------------------------------------------------------------------
def make_basis(kind, idx):
    if kind == "spin":
        return ba.BasisHalfSpin(f"s{idx}")
    if kind == "sho":
        return ba.BasisSHO(f"v{idx}", 0.5 + 0.25 * idx, 3 + idx % 2)
    if kind == "sho_x0":
        return ba.BasisSHO(f"v{idx}", 1.1, 3, x0=0.4 * (idx + 1))
    if kind == "elec":
        return ba.BasisSimpleElectron(f"e{idx}", sigmaqn=[0, 0])
    if kind == "melec":
        return ba.BasisMultiElectron([f"m{idx}a", f"m{idx}b", f"m{idx}c"], [0, 0, 0])
    raise ValueError(kind)


def random_local_op(rnd, basis):
    if isinstance(basis, ba.BasisHalfSpin):
        sym = rnd.choice(["sigma_+", "sigma_-", "sigma_z", "sigma_x", "sigma_z sigma_x"])
        dofs = basis.dof if " " not in sym else [basis.dof] * 2
        return Op(sym, dofs)
    if isinstance(basis, ba.BasisSHO):
        if basis.x0 != 0:
            sym = rnd.choice(["x", "x^2", "x x", "x x x"])
        else:
            sym = rnd.choice(["b", r"b^\dagger", r"b^\dagger b", "x", "x^2", r"b b^\dagger", "x x"])
        n = len(sym.split(" "))
        return Op(sym, basis.dof if n == 1 else [basis.dof] * n)
    if isinstance(basis, ba.BasisSimpleElectron):
        sym = rnd.choice(["a", r"a^\dagger", r"a^\dagger a"])
        n = len(sym.split(" "))
        return Op(sym, basis.dof if n == 1 else [basis.dof] * n)
    if isinstance(basis, ba.BasisMultiElectron):
        d1, d2 = rnd.choice(basis.dof), rnd.choice(basis.dof)
        return Op(r"a^\dagger a", [d1, d2])
    raise ValueError


def random_terms(rnd, basis_list, nterm, complex_factor):
    terms = []
    for _ in range(nterm):
        nsupport = rnd.randint(1, min(3, len(basis_list)))
        sites = sorted(rnd.sample(range(len(basis_list)), nsupport))
        ops = [random_local_op(rnd, basis_list[s]) for s in sites]
        factor = rnd.gauss(0, 1) * 10.0 ** rnd.randint(-3, 3)
        if complex_factor:
            factor = factor + 1j * rnd.gauss(0, 1)
        terms.append(Op.product(ops) * factor)
    # duplicate and partially cancelling terms
    if len(terms) > 2:
        terms.append(terms[0])
        terms.append(terms[1] * -0.5)
        terms.append(terms[2] * -1.0)
    return terms


def dense_exact(model, terms, offset):
    dim = int(np.prod([b.nbas for b in model.basis]))
    total = np.zeros((dim, dim), dtype=complex)
    for t in model.check_operator_terms(terms):
        elem_ops, factor = t.split_elementary(model.dof_to_siteidx)
        mats = [np.eye(b.nbas) for b in model.basis]
        for e in elem_ops:
            isite = model.dof_to_siteidx[e.dofs[0]]
            mats[isite] = model.basis[isite].op_mat(e)
        m = np.ones((1, 1))
        for x in mats:
            m = np.kron(m, x)
        total += factor * m
    return total - offset * np.eye(dim)


def dmpo(mpo):
    parts = [f"dtype={np.dtype(mpo.dtype)} bond={list(mpo.bond_dims)} qntot={np.asarray(mpo.qntot).tolist()} qnidx={mpo.qnidx}"]
    parts.append("qn=" + hashlib.sha256(repr([np.asarray(q).tolist() for q in mpo.qn]).encode()).hexdigest()[:12])
    for mt in mpo:
        parts.append(h(mt.array))
    return " ".join(parts)


def section_c():
    print("== C: Mpo construction, todense, swaps")
    layouts = [
        ["spin"], ["sho"], ["spin", "spin"], ["spin", "sho", "spin"], ["elec", "sho_x0", "elec", "sho"],
        ["melec", "sho", "spin"], ["spin", "spin", "spin", "spin", "spin"], ["sho_x0", "melec", "elec", "spin"],
    ]
    rnd = random.Random(7)
    for ilay, layout in enumerate(layouts):
        basis_list = [make_basis(k, i) for i, k in enumerate(layout)]
        for cplx in [False, True]:
            for nterm in [1, 2, 9]:
                terms = random_terms(rnd, basis_list, nterm, cplx)
                offset = rnd.choice([0.0, 0.0, 1.75, -0.3])
                model = Model(basis_list, terms)
                exact = dense_exact(model, terms, offset)
                for algo in ["qr", "Hopcroft-Karp", "Hungarian"]:
                    label = f"C{ilay} cplx={cplx} n={nterm} off={offset} {algo}"

                    def run():
                        mpo = Mpo(model, terms, offset=Quantity(offset), algo=algo)
                        dense = mpo.todense()
                        err = float(np.max(np.abs(dense - exact)))
                        scale = max(1.0, float(np.max(np.abs(exact))))
                        return f"{dmpo(mpo)} | dense {darr(dense)} ok={err < 1e-9 * scale} herm={mpo.is_hermitian()}"
                    attempt(label, run)

    # swaps of adjacent sites
    print("== C2: swaps")
    for ilay, layout in enumerate([["spin", "sho", "spin", "elec"], ["spin", "spin", "spin", "spin", "spin"], ["melec", "sho_x0", "spin"]]):
        basis_list = [make_basis(k, i) for i, k in enumerate(layout)]
        for cplx in [False, True]:
            for nterm in [1, 12]:
                terms = random_terms(rnd, basis_list, nterm, cplx)
                for algo in ["qr", "Hopcroft-Karp", "Hungarian"]:
                    model = Model(basis_list, terms)
                    mpo = attempt(f"C2-{ilay} cplx={cplx} n={nterm} {algo} build", lambda: Mpo(model, terms, offset=Quantity(0.25), algo=algo))
                    if mpo is None:
                        continue
                    print("   ", dmpo(mpo))
                    cur = list(basis_list)
                    swap_rnd = random.Random(11)
                    for iswap in range(5):
                        i = swap_rnd.randrange(len(cur) - 1)
                        cur = list(cur)
                        cur[i], cur[i + 1] = cur[i + 1], cur[i]
                        new_model = Model(cur, terms)

                        def run():
                            mpo.try_swap_site(new_model, False, algo=algo)
                            dense = mpo.todense()
                            exact = dense_exact(new_model, terms, 0.25)
                            err = float(np.max(np.abs(dense - exact)))
                            scale = max(1.0, float(np.max(np.abs(exact))))
                            return f"{dmpo(mpo)} | dense {darr(dense)} ok={err < 1e-8 * scale}"
                        attempt(f"    swap{iswap} at {i}", run)

    # non-zero quantum numbers
    print("== C3: quantum numbers")
    nsite = 4
    basis_list = []
    for i in range(nsite):
        basis_list.append(ba.BasisSimpleElectron(f"e{i}"))
        basis_list.append(ba.BasisSHO(f"v{i}", 1.0 + 0.1 * i, 3))
    terms = []
    for i in range(nsite):
        terms.append(Op(r"a^\dagger a", [f"e{i}", f"e{i}"], 0.1 * (i + 1), qn=[1, -1]))
        terms.append(Op(r"b^\dagger b", [f"v{i}", f"v{i}"], 1.0 + 0.1 * i))
        terms.append(Op(r"a^\dagger a", [f"e{i}", f"e{i}"], 0.3, qn=[1, -1]) * Op("x", f"v{i}"))
        for j in range(nsite):
            if i != j:
                terms.append(Op(r"a^\dagger a", [f"e{i}", f"e{j}"], 0.05 * (1 + i + 2 * j) * (1 + 0.5j), qn=[1, -1]))
    model = Model(basis_list, terms)
    for algo in ["qr", "Hopcroft-Karp", "Hungarian"]:
        def run():
            mpo = Mpo(model, algo=algo)
            return f"{dmpo(mpo)} | dense {darr(mpo.todense())}"
        attempt(f"C3 ham {algo}", run)

        def run2():
            mpo = Mpo(model, Op(r"a^\dagger", "e2", 2.0, qn=1), algo=algo)
            return f"{dmpo(mpo)} | dense {darr(mpo.todense())}"
        attempt(f"C3 creation {algo}", run2)

        def run3():
            ops = [Op(r"a^\dagger", f"e{i}", 1.0 + i, qn=1) for i in range(nsite)]
            mpo = Mpo(model, ops, algo=algo)
            return f"{dmpo(mpo)} | dense {darr(mpo.todense())}"
        attempt(f"C3 creation sum {algo}", run3)

    # errors of the constructor
    attempt("C4 empty terms", lambda: Mpo(model, []))
    attempt("C4 zero terms", lambda: Mpo(model, [Op("x", "v0", 0.0)]))
    attempt("C4 offset float", lambda: Mpo(model, offset=1.0))
    attempt("C4 no model", lambda: (len(Mpo()), Mpo().todense().tolist()))
    attempt("C4 int factor", lambda: dmpo(Mpo(model, [Op("x", "v0", 2), Op("x", "v1", 3)], offset=Quantity(0))))
    attempt("C4 int factor dense", lambda: darr(Mpo(model, [Op("x", "v0", 2), Op("x", "v1", 3)], offset=Quantity(1.5)).todense()))


# ----------------------------------------------------------------------------------------------
# D. todense on hand-made operators
# ----------------------------------------------------------------------------------------------
def section_d():
    print("== D: todense")
    rng = np.random.default_rng(5)
    basis_list = [ba.BasisHalfSpin("s0"), ba.BasisSHO("v1", 1.0, 3), ba.BasisHalfSpin("s2"), ba.BasisSHO("v3", 2.0, 4)]
    model = Model(basis_list, [Op("sigma_z", "s0")])
    pdims = [2, 3, 2, 4]
    for cplx in [False, True]:
        for bonds in [[1, 1, 1, 1, 1], [1, 3, 2, 5, 1], [1, 4, 4, 4, 1]]:
            def run():
                mpo = Mpo()
                mpo.model = model
                if cplx:
                    mpo.to_complex(inplace=True)
                for i, p in enumerate(pdims):
                    shape = (bonds[i], p, p, bonds[i + 1])
                    arr = rng.normal(size=shape)
                    if cplx:
                        arr = arr + 1j * rng.normal(size=shape)
                    mpo.append(arr)
                before = [mt.array.copy() for mt in mpo]
                dense = mpo.todense()
                assert all(np.array_equal(a, mt.array) for a, mt in zip(before, mpo))
                # reference by explicit contraction
                ref = np.einsum("apqb,brsc,ctud,dvwe->aprtvqsuwe", *before).reshape(dense.shape)
                return f"{darr(dense)} ok={np.allclose(ref, dense)} contig={dense.flags['C_CONTIGUOUS']}"
            attempt(f"D cplx={cplx} bonds={bonds}", run)

    attempt("D identity", lambda: darr(Mpo.identity(model).todense()))

    # MpDm goes through Mpo.todense
    def mpdm():
        m = MpDm.max_entangled_gs(model)
        return darr(m.todense())
    attempt("D mpdm", mpdm)

    def mpdm_from_random_mps():
        np.random.seed(3)
        mps = Mps.random(model, 0, 5, percent=1.0)
        return darr(MpDm.from_mps(mps).todense())
    attempt("D mpdm random", mpdm_from_random_mps)

    # too large
    big = Model([ba.BasisSHO(f"v{i}", 1.0, 12) for i in range(4)], [Op("x", "v0")])
    attempt("D big 20736", lambda: darr(Mpo(big).todense()))
    # the size limit, without allocating anything large: a stand-in that reports its physical dimensions
    class Fake:
        def __init__(self, pbond_list, mpo):
            self.pbond_list = pbond_list
            self._mpo = mpo

        def __iter__(self):
            return iter(self._mpo)

    small = Mpo(model, [Op("sigma_x", "s0") * Op("x", "v1"), Op("x^2", "v3", 0.5)])
    for pb in [[20000], [200, 100], [20001], [3, 6667], np.array([141, 141]), [141, 142], []]:
        attempt(f"D limit {list(pb)}", lambda: darr(Mpo.todense(Fake(pb, small))))

    # momentum operator: complex matrices with real and complex factors
    pterms = [Op("p", "v1", 0.5) * Op("sigma_z", "s0"), Op("x", "v3", 2.0), Op("p", "v3", 1.0) * Op("p", "v1", 1.0)]
    for algo in ["qr", "Hopcroft-Karp", "Hungarian"]:
        attempt(f"D p real factor {algo}", lambda: darr(Mpo(model, pterms, algo=algo).todense()))
        attempt(f"D p complex factor {algo}", lambda: darr(Mpo(model, [t * (1 + 0.5j) for t in pterms], algo=algo).todense()))

    # wrong tensor rank inside: an Mps run through Mpo.todense
    def mps_through_mpo():
        np.random.seed(3)
        mps = Mps.random(model, 0, 1, percent=1.0)
        return darr(Mpo.todense(mps))
    attempt("D mps tensors", mps_through_mpo)

    def none_tensor():
        mpo = Mpo.identity(model)
        mpo._mp[1] = None
        return darr(mpo.todense())
    attempt("D none tensor", none_tensor)


if __name__ == "__main__":
    np.set_printoptions(precision=8)
    section_a()
    section_b()
    section_c()
    section_d()
