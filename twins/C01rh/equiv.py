"""Equivalence check for the C01rh refactoring.

Exercises Mpo.todense, _terms_to_table, construct_symbolic_mpo and
_construct_symbolic_mpo_one_site (plus the end-to-end Mpo construction and
site swapping that sit on top of them) and prints a deterministic digest.
"""
import hashlib
import logging
import random

import numpy as np

from renormalizer.model import Model, Op, Phonon, Mol, HolsteinModel
from renormalizer.model.basis import (
    BasisHalfSpin,
    BasisSHO,
    BasisSimpleElectron,
    BasisMultiElectron,
    BasisMultiElectronVac,
)
from renormalizer.mps import Mpo, MpDm
from renormalizer.mps.symbolic_mpo import (
    OpTuple,
    construct_symbolic_mpo,
    _construct_symbolic_mpo_one_site,
    _terms_to_table,
)
from renormalizer.tests.parameter import holstein_model, holstein_model4
from renormalizer.utils import Quantity

ALGOS = ["qr", "Hopcroft-Karp", "Hungarian"]


# ----------------------------------------------------------------------------
# canonical serialisation
# ----------------------------------------------------------------------------
def h(arr):
    arr = np.ascontiguousarray(np.asarray(arr))
    m = hashlib.sha256()
    m.update(str(arr.dtype).encode())
    m.update(str(arr.shape).encode())
    m.update(arr.tobytes())
    return m.hexdigest()[:16]


def num(x):
    x = np.asarray(x)
    if np.iscomplexobj(x):
        return f"{x.dtype}{x.shape}:re={np.round(x.real.sum(), 8)}:im={np.round(x.imag.sum(), 8)}:abs={np.round(np.abs(x).sum(), 8)}:{h(x)}"
    return f"{x.dtype}{x.shape}:sum={np.round(x.astype(float).sum(), 8)}:abs={np.round(np.abs(x.astype(float)).sum(), 8)}:{h(x)}"


def ser_optuple(o):
    return (
        type(o).__name__,
        type(o.symbol).__name__,
        np.asarray(o.symbol).tolist(),
        str(np.asarray(o.symbol).dtype),
        type(o.qn).__name__,
        np.asarray(o.qn).tolist(),
        type(o.factor).__name__,
        repr(o.factor),
    )


def ser_out_ops(out_ops):
    return [[ser_optuple(o) for o in ops] for ops in out_ops]


def ser_out_ops_list(out_ops_list):
    return [ser_out_ops(out_ops) for out_ops in out_ops_list]


def ser_op(op):
    return (repr(op), type(op.factor).__name__, repr(op.factor), [np.asarray(q).tolist() for q in op.qn_list])


def ser_symbolic_mpo(mpo):
    res = []
    for mo in mpo:
        entries = []
        for idx, terms in np.ndenumerate(mo):
            entries.append((idx, type(terms).__name__, [ser_op(t) for t in terms]))
        res.append((type(mo).__name__, str(mo.dtype), mo.shape, entries))
    return res


def digest_text(obj):
    s = repr(obj)
    return f"len={len(s)} sha={hashlib.sha256(s.encode()).hexdigest()[:16]}"


def show(label, value):
    print(f"{label}: {value}")


def guarded(label, fn):
    try:
        res = fn()
    except Exception as e:  # noqa
        show(label, f"EXC {type(e).__name__}: {e}")
        return None
    return res


# ----------------------------------------------------------------------------
# capture logging (the debug messages are part of the observable behaviour)
# ----------------------------------------------------------------------------
class ListHandler(logging.Handler):
    def __init__(self):
        super().__init__()
        self.msgs = []

    def emit(self, record):
        self.msgs.append(f"{record.name}|{record.levelname}|{record.getMessage()}")


log_handler = ListHandler()
sym_logger = logging.getLogger("renormalizer.mps.symbolic_mpo")
sym_logger.addHandler(log_handler)
sym_logger.setLevel(logging.DEBUG)
sym_logger.propagate = False


def pop_logs():
    msgs = log_handler.msgs[:]
    log_handler.msgs.clear()
    return msgs


# ----------------------------------------------------------------------------
# digest helpers for the objects under test
# ----------------------------------------------------------------------------
def digest_table_result(label, res):
    table, primary_ops, factor = res
    show(label + " table", f"{type(table).__name__} {num(table)} {table.tolist() if table.size < 80 else ''}")
    show(label + " primary_ops", digest_text([ser_op(o) for o in primary_ops]) + f" n={len(primary_ops)} {primary_ops[:6]}")
    show(label + " factor", num(factor))
    show(label + " logs", pop_logs())


def digest_symbolic(label, res):
    mpo, mpoqn, qntot, qnidx, out_ops_list, primary_ops = res
    show(label + " mpo", digest_text(ser_symbolic_mpo(mpo)) + f" shapes={[mo.shape for mo in mpo]}")
    show(label + " mpoqn", [num(q) for q in mpoqn])
    show(label + " mpoqn types", [type(q).__name__ for q in mpoqn])
    show(label + " qntot", f"{type(qntot).__name__} {np.asarray(qntot).tolist()} {np.asarray(qntot).dtype}")
    show(label + " qnidx", qnidx)
    show(label + " out_ops_list", digest_text(ser_out_ops_list(out_ops_list)) + f" dims={[len(o) for o in out_ops_list]}")
    show(label + " primary_ops", digest_text([ser_op(o) for o in primary_ops]))
    show(label + " logs", digest_text(pop_logs()))


def digest_mpo(label, mpo: Mpo, dense=True):
    show(label + " bond_dims", mpo.bond_dims)
    show(label + " dtype", mpo.dtype)
    show(label + " mats", [num(mt.array) for mt in mpo])
    show(label + " qn", [np.asarray(q).tolist() for q in mpo.qn])
    show(label + " qntot/qnidx", (np.asarray(mpo.qntot).tolist(), mpo.qnidx, mpo.to_right))
    show(label + " out_ops_list", digest_text(ser_out_ops_list(mpo.symbolic_out_ops_list)))
    if dense:
        d = mpo.todense()
        show(label + " dense", f"{type(d).__name__} {num(d)} contiguous={d.flags['C_CONTIGUOUS']}")
        return d
    return None


def reference_dense(model, terms, const=0.0):
    """brute-force dense operator, only used to print the distance (sanity)"""
    dims = [b.nbas for b in model.basis]
    total = np.zeros((int(np.prod(dims)),) * 2, dtype=complex)
    for term in terms:
        elem_ops, factor = term.split_elementary(model.dof_to_siteidx)
        mats = [np.eye(d) for d in dims]
        for eop in elem_ops:
            isite = model.dof_to_siteidx[eop.dofs[0]]
            mats[isite] = model.basis[isite].op_mat(eop)
        m = np.ones((1, 1))
        for mat in mats:
            m = np.kron(m, mat)
        total = total + factor * m
    return total + const * np.eye(total.shape[0])


# ----------------------------------------------------------------------------
# term generators
# ----------------------------------------------------------------------------
def spin_terms(rng, nsites, nterms, complex_factor=False, full=True):
    symbols = ["sigma_+", "sigma_-", "sigma_z", "sigma_x"]
    terms = []
    for _ in range(nterms):
        if full:
            sites = list(range(nsites))
        else:
            sites = sorted(rng.sample(range(nsites), rng.randint(1, nsites)))
        ops = [Op(rng.choice(symbols), j) for j in sites]
        factor = rng.uniform(-1, 1) * 10 ** rng.randint(-4, 3)
        if complex_factor:
            factor = factor + 1j * rng.uniform(-1, 1)
        terms.append(Op.product(ops) * factor)
    return terms


def mixed_model_and_terms(rng, complex_factor):
    basis = [
        BasisSimpleElectron("e0"),
        BasisSHO("v0", omega=0.5, nbas=3),
        BasisHalfSpin("s0"),
        BasisMultiElectron(["m0", "m1", "m2"], [0, 1, 1]),
        BasisSHO("v1", omega=1.3, nbas=4, x0=0.7),
        BasisSimpleElectron("e1"),
    ]
    model = Model(basis, [])
    terms = []

    def f():
        val = rng.uniform(-2, 2) * 10 ** rng.randint(-3, 2)
        if complex_factor:
            val = val + 1j * rng.uniform(-1, 1)
        return val

    terms.append(Op(r"a^\dagger a", "e0", f()))
    terms.append(Op(r"a^\dagger a", "e1", f()))
    terms.append(Op(r"a^\dagger a", ["e0", "e1"], f()))
    terms.append(Op(r"a^\dagger a", ["e1", "e0"], f()))
    terms.append(Op(r"a^\dagger a", ["m1", "m2"], f()))
    terms.append(Op(r"a^\dagger a", ["m2", "m1"], f()))
    terms.append(Op(r"a^\dagger a", ["m1", "m1"], f()))
    terms.append(Op(r"b^\dagger b", "v0", f()))
    terms.append(Op(r"b^\dagger b", "v1", f()))
    terms.append(Op("x", "v1", f()))
    terms.append(Op("x x", ["v0", "v1"], f()))
    terms.append(Op("x x", ["v0", "v0"], f()))
    terms.append(Op("p^2", "v0", f()))
    terms.append(Op("sigma_z", "s0", f()))
    terms.append(Op("sigma_x x", ["s0", "v0"], f()))
    terms.append(Op(r"a^\dagger a x", ["e0", "e0", "v1"], f()))
    terms.append(Op(r"a^\dagger a sigma_z x", ["m2", "m2", "s0", "v1"], f()))
    terms.append(Op(r"a^\dagger a a^\dagger a", ["e0", "e1", "m1", "m1"], f()))
    # exact duplicates and partially cancelling terms
    terms.append(Op("sigma_z", "s0", 0.25))
    terms.append(Op("sigma_z", "s0", 0.25))
    terms.append(Op("x", "v0", 1.5))
    terms.append(Op("x", "v0", -1.5))
    terms.append(Op(r"b^\dagger b", "v1", 1e-6))
    terms.append(Op(r"b^\dagger b", "v1", -0.5e-6))
    rng.shuffle(terms)
    return model, terms


# ----------------------------------------------------------------------------
# 1. _terms_to_table
# ----------------------------------------------------------------------------
def check_terms_to_table():
    print("=== _terms_to_table ===")
    rng = random.Random(101)
    for cplx in (False, True):
        model, terms = mixed_model_and_terms(rng, cplx)
        for const in (0, 0.0, -1.25, 3 + 0.5j, np.float64(0.0), np.float64(2.0)):
            terms_before = [ser_op(t) for t in terms]
            res = _terms_to_table(model, terms, const)
            digest_table_result(f"mixed cplx={cplx} const={const!r}", res)
            assert terms_before == [ser_op(t) for t in terms]
    # spin chains
    for nsites, nterms, full in [(1, 1, True), (1, 5, True), (3, 1, True), (4, 30, False), (6, 200, True), (5, 60, False)]:
        basis = [BasisHalfSpin(i) for i in range(nsites)]
        model = Model(basis, [])
        terms = spin_terms(rng, nsites, nterms, complex_factor=nterms % 2 == 0, full=full)
        digest_table_result(f"spin n={nsites} t={nterms} full={full}", _terms_to_table(model, terms, 0.3))
    # Holstein models (non-zero quantum numbers; scheme 4 has a multi-dof site)
    for name, model in [("holstein", holstein_model), ("holstein4", holstein_model4)]:
        digest_table_result(name, _terms_to_table(model, model.ham_terms, -0.05))
    # multi-electron vac basis (multi dof, identity on dof[0])
    basis = [BasisMultiElectronVac(["a0", "a1"]), BasisSHO("q", 1.0, 3), BasisMultiElectronVac(["b0"])]
    model = Model(basis, [])
    terms = [Op(r"a^\dagger a", ["a0", "b0"], 0.5), Op(r"a^\dagger a", ["b0", "a1"], 0.5), Op(r"a^\dagger a x", ["a1", "a1", "q"], 2.0)]
    digest_table_result("mevac", _terms_to_table(model, terms, 0))
    # only the constant / empty term list
    model = Model([BasisHalfSpin(0), BasisHalfSpin(1)], [])
    digest_table_result("only const", _terms_to_table(model, [], 2.5))
    guarded("empty no const", lambda: digest_table_result("empty no const", _terms_to_table(model, [], 0)))
    # all terms cancel
    guarded("all cancel", lambda: digest_table_result("all cancel", _terms_to_table(model, [Op("X", 0, 1.0), Op("X", 0, -1.0)], 0)))
    # unknown dof
    guarded("unknown dof", lambda: _terms_to_table(model, [Op("X", 7, 1.0)], 0))
    # array-valued const is ambiguous
    guarded("array const", lambda: _terms_to_table(model, [Op("X", 0, 1.0)], np.array([1.0, 0.0])))
    # multiple quantum numbers
    basis = [BasisSimpleElectron("u", sigmaqn=[[0, 0], [1, 0]]), BasisSimpleElectron("d", sigmaqn=[[0, 0], [0, 1]]),
             BasisHalfSpin("w", sigmaqn=[[0, 0], [0, 0]])]
    model = Model(basis, [])
    terms = [Op(r"a^\dagger a", ["u", "u"], 1.0, qn=[[1, 0], [-1, 0]]),
             Op(r"a^\dagger a", ["d", "d"], 1.0, qn=[[0, 1], [0, -1]]),
             Op(r"a^\dagger a", ["u", "d"], 0.3, qn=[[1, 0], [0, -1]]),
             Op(r"a^\dagger a sigma_x", ["d", "d", "w"], 0.7, qn=[[0, 1], [0, -1], [0, 0]])]
    digest_table_result("two qn", _terms_to_table(model, terms, 1.0))


# ----------------------------------------------------------------------------
# 2. _construct_symbolic_mpo_one_site
# ----------------------------------------------------------------------------
def check_one_site():
    print("=== _construct_symbolic_mpo_one_site ===")
    rng = np.random.RandomState(7)
    model = Model([BasisHalfSpin(i) for i in range(5)], [])
    prng = random.Random(5)
    for cplx in (False, True):
        terms = spin_terms(prng, 5, 40, complex_factor=cplx, full=False)
        table, primary_ops, factor = _terms_to_table(model, terms, 0.5)
        pop_logs()
        qn_size = 1
        ta = np.zeros((table.shape[0], 1), dtype=np.uint16)
        table = np.concatenate((ta, table, ta), axis=1)
        for algo in ALGOS + ["qr-something"]:
            in_ops = [[OpTuple([0], qn=np.zeros(qn_size, dtype=int), factor=1)]]
            t, f = table.copy(), factor.copy()
            for isite in range(5):
                t_before, f_before = t.copy(), f.copy()
                out_ops, t_new, f_new = _construct_symbolic_mpo_one_site(t[:, :2], t[:, 2:], [in_ops], f, primary_ops, algo)
                assert np.array_equal(t_before, t) and np.array_equal(f_before, f)
                show(f"one_site cplx={cplx} {algo} site{isite} out_ops", digest_text(ser_out_ops(out_ops)) + f" n={len(out_ops)}")
                show(f"one_site cplx={cplx} {algo} site{isite} table", f"{type(t_new).__name__} {num(t_new)}")
                show(f"one_site cplx={cplx} {algo} site{isite} factor", f"{type(f_new).__name__} {num(f_new)}")
                in_ops, t, f = out_ops, t_new, f_new
    # k = 2 (two physical columns handled at once) with positional and keyword k
    primary_ops = [Op.identity(0), Op("X", 0), Op("Z", 0), Op.identity(1), Op("X", 1), Op("Y", 1)]
    table = np.array([[0, 1, 4, 0], [0, 2, 5, 0], [0, 1, 5, 0], [0, 0, 3, 0], [0, 2, 4, 0]], dtype=np.uint16)
    factor = np.array([1.0, 2.0, -0.5, 0.25, 2.0])
    in_ops = [[OpTuple([0], qn=np.zeros(1, dtype=int), factor=1)]]
    for algo in ALGOS:
        res = _construct_symbolic_mpo_one_site(table[:, :3], table[:, 3:], [in_ops], factor, primary_ops, algo, 2)
        show(f"one_site k=2 {algo}", (digest_text(ser_out_ops(res[0])), num(res[1]), num(res[2])))
        res = _construct_symbolic_mpo_one_site(table[:, :3], table[:, 3:], [in_ops], factor, primary_ops, algo, k=2)
        show(f"one_site k=2 kw {algo}", (digest_text(ser_out_ops(res[0])), num(res[1]), num(res[2])))
        # two incoming bonds, k=1 (tree style)
        in_ops_b = [[OpTuple([0], qn=np.zeros(1, dtype=int), factor=1)], [OpTuple([0], qn=np.ones(1, dtype=int), factor=1)]]
        tbl = np.array([[0, 0, 1, 4], [0, 1, 2, 5], [0, 1, 1, 5], [0, 0, 0, 3]], dtype=np.uint16)
        res = _construct_symbolic_mpo_one_site(tbl[:, :3], tbl[:, 3:], [in_ops, in_ops_b], factor[:4], primary_ops, algo)
        show(f"one_site 2 in {algo}", (digest_text(ser_out_ops(res[0])), num(res[1]), num(res[2])))
        # wrong k -> assertion
        guarded(f"one_site bad k {algo}", lambda: _construct_symbolic_mpo_one_site(table[:, :3], table[:, 3:], [in_ops], factor, primary_ops, algo))
        # zero-width right part
        guarded(f"one_site empty col {algo}", lambda: show(f"one_site empty col {algo}", [
            (digest_text(ser_out_ops(r[0])), num(r[1]), num(r[2])) for r in
            [_construct_symbolic_mpo_one_site(table[:, :2], table[:, 4:], [in_ops], factor, primary_ops, algo)]]))
        # single row
        res = _construct_symbolic_mpo_one_site(table[:1, :2], table[:1, 2:], [in_ops], factor[:1], primary_ops, algo)
        show(f"one_site single {algo}", (digest_text(ser_out_ops(res[0])), num(res[1]), num(res[2])))
    guarded("one_site algo None", lambda: _construct_symbolic_mpo_one_site(table[:, :2], table[:, 2:], [in_ops], factor, primary_ops, None))
    guarded("one_site algo unknown", lambda: _construct_symbolic_mpo_one_site(table[:, :2], table[:, 2:], [in_ops], factor, primary_ops, "foo"))
    # non-contiguous / differently typed column part
    tbl64 = table.astype(np.int64)
    for algo in ALGOS:
        res = _construct_symbolic_mpo_one_site(tbl64[:, :2], tbl64[:, 2:], [in_ops], factor, primary_ops, algo)
        show(f"one_site int64 {algo}", (digest_text(ser_out_ops(res[0])), num(res[1]), num(res[2])))


# ----------------------------------------------------------------------------
# 3. construct_symbolic_mpo
# ----------------------------------------------------------------------------
def check_construct_symbolic_mpo():
    print("=== construct_symbolic_mpo ===")
    prng = random.Random(11)
    cases = []
    for nsites, nterms, full, cplx in [(1, 1, True, False), (1, 3, True, True), (2, 1, True, True), (4, 1, False, False),
                                       (3, 7, False, True), (5, 50, False, False), (6, 120, True, True)]:
        model = Model([BasisHalfSpin(i) for i in range(nsites)], [])
        terms = spin_terms(prng, nsites, nterms, complex_factor=cplx, full=full)
        cases.append((f"spin n={nsites} t={nterms}", model, terms, 0))
    for cplx in (False, True):
        model, terms = mixed_model_and_terms(prng, cplx)
        cases.append((f"mixed cplx={cplx}", model, terms, -0.75))
        cases.append((f"mixed one term cplx={cplx}", model, terms[:1], 0))
    cases.append(("holstein", holstein_model, holstein_model.ham_terms, 0.1))
    cases.append(("holstein4", holstein_model4, holstein_model4.ham_terms, 0))
    cases.append(("holstein one hop", holstein_model, [Op(r"a^\dagger a", [0, 1], 0.3 + 0.1j)], 0))
    cases.append(("only const", Model([BasisHalfSpin(0), BasisHalfSpin(1)], []), [], 2.5))
    for label, model, terms, const in cases:
        table, primary_ops, factor = _terms_to_table(model, terms, const)
        pop_logs()
        for algo in ALGOS:
            tb, fb, pb = table.copy(), factor.copy(), list(primary_ops)
            res = construct_symbolic_mpo(table, primary_ops, factor, algo=algo)
            digest_symbolic(f"{label} {algo}", res)
            assert np.array_equal(tb, table) and np.array_equal(fb, factor) and pb == primary_ops
            show(f"{label} {algo} primary is same object", res[5] is primary_ops)
        res = construct_symbolic_mpo(table, primary_ops, factor)
        digest_symbolic(f"{label} default", res)
    # degenerate inputs
    primary_ops = [Op.identity(0), Op("X", 0)]
    guarded("zero sites one term", lambda: construct_symbolic_mpo(np.zeros((1, 0), dtype=np.uint16), primary_ops, np.array([1.0])))
    guarded("no primary ops", lambda: construct_symbolic_mpo(np.zeros((1, 1), dtype=np.uint16), [], np.array([1.0])))
    guarded("zero terms", lambda: construct_symbolic_mpo(np.zeros((0, 2), dtype=np.uint16), primary_ops, np.array([])))
    guarded("duplicate rows", lambda: construct_symbolic_mpo(np.array([[0, 1], [0, 1]], dtype=np.uint16), primary_ops + [Op.identity(1), Op("X", 1)], np.array([1.0, 2.0])))
    guarded("1-d table", lambda: construct_symbolic_mpo(np.array([0, 1], dtype=np.uint16), primary_ops, np.array([1.0])))
    guarded("one term empty factor", lambda: construct_symbolic_mpo(np.array([[1]], dtype=np.uint16), primary_ops, np.array([])))
    guarded("one term bad index", lambda: construct_symbolic_mpo(np.array([[5]], dtype=np.uint16), primary_ops, np.array([1.0])))
    # the one-term branch does not alias the primary ops
    prim = [Op.identity(0), Op.identity(1), Op("X", 0), Op("Z", 1)]
    before = [ser_op(o) for o in prim]
    res = construct_symbolic_mpo(np.array([[2, 3]], dtype=np.uint16), prim, np.array([2.0 - 1.0j]))
    digest_symbolic("one term direct", res)
    show("one term prim unchanged", before == [ser_op(o) for o in prim])
    show("one term mpo[0] is prim", res[0][0][0][0][0] is prim[2])


# ----------------------------------------------------------------------------
# 4. Mpo end to end, todense, swaps
# ----------------------------------------------------------------------------
def check_mpo():
    print("=== Mpo / todense / swap ===")
    prng = random.Random(2024)
    for algo in ALGOS:
        for cplx in (False, True):
            model, terms = mixed_model_and_terms(prng, cplx)
            model = Model(model.basis, terms)
            offset = Quantity(0.35)
            mpo = Mpo(model, offset=offset, algo=algo)
            pop_logs()
            d = digest_mpo(f"mixed {algo} cplx={cplx}", mpo)
            ref = reference_dense(model, terms, -offset.as_au())
            show(f"mixed {algo} cplx={cplx} err<1e-9", bool(np.abs(d - ref).max() < 1e-9 * max(1, np.abs(ref).max())))
            # swaps
            basis = list(model.basis)
            for iswap in range(6):
                i = prng.randrange(len(basis) - 1)
                basis = basis.copy()
                basis[i], basis[i + 1] = basis[i + 1], basis[i]
                new_model = Model(basis, terms)
                try:
                    mpo.try_swap_site(new_model, False, algo=algo)
                except AssertionError as e:
                    # the internal consistency check of swap_site can trip on round-off (qr, wide factor range)
                    show(f"mixed {algo} cplx={cplx} swap{iswap}@{i}", "AssertionError " + " ".join(str(e).split())[:200])
                    pop_logs()
                    break
                pop_logs()
                d = digest_mpo(f"mixed {algo} cplx={cplx} swap{iswap}@{i}", mpo)
                ref = reference_dense(new_model, terms, -offset.as_au())
                show(f"mixed {algo} cplx={cplx} swap{iswap} err<1e-9", bool(np.abs(d - ref).max() < 1e-9 * max(1, np.abs(ref).max())))
        # spin chain + one-term operators
        for nsites, nterms, full in [(1, 1, True), (2, 1, True), (5, 1, False), (5, 40, False), (6, 80, True)]:
            basis = [BasisHalfSpin(i) for i in range(nsites)]
            terms = spin_terms(prng, nsites, nterms, complex_factor=(nterms == 40), full=full)
            model = Model(basis, terms)
            mpo = Mpo(model, algo=algo)
            pop_logs()
            digest_mpo(f"spin {algo} n={nsites} t={nterms}", mpo)
            for iswap in range(3 if nsites > 1 else 0):
                i = prng.randrange(nsites - 1)
                basis = basis.copy()
                basis[i], basis[i + 1] = basis[i + 1], basis[i]
                new_model = Model(basis, terms)
                try:
                    mpo.try_swap_site(new_model, False, algo=algo)
                except AssertionError as e:
                    show(f"spin {algo} n={nsites} t={nterms} swap{iswap}@{i}", "AssertionError " + " ".join(str(e).split())[:200])
                    pop_logs()
                    break
                pop_logs()
                digest_mpo(f"spin {algo} n={nsites} t={nterms} swap{iswap}@{i}", mpo)
        # holstein, dense is 2*4*4 cubed = 32768 > 20000 -> error
        mpo = Mpo(holstein_model, algo=algo)
        pop_logs()
        digest_mpo(f"holstein {algo}", mpo, dense=False)
        guarded(f"holstein {algo} todense", lambda: mpo.todense())
        mpo4 = Mpo(holstein_model4, offset=Quantity(0.01), algo=algo)
        pop_logs()
        digest_mpo(f"holstein4 {algo}", mpo4, dense=False)
        ph = Phonon.simple_phonon(Quantity(3.33), Quantity(1), 2)
        small4 = HolsteinModel([Mol(Quantity(0), [ph]), Mol(Quantity(0), [ph] * 2)], Quantity(17), 4)
        mpo_s4 = Mpo(small4, offset=Quantity(0.01), algo=algo)
        pop_logs()
        digest_mpo(f"small4 {algo}", mpo_s4)
        show(f"small4 {algo} hermitian", mpo_s4.is_hermitian())

    # swaps with factors of order one (the round-off check inside swap_site passes)
    for algo in ALGOS:
        for nsites, nterms, cplx in [(4, 30, False), (5, 60, True), (3, 1, True)]:
            basis = [BasisHalfSpin(i) for i in range(nsites)]
            terms = []
            for _ in range(nterms):
                ops = [Op(prng.choice(["sigma_+", "sigma_-", "sigma_z"]), j) for j in range(nsites)]
                fac = prng.random() + (1j * prng.random() if cplx else 0)
                terms.append(Op.product(ops) * fac)
            model = Model(basis, terms)
            mpo = Mpo(model, algo=algo, offset=Quantity(0.5))
            for iswap in range(8):
                i = prng.randrange(nsites - 1)
                basis = basis.copy()
                basis[i], basis[i + 1] = basis[i + 1], basis[i]
                new_model = Model(basis, terms)
                try:
                    mpo.try_swap_site(new_model, False, algo=algo)
                except AssertionError as e:
                    show(f"unit spin {algo} n={nsites} t={nterms} swap{iswap}@{i}", "AssertionError " + " ".join(str(e).split())[:200])
                    pop_logs()
                    break
                pop_logs()
                d = digest_mpo(f"unit spin {algo} n={nsites} t={nterms} swap{iswap}@{i}", mpo)
                ref = reference_dense(new_model, terms, -0.5)
                show(f"unit spin {algo} n={nsites} t={nterms} swap{iswap} err<1e-9", bool(np.abs(d - ref).max() < 1e-9))

    # hand-made operators
    rng = np.random.RandomState(3)
    for dims, bonds, cplx in [([2, 3, 2], [1, 3, 2, 1], False), ([3, 2, 2, 4], [1, 2, 5, 3, 1], True), ([4], [1, 1], True),
                              ([2, 2], [1, 4, 1], False)]:
        mpo = Mpo()
        mpo.model = Model([BasisSHO(i, 1.0, d) for i, d in enumerate(dims)], [])
        if cplx:
            mpo.dtype = np.complex128
        for i, d in enumerate(dims):
            a = rng.rand(bonds[i], d, d, bonds[i + 1]) - 0.5
            if cplx:
                a = a + 1j * (rng.rand(*a.shape) - 0.5)
            mpo.append(a)
        d = mpo.todense()
        show(f"handmade {dims} cplx={cplx}", f"{num(d)} contiguous={d.flags['C_CONTIGUOUS']} owndata={d.flags['OWNDATA']}")
        show(f"handmade {dims} hermitian", mpo.is_hermitian())
        mats_after = [num(mt.array) for mt in mpo]
        show(f"handmade {dims} mats", mats_after)
    # float32 matrices keep numpy promotion rules
    mpo = Mpo()
    mpo.model = Model([BasisHalfSpin(0), BasisHalfSpin(1)], [])
    from renormalizer.mps.matrix import Matrix
    mpo.append(Matrix(rng.rand(1, 2, 2, 3).astype(np.float32), dtype=np.float32))
    mpo.append(Matrix(rng.rand(3, 2, 2, 1).astype(np.float32), dtype=np.float32))
    show("float32 todense", num(mpo.todense()))
    # identity, empty operator, limits
    ident = Mpo.identity(small4)
    show("identity dense", num(ident.todense()))
    empty = Mpo()
    import types
    empty.model = types.SimpleNamespace(pbond_list=[], pbond_dims=[])
    guarded("empty todense", lambda: show("empty todense", num(empty.todense())))
    # exactly at / just over the size limit (20000 = 100 * 200)
    for dims in ([100, 200], [100, 201], [20000], [20001]):
        big = Mpo()
        big.model = Model([BasisSHO(i, 1.0, d) for i, d in enumerate(dims)], [])
        if np.prod(dims) <= 20000 and len(dims) == 2:
            pass
        guarded(f"limit {dims}", lambda: show(f"limit {dims}", num(big.todense())))
    # operator with an unset site
    broken = Mpo()
    broken.model = Model([BasisHalfSpin(0), BasisHalfSpin(1)], [])
    broken.append(np.eye(2).reshape(1, 2, 2, 1))
    broken._mp.append(None)
    guarded("unset site todense", lambda: broken.todense())
    # mismatching bond dimensions
    bad = Mpo()
    bad.model = Model([BasisHalfSpin(0), BasisHalfSpin(1)], [])
    bad.append(np.ones((1, 2, 2, 3)))
    bad._mp.append(Matrix(np.ones((2, 2, 2, 1))))
    guarded("bond mismatch todense", lambda: bad.todense())
    # open boundary (last bond > 1): only the [0, :, :, 0] block is returned
    ob = Mpo()
    ob.model = Model([BasisHalfSpin(0)], [])
    ob.append(np.arange(1 * 2 * 2 * 3, dtype=float).reshape(1, 2, 2, 3))
    guarded("open boundary todense", lambda: show("open boundary todense", num(ob.todense())))
    # density matrix shares the implementation
    mpdm = MpDm.max_entangled_gs(small4)
    show("mpdm dense", num(mpdm.todense()))


if __name__ == "__main__":
    np.random.seed(0)
    random.seed(0)
    check_terms_to_table()
    check_one_site()
    check_construct_symbolic_mpo()
    check_mpo()
    print("done")
