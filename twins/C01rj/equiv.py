"""Equivalence check for the C01rj refactoring.

Exercises Mpo.__init__, Mpo.todense, _terms_to_table and _deduplicate_table
and prints a deterministic digest.
"""
import hashlib
import itertools
import random

import numpy as np

from renormalizer.model import Model, Op
from renormalizer.model.basis import (
    BasisHalfSpin, BasisSHO, BasisSimpleElectron, BasisMultiElectron,
    BasisMultiElectronVac,
)
from renormalizer.mps import Mpo
from renormalizer.mps.symbolic_mpo import _terms_to_table, _deduplicate_table
from renormalizer.utils import Quantity

ALGOS = ["qr", "Hopcroft-Karp", "Hungarian"]


def h(arr):
    arr = np.ascontiguousarray(arr)
    return hashlib.sha256(arr.tobytes()).hexdigest()[:16]


def show_arr(name, arr):
    arr = np.asarray(arr)
    rounded = np.round(arr, 9) + 0.0
    print(name, arr.dtype, arr.shape, h(arr), h(rounded),
          np.round(np.abs(arr).sum(), 8) if arr.size else 0)


def attempt(name, fn):
    try:
        res = fn()
    except Exception as e:  # noqa
        print(name, "EXC", type(e).__name__, str(e)[:120])
        return None
    return res


def show_table(name, res):
    if res is None:
        return
    table, primary_ops, factor = res
    print(name, "table", table.dtype, table.shape, table.tolist())
    print(name, "primary_ops", [(op.symbol, tuple(op.dofs), complex(op.factor), np.asarray(op.qn).tolist())
                                  for op in primary_ops])
    show_arr(name + " factor", factor)
    print(name, "factor values", np.round(factor, 10).tolist())


def show_mpo(name, mpo, dense=True):
    if mpo is None:
        return
    print(name, "dtype", mpo.dtype, "len", len(mpo), "to_right", mpo.to_right,
          "offset", mpo.offset, "qntot", np.asarray(mpo.qntot).tolist(), "qnidx", mpo.qnidx)
    print(name, "shapes", [tuple(mt.shape) for mt in mpo])
    print(name, "qn", [np.asarray(q).tolist() for q in mpo.qn])
    print(name, "n_primary", len(mpo.primary_ops),
          "out_ops_lens", [len(o) for o in mpo.symbolic_out_ops_list])
    for i, mt in enumerate(mpo):
        show_arr(f"{name} site{i}", mt.array)
    if dense:
        d = attempt(name + " todense", mpo.todense)
        if d is not None:
            show_arr(name + " dense", d)
            print(name, "herm", mpo.is_hermitian())


# ---------------------------------------------------------------- models
def spin_model(n):
    return [BasisHalfSpin(i) for i in range(n)]


def mixed_basis():
    return [
        BasisSimpleElectron("e0"),
        BasisSHO("v0", omega=0.7, nbas=3),
        BasisHalfSpin("s0"),
        BasisSHO("v1", omega=1.3, nbas=4, x0=0.4),
        BasisSimpleElectron("e1"),
    ]


def multi_basis():
    return [
        BasisSHO("v0", omega=0.5, nbas=3),
        BasisMultiElectron(["a", "b", "c"], [0, 1, 1]),
        BasisSHO("v1", omega=1.1, nbas=2),
        BasisHalfSpin("s", sigmaqn=[0, 0]),
    ]


def vac_basis():
    return [
        BasisMultiElectronVac(["a", "b"]),
        BasisSHO("v0", omega=0.9, nbas=3),
        BasisHalfSpin("s"),
    ]


def random_spin_terms(rng, n, nterms, cplx=False):
    syms = ["sigma_+", "sigma_-", "sigma_z", "sigma_x"]
    terms = []
    for _ in range(nterms):
        k = rng.randint(1, n)
        sites = sorted(rng.sample(range(n), k))
        f = rng.uniform(-1, 1) * 10 ** rng.randint(-4, 3)
        if cplx:
            f = f + 1j * rng.uniform(-1, 1)
        terms.append(Op.product([Op(rng.choice(syms), j) for j in sites]) * f)
    return terms


def mixed_terms():
    return [
        Op(r"a^\dagger a", "e0", 1.5),
        Op(r"a^\dagger a", "e1", 0.5),
        Op(r"a^\dagger a", ["e0", "e1"], 0.1, qn=[1, -1]),
        Op(r"a^\dagger a", ["e1", "e0"], 0.1, qn=[1, -1]),
        Op(r"b^\dagger b", "v0", 0.7),
        Op("p^2", "v1", 0.5),
        Op("x^2", "v1", 0.5 * 1.3 ** 2),
        Op(r"a^\dagger a x", ["e0", "e0", "v0"], 0.03, qn=[1, -1, 0]),
        Op(r"a^\dagger a x", ["e1", "e1", "v1"], -2e-3, qn=[1, -1, 0]),
        Op("sigma_z x x", ["s0", "v0", "v1"], 1e-4),
        Op("sigma_x", "s0", 2.0),
        # duplicates and partially cancelling
        Op("sigma_x", "s0", -1.5),
        Op(r"b^\dagger b", "v0", 0.7),
        Op("x x", ["v0", "v0"], 0.25),
        # exactly cancelling
        Op("x", "v1", 0.125),
        Op("x", "v1", -0.125),
    ]


def multi_terms(cplx):
    c = 1j if cplx else 1.0
    return [
        Op(r"a^\dagger a", ["a", "a"], 1.0, qn=[0, 0]),
        Op(r"a^\dagger a", ["b", "b"], 2.0, qn=[1, -1]),
        Op(r"a^\dagger a", ["c", "c"], 3.0, qn=[1, -1]),
        Op(r"a^\dagger a", ["b", "c"], 0.2 * c, qn=[1, -1]),
        Op(r"a^\dagger a", ["c", "b"], 0.2 * np.conj(c), qn=[1, -1]),
        Op(r"a^\dagger a x", ["b", "b", "v0"], 0.3, qn=[1, -1, 0]),
        Op(r"a^\dagger a x", ["c", "c", "v1"], -0.4, qn=[1, -1, 0]),
        Op(r"b^\dagger b", "v0", 0.5),
        Op(r"b^\dagger b", "v1", 1.1),
        Op("sigma_z", "s", 0.01),
        Op("sigma_z x", ["s", "v0"], 1e3),
    ]


def vac_terms():
    return [
        Op(r"a^\dagger a", ["a", "a"], 1.0, qn=[1, -1]),
        Op(r"a^\dagger a", ["b", "b"], 2.0, qn=[1, -1]),
        Op(r"a^\dagger a", ["a", "b"], 0.3, qn=[1, -1]),
        Op(r"a^\dagger a", ["b", "a"], 0.3, qn=[1, -1]),
        Op(r"a^\dagger a x", ["a", "a", "v0"], 0.2, qn=[1, -1, 0]),
        Op(r"b^\dagger b", "v0", 0.9),
        Op("sigma_x", "s", 0.4),
    ]


# ------------------------------------------------------ _deduplicate_table
def check_dedup():
    print("== _deduplicate_table")
    rng = np.random.RandomState(7)
    for icase in range(6):
        nrow = [1, 2, 7, 30, 30, 200][icase]
        ncol = [1, 3, 4, 5, 2, 6][icase]
        table = rng.randint(0, 3, size=(nrow, ncol)).astype(np.uint16)
        factor = rng.uniform(-1, 1, size=nrow)
        if icase % 2:
            factor = factor + 1j * rng.uniform(-1, 1, size=nrow)
        if icase >= 3:
            # make some rows cancel exactly and some nearly
            table[1] = table[0]
            factor[1] = -factor[0]
            table[3] = table[2]
            factor[3] = -factor[2] * (1 + 1e-14)
            factor[4] *= 1e-17
        t0, f0 = table.copy(), factor.copy()
        res = attempt(f"dedup{icase}", lambda: _deduplicate_table(table, factor))
        print(f"dedup{icase} args untouched", np.array_equal(t0, table), np.array_equal(f0, factor))
        if res is not None:
            nt, nf = res
            print(f"dedup{icase}", type(nt).__name__, nt.dtype, nt.shape, nt.tolist())
            show_arr(f"dedup{icase} factor", nf)
            print(f"dedup{icase} flags", nt.flags["C_CONTIGUOUS"], nt.flags["OWNDATA"], nf.flags["OWNDATA"])
    # all-zero factors
    res = attempt("dedup-zero", lambda: _deduplicate_table(np.array([[1, 2], [1, 2]], dtype=np.uint16), np.array([1.0, -1.0])))
    if res is not None:
        print("dedup-zero", res[0].shape, res[0].tolist(), res[1].tolist())
    # integer factors
    res = attempt("dedup-int", lambda: _deduplicate_table(np.array([[1, 2], [0, 2], [1, 2]]), np.array([1, 2, 3])))
    if res is not None:
        print("dedup-int", res[0].dtype, res[0].tolist(), res[1].dtype, res[1].tolist())
    # empty
    attempt("dedup-empty2d", lambda: _deduplicate_table(np.zeros((0, 3), dtype=np.uint16), np.zeros(0)))
    attempt("dedup-empty1d", lambda: _deduplicate_table(np.array([], dtype=np.uint16), np.array([])))
    # length mismatch
    attempt("dedup-mismatch", lambda: _deduplicate_table(np.array([[1], [2]], dtype=np.uint16), np.array([1.0, 2.0, 3.0])))
    # 2-d factor
    res = attempt("dedup-2dfactor", lambda: _deduplicate_table(np.array([[1], [2], [1]], dtype=np.uint16), np.arange(6.).reshape(3, 2)))
    if res is not None:
        print("dedup-2dfactor", [np.asarray(r).tolist() for r in res])


# ---------------------------------------------------------- _terms_to_table
def check_table():
    print("== _terms_to_table")
    rng = random.Random(11)
    m = Model(spin_model(4), [])
    terms = m.check_operator_terms(random_spin_terms(rng, 4, 12))
    show_table("tab-spin", attempt("tab-spin", lambda: _terms_to_table(m, terms, 0)))
    show_table("tab-spin-const", attempt("tab-spin-const", lambda: _terms_to_table(m, terms, -0.75)))
    termsc = m.check_operator_terms(random_spin_terms(rng, 4, 9, cplx=True))
    show_table("tab-spin-cplx", attempt("tab-spin-cplx", lambda: _terms_to_table(m, termsc, 2.5)))
    show_table("tab-spin-cplxconst", attempt("tab-spin-cplxconst", lambda: _terms_to_table(m, termsc, 1j)))
    # empty terms, with and without const
    show_table("tab-empty-const", attempt("tab-empty-const", lambda: _terms_to_table(m, [], 3.0)))
    show_table("tab-empty", attempt("tab-empty", lambda: _terms_to_table(m, [], 0)))
    # identity-only term
    show_table("tab-ident", attempt("tab-ident", lambda: _terms_to_table(m, [Op("I", 2, 0.5)], 0.25)))
    show_table("tab-ident-cancel", attempt("tab-ident-cancel", lambda: _terms_to_table(m, [Op("I", 2, 0.5), Op("sigma_z", 1)], -0.5)))
    # unknown dof
    attempt("tab-baddof", lambda: _terms_to_table(m, [Op("sigma_z", 17)], 0))

    m2 = Model(mixed_basis(), [])
    t2 = m2.check_operator_terms(mixed_terms())
    show_table("tab-mixed", attempt("tab-mixed", lambda: _terms_to_table(m2, t2, -0.3)))
    m3 = Model(multi_basis(), [])
    for cplx in (False, True):
        t3 = m3.check_operator_terms(multi_terms(cplx))
        show_table(f"tab-multi{cplx}", attempt("tab-multi", lambda: _terms_to_table(m3, t3, 0)))
    m4 = Model(vac_basis(), [])
    t4 = m4.check_operator_terms(vac_terms())
    show_table("tab-vac", attempt("tab-vac", lambda: _terms_to_table(m4, t4, 1.0)))
    # input term list must not be mutated
    print("terms untouched", [str(t) for t in t4] == [str(t) for t in m4.check_operator_terms(vac_terms())])


# ------------------------------------------------------------ Mpo / todense
def check_mpo():
    print("== Mpo.__init__ / todense")
    rng = random.Random(5)
    # hand-made
    empty = Mpo()
    print("empty", len(empty), empty.dtype, hasattr(empty, "offset"), hasattr(empty, "symbolic_mpo"))
    attempt("empty todense", empty.todense)

    basis = spin_model(4)
    ham = random_spin_terms(rng, 4, 15)
    model = Model(basis, ham)
    for algo in ALGOS:
        show_mpo(f"spin-ham-{algo}", attempt(f"spin-ham-{algo}" + " ctor", lambda: Mpo(model, algo=algo)))
        show_mpo(f"spin-off-{algo}", attempt(f"spin-off-{algo}" + " ctor", lambda: Mpo(model, offset=Quantity(0.37), algo=algo)))
        show_mpo(f"spin-offev-{algo}", attempt(f"spin-offev-{algo}" + " ctor", lambda: Mpo(model, ham[:5], Quantity(1.2, "ev"), algo)))
    # single Op, single-term list, OpSum
    one = Op("sigma_x sigma_z", [1, 3], 0.3)
    for algo in ALGOS:
        show_mpo(f"spin-oneop-{algo}", attempt(f"spin-oneop-{algo}" + " ctor", lambda: Mpo(model, one, algo=algo)))
        show_mpo(f"spin-onelist-{algo}", attempt(f"spin-onelist-{algo}" + " ctor", lambda: Mpo(model, [one], algo=algo)))
        show_mpo(f"spin-opsum-{algo}", attempt(f"spin-opsum-{algo}" + " ctor", lambda: Mpo(model, [one + Op("sigma_z", 0), Op("sigma_y", 2, 1e-3)], algo=algo)))
        show_mpo(f"spin-opsum2-{algo}", attempt(f"spin-opsum2-{algo}" + " ctor", lambda: Mpo(model, [one + Op("sigma_z", 0), Op("sigma_x", 2, 1e-3)], algo=algo)))
        show_mpo(f"spin-ident-{algo}", attempt(f"spin-ident-{algo}" + " ctor", lambda: Mpo(model, Op("I", 0, 2.0), Quantity(0.5), algo=algo)))
    # complex factors
    hamc = random_spin_terms(rng, 4, 10, cplx=True)
    for algo in ALGOS:
        show_mpo(f"spin-cplx-{algo}", attempt(f"spin-cplx-{algo}" + " ctor", lambda: Mpo(model, hamc, Quantity(-0.2), algo=algo)))
    # errors
    attempt("err-offset-float", lambda: Mpo(model, ham, 0.3))
    attempt("err-offset-none", lambda: Mpo(model, ham, None))
    attempt("err-empty-list", lambda: Mpo(model, []))
    attempt("err-empty-tuple", lambda: Mpo(model, ()))
    attempt("err-zero-factor", lambda: Mpo(model, [Op("sigma_z", 0, 0.0), Op("sigma_x", 1, 0.0)]))
    attempt("err-zero-single", lambda: Mpo(model, Op("sigma_z", 0, 0.0)))
    attempt("err-not-op", lambda: Mpo(model, ["sigma_z"]))
    attempt("err-not-iterable", lambda: Mpo(model, 3))
    attempt("err-bad-dof", lambda: Mpo(model, [Op("sigma_z", 9)]))
    attempt("err-bad-algo", lambda: Mpo(model, ham, algo="nope"))
    attempt("err-cancel-all", lambda: Mpo(model, [Op("sigma_z", 0, 1.0), Op("sigma_z", 0, -1.0)]))
    attempt("err-emptyham", lambda: Mpo(Model(basis, [])))
    attempt("err-offset-before-terms", lambda: Mpo(model, [], 1.0))
    # model is None short cut ignores everything else
    m0 = attempt("none-model", lambda: Mpo(None, "junk", "junk", "junk"))
    print("none-model", len(m0), hasattr(m0, "offset"), hasattr(m0, "model") and m0.model)

    # mixed basis, non-zero qn
    m2 = Model(mixed_basis(), mixed_terms())
    for algo in ALGOS:
        show_mpo(f"mixed-{algo}", attempt(f"mixed-{algo}" + " ctor", lambda: Mpo(m2, offset=Quantity(0.11), algo=algo)))
    m3r = Model(multi_basis(), multi_terms(False))
    m3c = Model(multi_basis(), multi_terms(True))
    for algo in ALGOS:
        show_mpo(f"multi-real-{algo}", attempt(f"multi-real-{algo}" + " ctor", lambda: Mpo(m3r, algo=algo)))
        show_mpo(f"multi-cplx-{algo}", attempt(f"multi-cplx-{algo}" + " ctor", lambda: Mpo(m3c, algo=algo)))
    m4 = Model(vac_basis(), vac_terms())
    for algo in ALGOS:
        show_mpo(f"vac-{algo}", attempt(f"vac-{algo}" + " ctor", lambda: Mpo(m4, offset=Quantity(-1.0), algo=algo)))

    # one-site model
    m1 = Model([BasisSHO("v", 1.0, 5)], [Op(r"b^\dagger b", "v", 1.0), Op("x", "v", 0.2)])
    for algo in ALGOS:
        show_mpo(f"onesite-{algo}", attempt(f"onesite-{algo}" + " ctor", lambda: Mpo(m1, algo=algo)))

    # todense size limit: 2**10 ok, 2**15 too large
    big_ok = Model(spin_model(10), [Op("sigma_z", 0), Op("sigma_x sigma_x", [3, 9], 0.5)])
    mpo_ok = attempt("big-ok ctor", lambda: Mpo(big_ok))
    d = attempt("big-ok todense", mpo_ok.todense)
    if d is not None:
        print("big-ok", d.shape, d.dtype, float(np.trace(d)), float(np.abs(d).sum()), h(d))
    big = Model(spin_model(15), [Op("sigma_z", 0)])
    mpo_big = attempt("big ctor", lambda: Mpo(big))
    attempt("big todense", mpo_big.todense)
    attempt("big herm", mpo_big.is_hermitian)
    mb2 = Model([BasisSHO("a", 1.0, 200), BasisSHO("b", 1.0, 101)], [Op(r"b^\dagger b", "a")])
    attempt("dim20200 todense", Mpo(mb2).todense)

    # todense after in-place manipulation: complex conversion, scaling, conj_trans, product
    mpo = Mpo(m3c, algo="qr")
    show_arr("conjtrans dense", mpo.conj_trans().todense())
    show_arr("scaled dense", mpo.scale(0.5 - 0.25j).todense())
    mpor = Mpo(m3r, algo="Hopcroft-Karp")
    show_arr("product dense", (mpor @ mpor).todense())
    show_arr("real->cplx dense", mpor.to_complex().todense())
    show_arr("identity dense", Mpo.identity(m3r).todense())

    # swaps
    for algo in ALGOS:
        r2 = random.Random(3)
        basis = spin_model(5)
        ham = random_spin_terms(r2, 5, 25)
        mpo = Mpo(Model(basis, ham), algo=algo)
        for k in range(6):
            i = r2.randint(0, 3)
            basis = basis.copy()
            basis[i], basis[i + 1] = basis[i + 1], basis[i]
            new_model = Model(basis, ham)
            mpo.try_swap_site(new_model, False, algo=algo)
            ref = Mpo(new_model, algo=algo)
            print(f"swap-{algo}-{k}", i, [tuple(mt.shape) for mt in mpo],
                  bool(np.allclose(mpo.todense(), ref.todense())))
            show_arr(f"swap-{algo}-{k} dense", mpo.todense())
            show_arr(f"swap-{algo}-{k} ref", ref.todense())


if __name__ == "__main__":
    np.set_printoptions(precision=10, suppress=False)
    check_dedup()
    check_table()
    check_mpo()
