import hashlib
import numpy as np
import scipy.sparse

from renormalizer.model import Model, Op
from renormalizer.model import basis as ba
from renormalizer.mps import Mpo
from renormalizer.utils import Quantity
from renormalizer.mps import symbolic_mpo as sm
from renormalizer.mps.symbolic_mpo import OpTuple

ALGOS = ["qr", "Hopcroft-Karp", "Hungarian"]


def rnd(x):
    x = np.asarray(x)
    if np.iscomplexobj(x):
        x = np.round(x.real, 9) + 1j * np.round(x.imag, 9)
    elif x.dtype.kind == "f":
        x = np.round(x, 9)
    return (x + 0).tolist()  # +0 removes negative zeros of real arrays


def d_optuple(o):
    return (np.asarray(o.symbol).tolist(), str(np.asarray(o.symbol).dtype),
            np.asarray(o.qn).tolist(), rnd(o.factor), type(o.factor).__name__)


def d_out_ops(out_ops):
    return [[d_optuple(o) for o in ops] for ops in out_ops]


def d_arr(a):
    a = np.asarray(a)
    return (a.shape, str(a.dtype), rnd(a))


def show(tag, obj):
    s = repr(obj)
    print(tag, hashlib.md5(s.encode()).hexdigest(), s[:300])


def d_mo(mo):
    return [(idx, [(t.symbol, tuple(map(str, t.dofs)), rnd(t.factor), np.asarray(t.qn).tolist()) for t in terms])
            for idx, terms in np.ndenumerate(mo)]


def models():
    rng = np.random.default_rng(7)
    out = []
    # 1. spin chain, complex factors, duplicate and cancelling terms
    n = 5
    m = Model([ba.BasisHalfSpin(i) for i in range(n)], [])
    terms = []
    for i in range(n - 1):
        terms.append(Op("sigma_x sigma_x", [i, i + 1], 0.5 + 0.25j))
        terms.append(Op("sigma_z sigma_z", [i, i + 1], 10.0 ** (i - 2)))
    terms.append(Op("sigma_x sigma_x", [0, 1], 0.5))  # duplicate
    terms.append(Op("sigma_y", 2, 1e-3j))
    terms.append(Op("sigma_y", 2, -1e-3j))  # cancels
    terms.append(Op("sigma_x sigma_y sigma_z", [0, 2, 4], -2.0))
    terms.append(Op("sigma_z sigma_z", [1, 1], 0.3))  # repeated symbol on site
    out.append(("spin", m, terms, 0.0))
    # 2. electron + phonons with quantum numbers, shifted SHO, offset
    basis = [ba.BasisSimpleElectron("e0"), ba.BasisSHO("v0", 1.0, 3), ba.BasisSimpleElectron("e1"),
             ba.BasisSHO("v1", 1.3, 4, x0=0.4), ba.BasisSimpleElectron("e2")]
    terms = []
    for i in range(3):
        terms.append(Op(r"a^\dagger a", [f"e{i}", f"e{i}"], 0.1 * (i + 1), qn=[1, -1]))
    for i, j in [(0, 1), (1, 2), (0, 2)]:
        c = float(rng.normal())
        terms.append(Op(r"a^\dagger a", [f"e{i}", f"e{j}"], c, qn=[1, -1]))
        terms.append(Op(r"a^\dagger a", [f"e{j}", f"e{i}"], c, qn=[1, -1]))
    for v, w in [("v0", 1.0), ("v1", 1.3)]:
        terms.append(Op("p^2", v, 0.5))
        terms.append(Op("x^2", v, 0.5 * w ** 2))
    terms.append(Op(r"a^\dagger a x", ["e0", "e0", "v0"], 0.7, qn=[1, -1, 0]))
    terms.append(Op(r"a^\dagger a x", ["e1", "e1", "v1"], -0.2, qn=[1, -1, 0]))
    terms.append(Op(r"a^\dagger a x x", ["e2", "e2", "v0", "v1"], 1e-4, qn=[1, -1, 0, 0]))
    out.append(("holstein", Model(basis, []), terms, 0.37))
    # 3. multi electron site + multi-dof
    basis = [ba.BasisMultiElectron(["a", "b", "c"], [0, 1, 1]), ba.BasisSHO("q", 2.0, 3), ba.BasisHalfSpin("s")]
    terms = [Op(r"a^\dagger a", ["b", "b"], 1.0), Op(r"a^\dagger a", ["c", "c"], 2.0 - 1j),
             Op(r"a^\dagger a", ["b", "c"], 0.3), Op(r"a^\dagger a", ["c", "b"], 0.3),
             Op(r"a^\dagger a x sigma_z", ["a", "b", "q", "s"], 0.11, qn=[0, -1, 0, 0]),
             Op(r"a^\dagger a x sigma_z", ["b", "a", "q", "s"], 0.11, qn=[1, 0, 0, 0]),
             Op("b^\dagger b", ["q", "q"], 2.0), Op("sigma_x", "s", 1e3)]
    out.append(("multi", Model(basis, []), terms, -1.5))
    # 4. single term (shortcut), one site
    out.append(("single", Model([ba.BasisHalfSpin(0), ba.BasisHalfSpin(1)], []), [Op("sigma_x sigma_z", [0, 1], 2.5j)], 0.0))
    out.append(("onesite", Model([ba.BasisSHO("v", 1.0, 4)], []), [Op("x", "v", 1.0), Op("p^2", "v", 0.5)], 0.0))
    # 5. random long-range spin terms
    n = 6
    m = Model([ba.BasisHalfSpin(i) for i in range(n)], [])
    terms = []
    syms = ["sigma_x", "sigma_+", "sigma_z"]
    for _ in range(25):
        k = int(rng.integers(1, 4))
        sites = sorted(rng.choice(n, size=k, replace=False).tolist())
        s = " ".join(syms[int(rng.integers(3))] for _ in sites)
        terms.append(Op(s, sites, float(rng.normal()) * 10.0 ** int(rng.integers(-3, 3))))
    out.append(("random", m, terms, 0.0))
    return out


def run_models():
    for name, model, terms, const in models():
        table, primary_ops, factor = sm._terms_to_table(model, terms, -const)
        for algo in ALGOS:
            mpo, mpoqn, qntot, qnidx, out_ops_list, pops = sm.construct_symbolic_mpo(table, primary_ops, factor, algo)
            assert pops is primary_ops
            show(f"{name}/{algo}/csm", ([d_mo(mo) for mo in mpo], [d_arr(q) for q in mpoqn], d_arr(qntot), qnidx,
                                       [d_out_ops(o) for o in out_ops_list]))
            # lower level driver
            if table.shape[0] > 1:
                ta = np.zeros((table.shape[0], 1), dtype=np.uint16)
                t2 = np.concatenate((ta, table, ta), axis=1)
                qn_size = len(primary_ops[0].qn)
                in_ops = [[OpTuple([0], qn=np.zeros(qn_size, dtype=int), factor=1)]]
                ool = sm._construct_symbolic_mpo(t2, in_ops, factor.copy(), primary_ops, algo)
                show(f"{name}/{algo}/_csm", [d_out_ops(o) for o in ool])
                # one-site pieces at a middle cut
                f = factor.copy()
                res = sm._construct_symbolic_mpo_one_site(t2[:, :2], t2[:, 2:], [in_ops], f, primary_ops, algo)
                show(f"{name}/{algo}/one", (d_out_ops(res[0]), d_arr(res[1]), d_arr(res[2]), d_arr(f)))
            mpo_obj = Mpo(model, terms, offset=Quantity(const), algo=algo)
            show(f"{name}/{algo}/dense", (d_arr(mpo_obj.todense()), [d_arr(q) for q in mpo_obj.qn], d_arr(mpo_obj.qntot)))
        try:
            sm.construct_symbolic_mpo(table, primary_ops, factor, "nonsense")
            print(name, "nonsense ok")
        except Exception as e:
            print(name, "nonsense", type(e).__name__, str(e)[:60])


def run_direct():
    # direct calls of the decomposers with k=1 and k=2 and several incoming bonds (tree-like use)
    rng = np.random.default_rng(11)
    prim = [Op.identity(f"d{i}", qn_size=2) for i in range(3)]
    prim += [Op("sigma_+", "d0", qn=[[1, 0]]), Op("sigma_-", "d0", qn=[[-1, 0]]), Op("sigma_z", "d1", qn=[[0, 0]]),
             Op("sigma_+", "d1", qn=[[0, 1]]), Op("sigma_-", "d2", qn=[[0, -1]])]
    in_a = [[OpTuple([0], qn=np.array([0, 0]), factor=1)], [OpTuple([1], qn=np.array([1, -1]), factor=2.0)],
            [OpTuple([2], qn=np.array([0, 2]), factor=1j)]]
    in_b = [[OpTuple([0], qn=np.array([3, 0]), factor=1)], [OpTuple([0], qn=np.array([-1, 0]), factor=1)]]
    for case in range(6):
        nterm = [1, 2, 7, 12, 20, 30][case]
        for k, in_list in [(1, [in_a]), (2, [in_a]), (1, [in_a, in_b]), (2, [in_a, in_b])]:
            ncol_row = len(in_list) + k
            cols = [rng.integers(0, len(il), size=nterm) for il in in_list]
            cols += [rng.integers(0, len(prim), size=nterm) for _ in range(k)]
            table_row = np.array(cols, dtype=np.uint16).T.reshape(nterm, ncol_row)
            table_col = rng.integers(0, 3, size=(nterm, 2)).astype(np.uint16)
            full = np.unique(np.concatenate([table_row, table_col], axis=1), axis=0)
            table_row, table_col = full[:, :ncol_row], full[:, ncol_row:]
            n = len(full)
            if case % 2:
                factor = rng.normal(size=n) + 1j * rng.normal(size=n)
            else:
                factor = rng.normal(size=n) * 10.0 ** rng.integers(-4, 4, size=n)
            for algo in ALGOS + ["qr-x"]:
                f = factor.copy()
                res = sm._construct_symbolic_mpo_one_site(table_row.copy(), table_col.copy(), in_list, f, prim, algo, k)
                show(f"direct{case}/k{k}/n{len(in_list)}/{algo}", (d_out_ops(res[0]), d_arr(res[1]), d_arr(res[2]), d_arr(f)))
                # call the decomposers themselves, check mutation of non_red
                term_row, rinv = np.unique(table_row, axis=0, return_inverse=True)
                term_col_arr, cinv = np.unique(table_col, axis=0, return_inverse=True)
                term_col = list(term_col_arr)
                non_red = scipy.sparse.coo_matrix((np.arange(n) + 1, (np.ravel(rinv), np.ravel(cinv)))).tocsr()
                f = factor.copy()
                fn = sm._decompose_qr if algo.startswith("qr") else sm._decompose_graph
                try:
                    res = fn(term_row, term_col, non_red, in_list, f, prim, algo, k)
                    out = (d_out_ops(res[0]), d_arr(res[1]), d_arr(res[2]))
                except Exception as e:
                    out = (type(e).__name__, str(e)[:80])
                show(f"decomp{case}/k{k}/n{len(in_list)}/{algo}",
                     (out, d_arr(f), d_arr(non_red.data), d_arr(non_red.indices), d_arr(non_red.indptr), non_red.shape))
    # wrong algo for graph
    try:
        sm._construct_symbolic_mpo_one_site(table_row, table_col, in_list, factor, prim, "foo", k)
    except Exception as e:
        print("foo", type(e).__name__, str(e)[:60])
    # violated assertion on in_ops_list/k
    try:
        sm._construct_symbolic_mpo_one_site(table_row, table_col, in_list, factor, prim, "qr", k + 1)
    except Exception as e:
        print("kbad", type(e).__name__, str(e)[:60])


def run_swap():
    n = 5
    rng = np.random.default_rng(3)
    dofs = list(range(n))
    terms = []
    for i in range(n - 1):
        terms.append(Op("sigma_+ sigma_-", [i, i + 1], 0.5 + 0.1 * i))
        terms.append(Op("sigma_- sigma_+", [i, i + 1], 0.5 + 0.1 * i))
        terms.append(Op("sigma_z sigma_z", [i, (i + 2) % n], float(rng.normal())))
    for algo in ALGOS:
        order = dofs.copy()
        model = Model([ba.BasisHalfSpin(i) for i in order], [])
        mpo = Mpo(model, terms, algo=algo)
        for i in [1, 3, 0, 2, 1]:
            order[i], order[i + 1] = order[i + 1], order[i]
            new_model = Model([ba.BasisHalfSpin(d) for d in order], [])
            mpo.try_swap_site(new_model, False, algo=algo)
            show(f"swap/{algo}/{i}", ([d_arr(np.asarray(m)) for m in mpo], [d_arr(q) for q in mpo.qn],
                                     [d_out_ops(o) for o in mpo.symbolic_out_ops_list]))
        ref = Mpo(new_model, terms, algo=algo)
        print("swap exact", algo, bool(np.allclose(mpo.todense(), ref.todense(), atol=1e-10)))


if __name__ == "__main__":
    run_models()
    run_direct()
    run_swap()
