import sys, types
_pt = types.ModuleType("print_tree"); _pt.print_tree = object; sys.modules.setdefault("print_tree", _pt)

import hashlib
import random

import numpy as onp

from renormalizer import Op, Model, Mpo, BasisHalfSpin, BasisSHO, BasisSimpleElectron, BasisMultiElectron
from renormalizer.model.basis import BasisDummy
from renormalizer.model.model import heisenberg_ops
from renormalizer.mps.symbolic_mpo import OpTuple
from renormalizer.tn.node import TreeNodeBasis
from renormalizer.tn.treebase import BasisTree
from renormalizer.tn.tree import TTNO
from renormalizer.tn import symbolic_ttno as st

onp.set_printoptions(linewidth=200, precision=8, suppress=True)


def r(x, nd=8):
    return onp.round(onp.asarray(x, dtype=complex if onp.iscomplexobj(x) else float), nd) + 0.0


def arr_digest(a, nd=7):
    a = onp.asarray(a)
    b = r(a, nd)
    h = hashlib.md5(onp.ascontiguousarray(b).tobytes()).hexdigest()[:12]
    return f"shape={a.shape} dtype={a.dtype} sum={r(b.sum(), 6)} abs={r(onp.abs(b).sum(), 6)} md5={h}"


def op_str(op):
    f = op.factor
    f = complex(f)
    return f"Op({op.symbol!r},{op.dofs!r},{round(f.real, 8) + 0.0},{round(f.imag, 8) + 0.0},qn={onp.asarray(op.qn).tolist()})"


def mo_digest(mo):
    lines = [f"  mo shape={mo.shape} dtype={mo.dtype}"]
    for idx, cell in onp.ndenumerate(mo):
        if cell:
            lines.append(f"    {idx}: " + " | ".join(op_str(o) for o in cell))
    return "\n".join(lines)


def run(label, func):
    try:
        out = func()
    except Exception as e:  # digest of the exception is part of the behaviour
        out = f"EXC {type(e).__name__}: {str(e)[:200]}"
    print(f"[{label}]")
    print(out)


# ----------------------------------------------------------------------------
# tree builders
# ----------------------------------------------------------------------------
def random_tree(basis_list, rng, max_group=3, dummy_root=False, n_dummy_internal=0, n_dummy_leaf=0, qn_size=1):
    zqn = [[0] * qn_size]
    basis_list = list(basis_list)
    groups = []
    i = 0
    while i < len(basis_list):
        g = rng.randint(1, max_group)
        groups.append(basis_list[i:i + g])
        i += g
    nodes = [TreeNodeBasis(g) for g in groups]
    for j in range(n_dummy_internal):
        nodes.insert(rng.randint(0, len(nodes) - 1), TreeNodeBasis([BasisDummy(("int", j), 1, zqn)]))
    if dummy_root:
        nodes.insert(0, TreeNodeBasis([BasisDummy(("root", 0), 1, zqn)]))
    for j in range(1, len(nodes)):
        nodes[rng.randint(0, j - 1)].add_child(nodes[j])
    for j in range(n_dummy_leaf):
        nodes[rng.randint(0, len(nodes) - 1)].add_child(TreeNodeBasis([BasisDummy(("leaf", j), 1, zqn)]))
    return BasisTree(nodes[0])


def multi_basis_tree(basis_list):
    node1 = TreeNodeBasis([basis_list[0], basis_list[1]])
    node2 = TreeNodeBasis([basis_list[2]])
    node3 = TreeNodeBasis([basis_list[3]])
    node4 = TreeNodeBasis([basis_list[4], basis_list[5], basis_list[6]])
    node3.add_child(node2)
    node2.add_child(node1)
    node2.add_child(node4)
    return BasisTree(node3)


def spin_terms(n, rng, nterms):
    symbols = ["sigma_x", "sigma_z", "sigma_+", "sigma_-", "isigma_y"]
    terms = []
    for _ in range(nterms):
        nbody = rng.randint(1, min(4, n))
        dofs = sorted(rng.sample(range(n), nbody))
        sym = " ".join(rng.choice(symbols) for _ in dofs)
        terms.append(Op(sym, dofs, round(rng.uniform(-2, 2), 3)))
    return terms


def electron_basis(n):
    return [BasisSimpleElectron(i) for i in range(n)]


def electron_terms(n, rng):
    terms = []
    for i in range(n):
        terms.append(Op(r"a^\dagger a", i, round(rng.uniform(-1, 1), 3)))
    for i in range(n):
        for j in range(n):
            if i != j and rng.random() < 0.6:
                terms.append(Op(r"a^\dagger a", [i, j], round(rng.uniform(-1, 1), 3)))
    return terms


def eph_basis():
    # two-component quantum numbers + SHO + multi electron
    b = [BasisMultiElectron(["e0", "e1"], [[1, 0], [0, 1]])]
    b += [BasisSHO(f"v{i}", omega=0.5 + i, nbas=3) for i in range(3)]
    for x in b[1:]:
        x.sigmaqn = onp.zeros((x.nbas, 2), dtype=int)
    return b


def eph_terms():
    terms = [Op(r"a^\dagger a", ["e0", "e0"], 1.5, qn=[[1, 0], [-1, 0]]),
             Op(r"a^\dagger a", ["e1", "e1"], -0.5, qn=[[0, 1], [0, -1]]),
             Op(r"a^\dagger a", ["e0", "e1"], 0.3, qn=[[1, 0], [0, -1]]),
             Op(r"a^\dagger a", ["e1", "e0"], 0.3, qn=[[0, 1], [-1, 0]])]
    for i in range(3):
        terms.append(Op("p^2", f"v{i}", 0.5))
        terms.append(Op("x^2", f"v{i}", 0.5 * (0.5 + i) ** 2))
        terms.append(Op(r"a^\dagger a x", ["e0", "e0", f"v{i}"], 0.1 * (i + 1), qn=[[1, 0], [-1, 0], [0, 0]]))
    terms.append(Op("x x", ["v0", "v2"], 0.07))
    return terms


ALGOS = ["qr", "Hopcroft-Karp", "Hungarian"]


# ----------------------------------------------------------------------------
# 1. compose_symbolic_mo_general on synthetic inputs
# ----------------------------------------------------------------------------
def test_compose():
    out = []
    prim = [Op("I", 0), Op("I", 1), Op("sigma_x", 0, 2.0), Op("sigma_z", 1, -1.5), Op("sigma_+", 1), Op("sigma_-", 0, 0.5)]
    z = onp.zeros(1, dtype=int)

    def ot(sym, factor):
        return OpTuple(onp.array(sym, dtype=onp.uint16), qn=z, factor=factor)

    # leaf: no in_ops, k=1 (symbol carries a leading dummy 0)
    out_ops = [[ot([0, 2], 1.0)], [ot([0, 0], 1.0), ot([0, 5], -0.25)], []]
    out.append(mo_digest(st.compose_symbolic_mo_general([], out_ops, prim, 1)))
    # leaf: no in_ops, k=2
    out_ops = [[ot([0, 2, 3], 0.5), ot([0, 5, 4], 2)], [ot([0, 0, 1], 1.0)]]
    out.append(mo_digest(st.compose_symbolic_mo_general([], out_ops, prim, 2)))
    # one child with 3 in ops, k=1
    in1 = [[ot([0, 0], 1)], [ot([0, 2], 1)], [ot([0, 5], 1)]]
    out_ops = [[ot([0, 3], 1.0), ot([2, 1], 0.3)], [ot([1, 4], onp.float64(-2.0)), ot([1, 3], 1.0), ot([0, 3], 7.0)]]
    out.append(mo_digest(st.compose_symbolic_mo_general([in1], out_ops, prim, 1)))
    # two children, k=2, complex factor, python-int symbols
    in2 = [[ot([0, 1], 1)], [ot([0, 3], 1)]]
    out_ops = [[OpTuple([2, 1, 2, 4], qn=z, factor=1j), OpTuple([0, 0, 0, 1], qn=z, factor=1.0)],
               [OpTuple([1, 1, 5, 3], qn=z, factor=0.5 - 0.5j)]]
    out.append(mo_digest(st.compose_symbolic_mo_general([in1, in2], out_ops, prim, 2)))
    # three children, no out ops at all
    out.append(mo_digest(st.compose_symbolic_mo_general([in1, in2, in2], [], prim, 1)))
    # empty out_ops, leaf
    out.append(mo_digest(st.compose_symbolic_mo_general([], [], prim, 1)))
    # children with empty in-op list
    out.append(mo_digest(st.compose_symbolic_mo_general([[], in2], [[]], prim, 1)))
    # returned cells must be distinct list objects
    mo = st.compose_symbolic_mo_general([in1], [[], []], prim, 1)
    ids = {id(c) for _, c in onp.ndenumerate(mo)}
    out.append(f"  distinct cells: {len(ids)} of {mo.size}")
    return "\n".join(out)


def test_compose_bad():
    prim = [Op("I", 0), Op("sigma_x", 0)]
    z = onp.zeros(1, dtype=int)
    in1 = [[OpTuple([0, 0], qn=z, factor=1)]] * 2
    # index out of range
    return mo_digest(st.compose_symbolic_mo_general([in1], [[OpTuple([5, 1], qn=z, factor=1)]], prim, 1))


def test_compose_bad2():
    prim = [Op("I", 0), Op("sigma_x", 0)]
    z = onp.zeros(1, dtype=int)
    in1 = [[OpTuple([0, 0], qn=z, factor=1)]] * 2
    # too short symbol for two children
    return mo_digest(st.compose_symbolic_mo_general([in1, in1], [[OpTuple([1, 1], qn=z, factor=1)]], prim, 1))


def test_compose_bad3():
    prim = [Op("I", 0), Op("sigma_x", 0)]
    z = onp.zeros(1, dtype=int)
    # primary op index out of range
    return mo_digest(st.compose_symbolic_mo_general([], [[OpTuple([0, 7], qn=z, factor=1)]], prim, 1))


# ----------------------------------------------------------------------------
# 2. symbolic_mo_to_numeric_mo_general on synthetic inputs
# ----------------------------------------------------------------------------
def make_mo(shape, cells):
    mo = onp.full(shape, None, dtype=object)
    for i, _ in onp.ndenumerate(mo):
        mo[i] = []
    for idx, ops in cells.items():
        mo[idx].extend(ops)
    return mo


def num_digest(t):
    return arr_digest(t) + f" strides={t.strides} C={t.flags['C_CONTIGUOUS']} own={t.flags['OWNDATA']} w={t.flags['WRITEABLE']}"


def test_numeric():
    out = []
    bs = [BasisHalfSpin(0), BasisHalfSpin(1)]
    sho = BasisSHO("v", omega=1.3, nbas=4)
    dummy = BasisDummy("d")

    def case(basis_sets, mo, dtype):
        try:
            out.append(num_digest(st.symbolic_mo_to_numeric_mo_general(basis_sets, mo, dtype)))
        except Exception as e:
            out.append(f"EXC {type(e).__name__}: {str(e)[:200]}")

    # 1 basis, leaf (mo.ndim == 1)
    mo = make_mo([3], {(0,): [Op("I", 0)], (1,): [Op("sigma_x", 0, 0.5), Op("sigma_z", 0, -2.0)]})
    case(bs[:1], mo, onp.float64)
    # 2 basis sets, one child
    mo = make_mo([2, 3], {(0, 0): [Op("I", 0) * Op("I", 1)], (1, 2): [Op("sigma_+ sigma_-", [0, 1], 0.7)],
                          (0, 1): [Op("I sigma_z", [0, 1], 1.5), Op("sigma_x sigma_x", [0, 1], 1)]})
    case(bs, mo, onp.float64)
    # a term that does not cover every basis set of the node
    mo = make_mo([2], {(0,): [Op("sigma_z", 1, 1.5)]})
    case(bs, mo, onp.float64)
    # 3 basis sets of different size, 2 children, several dtypes
    bs3 = [bs[0], sho, bs[1]]
    mo = make_mo([2, 1, 2], {(0, 0, 0): [Op("sigma_x x sigma_z", [0, "v", 1], 0.3)],
                             (1, 0, 1): [Op("I p^2 I", [0, "v", 1], 0.5), Op("sigma_z x^2 I", [0, "v", 1], 0.25),
                                         Op("I I sigma_-", [0, "v", 1])],
                             (1, 0, 0): [Op(r"I b^\dagger b I", [0, "v", "v", 1], 2)]})
    case(bs3, mo, onp.float64)
    case(bs3, mo, onp.float32)
    case(bs3, mo, onp.complex128)
    case(bs3, mo, int)
    # dummy basis + 3 children
    mo = make_mo([2, 2, 1, 2], {(0, 1, 0, 1): [Op("I", "d", 3.0)], (1, 1, 0, 0): [Op("I", "d"), Op("I", "d", -0.5)]})
    case([dummy], mo, onp.float64)
    # all cells empty, zero-sized mo
    case(bs[:1], make_mo([2, 2], {}), onp.float64)
    case(bs[:1], make_mo([0, 2], {}), onp.float64)
    case(bs, make_mo([3, 0], {}), onp.float64)
    # values, explicitly
    mo = make_mo([1, 2], {(0, 0): [Op("sigma_x", 0, 0.5)], (0, 1): [Op("sigma_z", 0, -2.0)]})
    out.append(str(r(st.symbolic_mo_to_numeric_mo_general(bs[:1], mo, onp.float64)).tolist()))
    mo = make_mo([2, 1], {(1, 0): [Op("sigma_x sigma_+", [0, 1], 0.5)]})
    out.append(str(r(st.symbolic_mo_to_numeric_mo_general(bs, mo, onp.float64)).tolist()))
    return "\n".join(out)


def test_numeric_complex():
    mo = make_mo([1], {(0,): [Op("sigma_x", 0, 1j)]})
    return num_digest(st.symbolic_mo_to_numeric_mo_general([BasisHalfSpin(0)], mo, onp.float64))


def test_numeric_complex2():
    mo = make_mo([1], {(0,): [Op("sigma_y", 0, 1.0)]})
    return num_digest(st.symbolic_mo_to_numeric_mo_general([BasisHalfSpin(0)], mo, onp.complex128))


def test_numeric_wrongdof():
    mo = make_mo([1], {(0,): [Op("sigma_x", 5, 1.0)]})
    return num_digest(st.symbolic_mo_to_numeric_mo_general([BasisHalfSpin(0)], mo, onp.float64))


# ----------------------------------------------------------------------------
# 3. construct_symbolic_ttno + TTNO + todense
# ----------------------------------------------------------------------------
def symbolic_digest(tree, terms, algo, const=None):
    if const is None:
        mpo, mpoqn = st.construct_symbolic_ttno(tree, terms, algo=algo)
    else:
        mpo, mpoqn = st.construct_symbolic_ttno(tree, terms, const, algo)
    lines = [f"  n={len(mpo)} {type(mpo).__name__} {type(mpoqn).__name__}"]
    for mo, qn in zip(mpo, mpoqn):
        lines.append(mo_digest(mo))
        lines.append(f"    qn {type(qn).__name__} {qn.dtype} {qn.shape} {qn.tolist()}")
    return "\n".join(lines)


def ttno_digest(tree, terms, algo, ref_basis=None, orders=()):
    ttno = TTNO(tree, terms, algo=algo)
    lines = ["  bond dims " + str(ttno.bond_dims)]
    for node in ttno.node_list:
        lines.append("  node " + num_digest(node.tensor) + f" qn={node.qn.tolist()}")
    dense = ttno.todense()
    lines.append("  dense " + arr_digest(dense) + f" type={type(dense).__name__}")
    if ref_basis is not None:
        d2 = ttno.todense(ref_basis)
        ref = Mpo(Model(ref_basis, [terms] if isinstance(terms, Op) else terms)).todense()
        lines.append("  dense(ref order) " + arr_digest(d2) + f" maxdiff_to_mpo<1e-10: {bool(onp.abs(d2 - ref).max() < 1e-10)}")
    for order in orders:
        lines.append("  dense(order) " + arr_digest(ttno.todense(order)))
    # the helper argument list
    args = ttno.to_contract_args("up", "down")
    lines.append(f"  nargs={len(args)}")
    return "\n".join(lines)


def main():
    run("compose", test_compose)
    run("compose_bad", test_compose_bad)
    run("compose_bad2", test_compose_bad2)
    run("compose_bad3", test_compose_bad3)
    run("numeric", test_numeric)
    run("numeric_complex", test_numeric_complex)
    run("numeric_complex2", test_numeric_complex2)
    run("numeric_wrongdof", test_numeric_wrongdof)

    nspin = 7
    spins = [BasisHalfSpin(i) for i in range(nspin)]
    heis = heisenberg_ops(nspin)
    rng = random.Random(1234)

    fixed_trees = {
        "linear": BasisTree.linear(spins),
        "binary": BasisTree.binary(spins),
        "multi": multi_basis_tree(spins),
        "mctdh2": BasisTree.binary_mctdh(spins),
        "mctdh3c": BasisTree.ternary_mctdh(spins, contract_primitive=True),
        "mctdh2cl": BasisTree.binary_mctdh(spins, contract_primitive=True,
                                          contract_label=[True, False, False, True, False, True, False]),
        "t3ns": BasisTree.t3ns(spins),
        "single-node": BasisTree(TreeNodeBasis(spins)),
    }
    for name, tree in fixed_trees.items():
        for algo in ALGOS:
            run(f"sym heis {name} {algo}", lambda: symbolic_digest(tree, heis, algo))
            run(f"ttno heis {name} {algo}", lambda: ttno_digest(tree, heis, algo, spins, [spins[::-1]]))

    # default algo of construct_symbolic_ttno (positional / default arguments), const != 0
    run("sym default-args", lambda: (lambda res: "\n".join(mo_digest(m) for m in res[0]) + str([q.tolist() for q in res[1]]))(
        st.construct_symbolic_ttno(fixed_trees["multi"], heis)))
    run("sym const", lambda: symbolic_digest(fixed_trees["binary"], heis, "qr", const=0.75))
    run("sym const HK", lambda: symbolic_digest(fixed_trees["t3ns"], heis, "Hopcroft-Karp", const=-1.25))

    # random trees, random terms
    for itree in range(8):
        tree = random_tree(spins, rng, max_group=3, dummy_root=itree % 2 == 1,
                           n_dummy_internal=itree % 3, n_dummy_leaf=(itree // 2) % 3)
        terms = spin_terms(nspin, rng, 4 + 3 * itree)
        shape = [(len(n.children), n.n_sets) for n in tree.node_list]
        print(f"random tree {itree}: {shape}")
        for algo in ALGOS:
            run(f"sym rand {itree} {algo}", lambda: symbolic_digest(tree, terms, algo))
            perm = spins[:]
            rng.shuffle(perm)
            run(f"ttno rand {itree} {algo}", lambda: ttno_digest(tree, terms, algo, spins, [perm, tree.basis_list, perm[:-1]]))

    # single term, single Op instead of list, one spin
    one = [BasisHalfSpin(0)]
    run("one spin", lambda: ttno_digest(BasisTree.linear(one), [Op("sigma_x", 0, 0.3)], "qr", one))
    run("single op", lambda: ttno_digest(fixed_trees["binary"], Op("sigma_x sigma_z", [1, 5], -0.3), "Hopcroft-Karp", spins))
    run("identity", lambda: arr_digest(TTNO.identity(BasisTree.t3ns(spins[:4])).todense()))
    run("dummy", lambda: arr_digest(TTNO.dummy(BasisTree.binary(spins[:4])).todense()))
    run("empty terms", lambda: symbolic_digest(fixed_trees["binary"], [], "qr"))
    run("empty terms HK", lambda: symbolic_digest(fixed_trees["binary"], [], "Hopcroft-Karp"))
    run("bad algo", lambda: symbolic_digest(fixed_trees["binary"], heis, "nonsense"))
    run("cancelling terms", lambda: symbolic_digest(fixed_trees["multi"], [Op("sigma_x", 0, 1.0), Op("sigma_x", 0, -1.0), Op("sigma_z", 3)], "qr"))
    run("complex terms", lambda: ttno_digest(fixed_trees["binary"], [Op("sigma_x", 0, 1.0j)], "qr"))
    run("sigma_y terms", lambda: ttno_digest(fixed_trees["binary"], [Op("sigma_y", 0, 1.0)], "qr"))

    # non-zero quantum numbers: electrons
    nel = 5
    eb = electron_basis(nel)
    et = electron_terms(nel, rng)
    etrees = {"linear": BasisTree.linear(eb), "binary": BasisTree.binary(eb), "t3ns": BasisTree.t3ns(eb),
              "mctdh": BasisTree.binary_mctdh(eb), "rand": random_tree(eb, rng, 2, True, 1, 1)}
    for name, tree in etrees.items():
        for algo in ALGOS:
            run(f"sym electron {name} {algo}", lambda: symbolic_digest(tree, et, algo))
            run(f"ttno electron {name} {algo}", lambda: ttno_digest(tree, et, algo, eb))

    # two-component quantum numbers, multi-electron + SHO
    pb = eph_basis()
    pt = eph_terms()
    ptrees = {"linear": BasisTree.linear(pb), "star": BasisTree(TreeNodeBasis(pb[:1]).add_child([TreeNodeBasis([b]) for b in pb[1:]])),
              "grouped": BasisTree(TreeNodeBasis(pb[2:]).add_child(TreeNodeBasis(pb[:2]))),
              "rand": random_tree(pb, rng, 2, False, 1, 1, qn_size=2), "rand2": random_tree(pb, rng, 3, True, 0, 2, qn_size=2)}
    for name, tree in ptrees.items():
        for algo in ["qr", "Hopcroft-Karp"]:
            run(f"sym eph {name} {algo}", lambda: symbolic_digest(tree, pt, algo))
            run(f"ttno eph {name} {algo}", lambda: ttno_digest(tree, pt, algo, pb, [pb[::-1]]))


if __name__ == "__main__":
    main()
