import sys, types
_pt = types.ModuleType("print_tree"); _pt.print_tree = object; sys.modules.setdefault("print_tree", _pt)

import hashlib
import random

import numpy as np
import scipy.sparse

from renormalizer import BasisHalfSpin, BasisSHO, BasisSimpleElectron, BasisMultiElectron, Model, Mpo, Op
from renormalizer.model.basis import BasisDummy
from renormalizer.model.model import heisenberg_ops
from renormalizer.mps import symbolic_mpo as sm
from renormalizer.mps.symbolic_mpo import (
    construct_symbolic_mpo, _construct_symbolic_mpo_one_site, _decompose_graph, _terms_to_table, OpTuple,
)
from renormalizer.tn.node import TreeNodeBasis
from renormalizer.tn.treebase import BasisTree
from renormalizer.tn.tree import TTNO
from renormalizer.tn.symbolic_ttno import construct_symbolic_ttno

LINES = []


def emit(*args):
    line = " ".join(str(a) for a in args)
    LINES.append(line)
    print(line)


def fnum(x):
    x = complex(x)
    re = round(x.real, 8) + 0.0
    im = round(x.imag, 8) + 0.0
    if im == 0:
        return repr(re)
    return repr((re, im))


def arr_digest(a):
    a = np.asarray(a)
    if a.dtype == object:
        return f"obj{a.shape}"
    if a.size == 0:
        return f"{a.dtype}{a.shape}[]"
    if np.iscomplexobj(a) or a.dtype.kind == "f":
        flat = [fnum(v) for v in a.ravel()]
    else:
        flat = [str(int(v)) for v in a.ravel()]
    h = hashlib.md5(",".join(flat).encode()).hexdigest()[:12]
    return f"{a.dtype}{a.shape}:{h}"


def optuple_str(o):
    return f"({list(int(s) for s in o.symbol)}|{[int(q) for q in np.atleast_1d(o.qn)]}|{fnum(o.factor)}|{type(o.symbol).__name__})"


def out_ops_str(out_ops):
    if out_ops and isinstance(out_ops[0], OpTuple):
        return "flat[" + ";".join(optuple_str(o) for o in out_ops) + "]"
    return "[" + ";".join("+".join(optuple_str(o) for o in ops) for ops in out_ops) + "]"


def op_str(op):
    if isinstance(op, Op):
        return f"{op.symbol}@{op.dofs}*{fnum(op.factor)}q{op.qn_list}"
    return repr(op)


def mo_str(mo):
    parts = []
    for idx, ops in np.ndenumerate(mo):
        if ops:
            parts.append(f"{idx}:" + "+".join(op_str(o) for o in ops))
    return f"{mo.shape}" + "{" + ",".join(parts) + "}"


def long_digest(tag, s):
    emit(tag, len(s), hashlib.md5(s.encode()).hexdigest())


# ---------------------------------------------------------------------------
# 1. _construct_symbolic_mpo_one_site / _decompose_graph on random tables
# ---------------------------------------------------------------------------
class FakeOp:
    def __init__(self, qn):
        self.qn = qn


def random_unique_table(rng, nterm, ncol, nsym):
    rows = set()
    while len(rows) < nterm:
        rows.add(tuple(int(v) for v in rng.integers(0, nsym, size=ncol)))
    rows = sorted(rows)
    rng.shuffle(rows)
    return np.array(rows, dtype=np.uint16)


def one_site_case(seed, nterm, ncol, nsym, n_in, k, algo, cplx, qn_size):
    rng = np.random.default_rng(seed)
    primary_ops = [FakeOp(rng.integers(-1, 2, size=qn_size)) for _ in range(nsym)]
    primary_ops[0] = FakeOp(np.zeros(qn_size, dtype=int))
    n_in_ops = 3
    in_ops_list = []
    for _ in range(n_in):
        in_ops = [[OpTuple([j], qn=rng.integers(-1, 2, size=qn_size), factor=1)] for j in range(n_in_ops)]
        in_ops_list.append(in_ops)
    body = random_unique_table(rng, nterm, ncol, nsym)
    body[:, :n_in] = body[:, :n_in] % n_in_ops
    # make sure rows are still unique
    body = np.unique(body, axis=0)
    rng.shuffle(body)
    nterm = len(body)
    factor = rng.normal(size=nterm)
    if cplx:
        factor = factor + 1j * rng.normal(size=nterm)
    table_row = body[:, : n_in + k]
    table_col = body[:, n_in + k:]
    factor_copy = factor.copy()
    body_copy = body.copy()
    out_ops, table, new_factor = _construct_symbolic_mpo_one_site(
        table_row, table_col, in_ops_list, factor, primary_ops, algo, k
    )
    emit("one_site", seed, nterm, ncol, nsym, n_in, k, algo, cplx, qn_size,
         "nout", len(out_ops), "table", arr_digest(table), table.dtype, "factor", arr_digest(new_factor),
         "inputs_untouched", bool(np.array_equal(body, body_copy) and np.array_equal(factor, factor_copy)))
    long_digest("  out_ops", out_ops_str(out_ops))
    long_digest("  table", repr(np.asarray(table).tolist()))


def section_one_site():
    seed = 0
    for algo in ["Hopcroft-Karp", "Hungarian", "qr"]:
        for (nterm, ncol, nsym, n_in, k) in [
            (1, 3, 3, 1, 1), (2, 3, 2, 1, 1), (6, 4, 3, 1, 1), (12, 5, 3, 1, 1), (20, 6, 4, 1, 1),
            (15, 6, 3, 2, 1), (15, 6, 3, 1, 2), (18, 7, 3, 2, 2), (25, 7, 3, 3, 1), (30, 5, 4, 1, 1),
            (8, 3, 4, 1, 1), (9, 3, 3, 1, 1),
        ]:
            for cplx in [False, True]:
                seed += 1
                one_site_case(seed, nterm, ncol, nsym, n_in, k, algo, cplx, qn_size=1 + seed % 2)


def section_decompose_graph():
    # handcrafted bipartite structures: star, diagonal, full, rectangular in both orientations
    rng = np.random.default_rng(1234)
    structures = {
        "diag3": np.eye(3, dtype=int),
        "row_star": np.array([[1, 1, 1, 1], [0, 0, 0, 0][:4]])[:1],
        "col_star": np.array([[1], [1], [1], [1]]),
        "full23": np.ones((2, 3), dtype=int),
        "full32": np.ones((3, 2), dtype=int),
        "mixed": np.array([[1, 1, 0, 0, 0], [0, 1, 0, 0, 0], [0, 1, 1, 1, 1], [0, 0, 0, 0, 1]]),
        "mixedT": np.array([[1, 1, 0, 0, 0], [0, 1, 0, 0, 0], [0, 1, 1, 1, 1], [0, 0, 0, 0, 1]]).T,
        "single": np.array([[1]]),
        "rand68": (rng.random((6, 8)) < 0.35).astype(int),
        "rand86": (rng.random((8, 6)) < 0.35).astype(int),
        "rand77": (rng.random((7, 7)) < 0.3).astype(int),
    }
    for name, mask in structures.items():
        # drop empty rows / cols (they can not appear in a real table)
        mask = mask[mask.any(axis=1)][:, mask.any(axis=0)]
        nrow, ncol = mask.shape
        rows, cols = np.nonzero(mask)
        perm = rng.permutation(len(rows))
        rows, cols = rows[perm], cols[perm]
        nterm = len(rows)
        for algo in ["Hopcroft-Karp", "Hungarian"]:
            for cplx in [False, True]:
                factor = np.arange(1, nterm + 1) * 0.5
                if cplx:
                    factor = factor * (1 + 0.25j)
                non_red = scipy.sparse.coo_matrix((np.arange(nterm) + 1, (rows, cols))).tocsr()
                term_row = np.array([[i % 2, i + 1] for i in range(nrow)], dtype=np.uint16)
                term_col = [np.array([j + 1, 0, j % 3], dtype=np.uint16) for j in range(ncol)]
                primary_ops = [FakeOp(np.array([i % 3 - 1, i % 2])) for i in range(nrow + 2)]
                in_ops_list = [[[OpTuple([j], qn=np.array([j, -j]), factor=1)] for j in range(2)]]
                out_ops, table, new_factor = _decompose_graph(
                    term_row, term_col, non_red, in_ops_list, factor, primary_ops, algo, 1
                )
                emit("decompose_graph", name, algo, cplx, "nout", len(out_ops), "table", table.dtype,
                     repr(table.tolist()), "factor", [fnum(f) for f in new_factor],
                     "non_red_left", int(non_red.nnz))
                emit("  out_ops", out_ops_str(out_ops))


# ---------------------------------------------------------------------------
# 2. construct_symbolic_mpo / Mpo
# ---------------------------------------------------------------------------
def random_spin_terms(rng, nsite, nterm, cplx=False):
    symbols = ["sigma_x", "sigma_z", "sigma_+", "sigma_-"]
    terms = []
    for _ in range(nterm):
        nbody = int(rng.integers(1, min(4, nsite) + 1))
        dofs = sorted(int(d) for d in rng.choice(nsite, size=nbody, replace=False))
        sym = " ".join(symbols[int(rng.integers(0, 4))] for _ in dofs)
        f = float(np.round(rng.normal(), 3))
        terms.append(Op(sym, dofs, f))
    return terms


def electron_terms(nsite):
    terms = []
    for i in range(nsite):
        terms.append(Op(r"a^\dagger a", [f"e{i}", f"e{i}"], 0.1 * (i + 1), [1, -1]))
    for i in range(nsite):
        for j in range(nsite):
            if i != j and abs(i - j) <= 2:
                terms.append(Op(r"a^\dagger a", [f"e{i}", f"e{j}"], -0.05 * (1 + abs(i - j)), [1, -1]))
    return terms


def holstein_like(nmol):
    basis = []
    terms = []
    for i in range(nmol):
        basis.append(BasisSimpleElectron(f"e{i}"))
        basis.append(BasisSHO(f"v{i}", 0.01 * (i + 1), 3))
        terms.append(Op(r"a^\dagger a", [f"e{i}", f"e{i}"], 0.2 * i, [1, -1]))
        terms.append(Op(r"b^\dagger b", f"v{i}", 0.01 * (i + 1)))
        terms.append(Op(r"a^\dagger a x", [f"e{i}", f"e{i}", f"v{i}"], 0.03, [1, -1, 0]))
        if i + 1 < nmol:
            terms.append(Op(r"a^\dagger a", [f"e{i}", f"e{i+1}"], -0.1, [1, -1]))
            terms.append(Op(r"a^\dagger a", [f"e{i+1}", f"e{i}"], -0.1, [1, -1]))
    return basis, terms


def section_symbolic_mpo():
    rng = np.random.default_rng(7)
    cases = []
    for nsite, nterm in [(1, 1), (2, 1), (3, 1), (4, 6), (6, 15), (7, 30)]:
        basis = [BasisHalfSpin(i) for i in range(nsite)]
        cases.append((f"spin{nsite}_{nterm}", basis, random_spin_terms(rng, nsite, nterm)))
    basis = [BasisHalfSpin(i) for i in range(7)]
    cases.append(("heisenberg7", basis, heisenberg_ops(7)))
    basis = [BasisSimpleElectron(f"e{i}") for i in range(6)]
    cases.append(("electron6", basis, electron_terms(6)))
    b, t = holstein_like(3)
    cases.append(("holstein3", b, t))
    for name, basis, terms in cases:
        model = Model(basis, [])
        for algo in ["Hopcroft-Karp", "Hungarian", "qr"]:
            for cplx in [False, True]:
                table, primary_ops, factor = _terms_to_table(model, terms, 0)
                if cplx:
                    factor = factor * (1 + 0.5j)
                table0, factor0 = table.copy(), factor.copy()
                mpo, mpoqn, qntot, qnidx, out_ops_list, pops = construct_symbolic_mpo(table, primary_ops, factor, algo)
                emit("symbolic_mpo", name, algo, cplx, "dims", [mo.shape for mo in mpo],
                     "qntot", np.asarray(qntot).tolist(), "qnidx", qnidx,
                     "mpoqn", [np.asarray(q).tolist() for q in mpoqn],
                     "same_primary", pops is primary_ops,
                     "inputs_untouched", bool(np.array_equal(table, table0) and np.array_equal(factor, factor0)))
                long_digest("  mpo", "|".join(mo_str(mo) for mo in mpo))
                long_digest("  out_ops_list", "|".join(out_ops_str(o) for o in out_ops_list))
        for algo in ["Hopcroft-Karp", "Hungarian", "qr"]:
            mpo = Mpo(Model(basis, terms), algo=algo)
            dense = mpo.todense()
            emit("Mpo", name, algo, "bond", mpo.bond_dims, "qn", [np.asarray(q).tolist() for q in mpo.qn],
                 "qntot", np.asarray(mpo.qntot).tolist(), "dense", arr_digest(np.round(dense, 8)))


# ---------------------------------------------------------------------------
# 3. construct_symbolic_ttno / TTNO
# ---------------------------------------------------------------------------
def multi_basis_tree(basis_list):
    node1 = TreeNodeBasis([basis_list[0], basis_list[1]])
    node2 = TreeNodeBasis([basis_list[2]])
    node3 = TreeNodeBasis([basis_list[3]])
    node4 = TreeNodeBasis([basis_list[4], basis_list[5], basis_list[6]])
    node3.add_child(node2)
    node2.add_child(node1)
    node2.add_child(node4)
    return BasisTree(node3)


def random_tree(basis_list, seed, with_dummy):
    rnd = random.Random(seed)
    pool = list(basis_list)
    groups = []
    while pool:
        n = rnd.randint(1, min(3, len(pool)))
        groups.append(pool[:n])
        pool = pool[n:]
    nodes = [TreeNodeBasis(g) for g in groups]
    if with_dummy:
        for i in range(3):
            pos = rnd.randint(0, len(nodes))
            nodes.insert(pos, TreeNodeBasis([BasisDummy(("dummy", seed, i))]))
    for i in range(1, len(nodes)):
        parent = nodes[rnd.randint(0, i - 1)]
        parent.add_child(nodes[i])
    return BasisTree(nodes[0])


def tree_cases(make_basis):
    yield "linear", lambda: BasisTree.linear(make_basis())
    yield "binary", lambda: BasisTree.binary(make_basis())
    yield "multi", lambda: multi_basis_tree(make_basis())
    yield "binary_mctdh", lambda: BasisTree.binary_mctdh(make_basis())
    yield "ternary_mctdh_contract", lambda: BasisTree.ternary_mctdh(make_basis(), contract_primitive=True)
    yield "t3ns", lambda: BasisTree.t3ns(make_basis())
    for seed in range(4):
        yield f"random{seed}", (lambda seed=seed: random_tree(make_basis(), seed, with_dummy=False))
        yield f"random_dummy{seed}", (lambda seed=seed: random_tree(make_basis(), 100 + seed, with_dummy=True))


def section_ttno():
    rng = np.random.default_rng(11)
    nspin = 7
    spin_terms = [
        ("heisenberg", heisenberg_ops(nspin)),
        ("random", random_spin_terms(rng, nspin, 25)),
        ("single", [Op("sigma_x sigma_z", [1, 5], 0.7)]),
        ("onebody", [Op("sigma_z", 3, -1.5)]),
    ]
    make_spin = lambda: [BasisHalfSpin(i) for i in range(nspin)]
    make_elec = lambda: [BasisSimpleElectron(f"e{i}") for i in range(nspin)]
    elec_terms = [("electron", electron_terms(nspin))]
    refs = {}
    for make_basis, term_sets in [(make_spin, spin_terms), (make_elec, elec_terms)]:
        for tname, terms in term_sets:
            basis_list = make_basis()
            ref = Mpo(Model(basis_list, terms)).todense()
            for tree_name, make_tree in tree_cases(make_basis):
                for algo in ["Hopcroft-Karp", "Hungarian", "qr"]:
                    tree = make_tree()
                    mpo, mpoqn = construct_symbolic_ttno(tree, terms, algo=algo)
                    emit("symbolic_ttno", tname, tree_name, algo, "shapes", [mo.shape for mo in mpo],
                         "qn", [np.asarray(q).tolist() for q in mpoqn])
                    long_digest("  mpo", "|".join(mo_str(mo) for mo in mpo))

                    tree = make_tree()
                    ttno = TTNO(tree, terms, algo=algo)
                    order = [b for b in tree.basis_list if not isinstance(b, BasisDummy)]
                    order = sorted(order, key=lambda b: str(b.dofs))
                    dense = ttno.todense(order)
                    dim = int(np.prod([b.nbas for b in order]))
                    err = float(np.abs(dense.reshape(dim, dim) - ref).max())
                    emit("TTNO", tname, tree_name, algo,
                         "shapes", [n.tensor.shape for n in ttno.node_list],
                         "dtype", sorted({str(n.tensor.dtype) for n in ttno.node_list}),
                         "qn", [np.asarray(n.qn).tolist() for n in ttno.node_list],
                         "qntot", np.asarray(ttno.qntot).tolist(),
                         "tensors", [arr_digest(np.round(np.asarray(n.tensor), 8)) for n in ttno.node_list],
                         "terms_is", ttno.terms is terms, "basis_is", ttno.basis is tree,
                         "n_symbolic", len(ttno.symbolic_ttno),
                         "exact", err < 1e-10)
    # Op instead of list, const term, and explicit root
    basis_list = make_spin()
    tree = BasisTree.binary(basis_list)
    single = Op("sigma_x", 2, 2.0)
    ttno = TTNO(tree, single)
    emit("TTNO single Op", isinstance(ttno.terms, list), len(ttno.terms), ttno.terms[0] is single,
         [n.tensor.shape for n in ttno.node_list])
    ttno2 = TTNO(tree, single, root=ttno.root)
    emit("TTNO with root", ttno2.root is ttno.root, hasattr(ttno2, "symbolic_ttno"), len(ttno2.node_list))
    mpo, mpoqn = construct_symbolic_ttno(tree, heisenberg_ops(nspin), const=1.5, algo="Hopcroft-Karp")
    long_digest("symbolic_ttno const", "|".join(mo_str(mo) for mo in mpo))
    ident = TTNO.identity(tree)
    emit("identity", [n.tensor.shape for n in ident.node_list], arr_digest(ident.todense()))
    dummy = TTNO.dummy(tree)
    emit("dummy", [n.tensor.shape for n in dummy.node_list])


if __name__ == "__main__":
    section_one_site()
    section_decompose_graph()
    section_symbolic_mpo()
    section_ttno()
    emit("TOTAL", len(LINES), hashlib.md5("\n".join(LINES).encode()).hexdigest())
