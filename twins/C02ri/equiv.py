"""Equivalence check for the C02ri refactoring.

Exercises
  * renormalizer.mps.symbolic_mpo._construct_symbolic_mpo_one_site
  * renormalizer.mps.symbolic_mpo._decompose_graph
  * renormalizer.tn.symbolic_ttno.compose_symbolic_mo_general
  * renormalizer.tn.symbolic_ttno.construct_symbolic_ttno
(and, through them, symbolic_mo_to_numeric_mo_general / TTNO / Mpo) and prints a deterministic digest.
"""
import os
import sys

# stub of the (not installed) third-party module `print_tree` lives next to this script
sys.path.insert(0, os.path.dirname(os.path.abspath(__file__)))

import hashlib

import numpy as np
import scipy.sparse

from renormalizer import Op, Model, Mpo, BasisHalfSpin, BasisSHO, BasisSimpleElectron, BasisMultiElectron
from renormalizer.model.basis import BasisDummy
from renormalizer.model.model import heisenberg_ops
from renormalizer.mps import symbolic_mpo as smpo
from renormalizer.mps.symbolic_mpo import OpTuple
from renormalizer.tn import symbolic_ttno as sttno
from renormalizer.tn.node import TreeNodeBasis
from renormalizer.tn.treebase import BasisTree
from renormalizer.tn.tree import TTNO

ALGOS = ["qr", "Hopcroft-Karp", "Hungarian"]


# ---------------------------------------------------------------- digest helpers
def rnd(x):
    x = complex(x)
    re, im = round(x.real, 9) + 0.0, round(x.imag, 9) + 0.0
    if im == 0:
        return repr(re)
    return repr((re, im))


def arr_digest(a):
    a = np.asarray(a)
    if a.dtype == object:
        return "obj" + repr(a.shape)
    raw = hashlib.sha1(np.ascontiguousarray(a).tobytes()).hexdigest()[:12]
    flat = np.round(a.astype(complex).ravel(), 8) + 0.0
    rounded = hashlib.sha1(repr(flat.tolist()).encode()).hexdigest()[:12]
    return f"{a.dtype}{a.shape} raw={raw} r8={rounded}"


def optuple_digest(t):
    return (
        type(t.symbol).__name__,
        getattr(t.symbol, "dtype", None) and str(t.symbol.dtype),
        [int(s) for s in t.symbol],
        np.asarray(t.qn).tolist(),
        type(t.factor).__name__,
        rnd(t.factor),
    )


def out_ops_digest(out_ops):
    return [[optuple_digest(t) for t in ops] for ops in out_ops]


def op_digest(op):
    return (op.symbol, tuple(op.dofs), type(op.factor).__name__, rnd(op.factor), [np.asarray(q).tolist() for q in op.qn_list])


def mo_digest(mo):
    ret = [("shape", mo.shape, str(mo.dtype))]
    for idx, ops in np.ndenumerate(mo):
        if ops:
            ret.append((idx, [op_digest(op) for op in ops]))
        else:
            assert isinstance(ops, list)
    # every cell must hold its own list
    ids = {id(ops) for _, ops in np.ndenumerate(mo)}
    ret.append(("distinct", len(ids) == mo.size))
    return ret


def show(title, obj):
    print(f"## {title}")
    if isinstance(obj, (list, tuple)):
        for item in obj:
            print("   ", item)
    else:
        print("   ", obj)


def call(title, func, *args, **kwargs):
    """run and report the exception type on failure"""
    try:
        return func(*args, **kwargs)
    except Exception as e:  # noqa
        print(f"## {title}: raised {type(e).__name__}: {str(e)[:80]}")
        return None


# ---------------------------------------------------------------- low level: one-site decomposition
def random_one_site_problem(rng, n_in, k, n_col, n_term, n_sym, qn_size, complex_factor):
    """a random (table_row, table_col, in_ops_list, factor, primary_ops)"""
    in_sizes = [int(rng.integers(1, 4)) for _ in range(n_in)]
    in_ops_list = []
    for size in in_sizes:
        in_ops = []
        for _ in range(size):
            qn = rng.integers(-1, 2, size=qn_size)
            in_ops.append([OpTuple([0], qn=qn, factor=1)])
        in_ops_list.append(in_ops)
    primary_ops = []
    for i in range(n_sym):
        qn = [int(x) for x in rng.integers(-1, 2, size=qn_size)]
        primary_ops.append(Op("x", f"v{i}", 1.0, qn=[qn] if qn_size > 1 else qn[0]))
    cols = []
    for size in in_sizes:
        cols.append(rng.integers(0, size, size=n_term))
    for _ in range(k + n_col):
        cols.append(rng.integers(0, n_sym, size=n_term))
    table = np.array(cols, dtype=np.uint16).T.reshape(n_term, n_in + k + n_col)
    table = np.unique(table, axis=0)
    # shuffle so that first-seen order differs from sorted order
    table = table[rng.permutation(len(table))]
    factor = rng.normal(size=len(table))
    if complex_factor:
        factor = factor + 1j * rng.normal(size=len(table))
    return table[:, : n_in + k], table[:, n_in + k :], in_ops_list, factor, primary_ops


def check_one_site():
    rng = np.random.default_rng(2024)
    cases = [
        # n_in, k, n_col, n_term, n_sym, qn_size, complex
        (1, 1, 3, 12, 3, 1, False),
        (1, 1, 1, 1, 2, 1, False),   # single term
        (2, 1, 2, 25, 3, 2, False),
        (3, 2, 2, 40, 2, 1, True),
        (1, 3, 4, 30, 4, 2, False),
        (2, 2, 0, 9, 3, 1, False),   # no column part at all (root of a tree)
        (1, 1, 2, 60, 2, 1, True),   # many duplicates -> few distinct rows / cols
        (4, 1, 1, 50, 3, 3, False),
    ]
    for icase, (n_in, k, n_col, n_term, n_sym, qn_size, cplx) in enumerate(cases):
        problem = random_one_site_problem(rng, n_in, k, n_col, n_term, n_sym, qn_size, cplx)
        table_row, table_col, in_ops_list, factor, primary_ops = problem
        for algo in ALGOS:
            title = f"one_site case {icase} algo {algo}"
            row0, col0, fac0 = table_row.copy(), table_col.copy(), factor.copy()
            res = call(title, smpo._construct_symbolic_mpo_one_site,
                       table_row, table_col, in_ops_list, factor, primary_ops, algo, k)
            assert np.array_equal(row0, table_row) and np.array_equal(col0, table_col) and np.array_equal(fac0, factor)
            if res is None:
                continue
            out_ops, new_table, new_factor = res
            show(title, [
                ("n_out", len(out_ops)),
                ("table", str(new_table.dtype), new_table.shape, new_table.tolist()),
                ("factor", str(np.asarray(new_factor).dtype), [rnd(f) for f in np.asarray(new_factor).ravel()]),
                ("out_ops", out_ops_digest(out_ops)),
            ])
        # positional default of k and wrong k
        if k != 1:
            call(f"one_site case {icase} wrong k", smpo._construct_symbolic_mpo_one_site,
                 table_row, table_col, in_ops_list, factor, primary_ops, "Hopcroft-Karp")
        call(f"one_site case {icase} bad algo", smpo._construct_symbolic_mpo_one_site,
             table_row, table_col, in_ops_list, factor, primary_ops, "nonsense", k)
        call(f"one_site case {icase} algo None", smpo._construct_symbolic_mpo_one_site,
             table_row, table_col, in_ops_list, factor, primary_ops, None, k)


def check_decompose_graph():
    """call _decompose_graph directly: it mutates `non_red`, which is part of the observable behaviour"""
    rng = np.random.default_rng(7)
    cases = [
        (1, 1, 2, 20, 3, 1, False),
        (2, 2, 3, 35, 2, 2, True),
        (1, 1, 1, 6, 4, 1, False),
        (3, 1, 2, 45, 2, 1, False),
        (1, 2, 5, 16, 2, 1, False),   # wide: more distinct columns than rows
    ]
    for icase, (n_in, k, n_col, n_term, n_sym, qn_size, cplx) in enumerate(cases):
        table_row, table_col, in_ops_list, factor, primary_ops = random_one_site_problem(
            rng, n_in, k, n_col, n_term, n_sym, qn_size, cplx)
        term_row, row_inv = np.unique(table_row, axis=0, return_inverse=True)
        term_col_arr, col_inv = np.unique(table_col, axis=0, return_inverse=True)
        term_col = list(term_col_arr)
        for algo in ["Hopcroft-Karp", "Hungarian"]:
            non_red = scipy.sparse.coo_matrix(
                (np.arange(len(factor)) + 1, (np.ravel(row_inv), np.ravel(col_inv)))).tocsr()
            title = f"decompose_graph case {icase} algo {algo} shape {non_red.shape}"
            res = call(title, smpo._decompose_graph, term_row, term_col, non_red, in_ops_list, factor, primary_ops, algo, k)
            if res is None:
                continue
            out_ops, new_table, new_factor = res
            show(title, [
                ("table", str(new_table.dtype), new_table.shape, new_table.tolist()),
                ("factor", str(new_factor.dtype), new_factor.shape, [rnd(f) for f in new_factor]),
                ("out_ops", out_ops_digest(out_ops)),
                ("non_red after", type(non_red).__name__, non_red.nnz, non_red.toarray().tolist()),
                ("non_red raw", non_red.indptr.tolist(), non_red.indices.tolist(), non_red.data.tolist(), str(non_red.dtype)),
            ])
        if k == 1:
            # default value of k
            non_red = scipy.sparse.coo_matrix(
                (np.arange(len(factor)) + 1, (np.ravel(row_inv), np.ravel(col_inv)))).tocsr()
            res = call("default k", smpo._decompose_graph, term_row, term_col, non_red, in_ops_list, factor, primary_ops, "Hopcroft-Karp")
            show(f"decompose_graph case {icase} default k", out_ops_digest(res[0]))


# ---------------------------------------------------------------- compose_symbolic_mo_general
def check_compose():
    rng = np.random.default_rng(99)
    primary_ops = [Op("I", "a"), Op("x", "a", 2.0), Op("p", "b", 1.0), Op(r"a^\dagger", "c", 1.0, qn=1), Op("a", "c", 0.5, qn=-1)]

    def rand_out_ops(in_sizes, k, n_out, cplx, int_factor=False):
        out_ops = []
        for _ in range(n_out):
            ops = []
            for _ in range(int(rng.integers(0, 4))):
                symbol = np.array([rng.integers(0, s) for s in in_sizes] + list(rng.integers(0, len(primary_ops), size=k)), dtype=np.uint16)
                factor = float(rng.normal())
                if cplx:
                    factor = factor + 1j * float(rng.normal())
                if int_factor:
                    factor = int(rng.integers(1, 4))
                ops.append(OpTuple(symbol, qn=np.zeros(1, dtype=int), factor=factor))
            out_ops.append(ops)
        return out_ops

    cases = [
        ([2], 1, 3, False, False),
        ([1], 1, 1, False, True),
        ([2, 3], 1, 4, True, False),
        ([2, 1, 2], 2, 3, False, False),
        ([3], 3, 2, True, False),
        ([], 1, 3, False, False),      # no incoming bonds: 1-d result
        ([], 2, 2, True, False),
        ([2, 2], 1, 0, False, False),  # no outgoing operators
    ]
    for icase, (in_sizes, k, n_out, cplx, int_factor) in enumerate(cases):
        in_ops_list = [[[OpTuple([0], qn=np.zeros(1, dtype=int), factor=1)] for _ in range(s)] for s in in_sizes]
        out_ops = rand_out_ops(in_sizes, k, n_out, cplx, int_factor)
        mo = call(f"compose case {icase}", sttno.compose_symbolic_mo_general, in_ops_list, out_ops, primary_ops, k)
        if mo is not None:
            show(f"compose case {icase}", mo_digest(mo))
    # symbol given as a plain list / tuple, numpy factor
    in_ops_list = [[[OpTuple([0], qn=np.zeros(1, dtype=int), factor=1)]] * 2]
    out_ops = [[OpTuple([1, 2], qn=0, factor=np.float64(0.25)), OpTuple((0, 1), qn=0, factor=np.complex128(1j))], []]
    show("compose list symbols", mo_digest(sttno.compose_symbolic_mo_general(in_ops_list, out_ops, primary_ops, 1)))
    # invalid inputs: symbol index out of range, missing primary op
    bad = [[OpTuple(np.array([5, 1], dtype=np.uint16), qn=0, factor=1.0)]]
    call("compose bad in index", sttno.compose_symbolic_mo_general, in_ops_list, bad, primary_ops, 1)
    bad = [[OpTuple(np.array([0, 9], dtype=np.uint16), qn=0, factor=1.0)]]
    call("compose bad primary", sttno.compose_symbolic_mo_general, in_ops_list, bad, primary_ops, 1)
    bad = [[OpTuple(np.array([1], dtype=np.uint16), qn=0, factor=1.0)]]
    call("compose short symbol", sttno.compose_symbolic_mo_general, in_ops_list, bad, primary_ops, 1)
    call("compose short symbol k=2", sttno.compose_symbolic_mo_general, [in_ops_list[0]] * 2, bad, primary_ops, 1)


# ---------------------------------------------------------------- trees
def multi_basis_tree(basis_list):
    node1 = TreeNodeBasis([basis_list[0], basis_list[1]])
    node2 = TreeNodeBasis([basis_list[2]])
    node3 = TreeNodeBasis([basis_list[3]])
    node4 = TreeNodeBasis(list(basis_list[4:]))
    node3.add_child(node2)
    node2.add_child(node1)
    node2.add_child(node4)
    return BasisTree(node3)


def random_tree(basis_list, rng, max_sets=3, n_dummy=2, qn_size=1):
    """random grouping of the basis sets, random parents, a few purely virtual nodes"""
    groups = []
    i = 0
    while i < len(basis_list):
        n = int(rng.integers(1, max_sets + 1))
        groups.append(list(basis_list[i:i + n]))
        i += n
    for j in range(n_dummy):
        sigmaqn = 0 if qn_size == 1 else [0] * qn_size
        groups.append([BasisDummy(("dummy", j), sigmaqn=sigmaqn)] if qn_size != 1 else [BasisDummy(("dummy", j))])
    order = rng.permutation(len(groups))
    nodes = [TreeNodeBasis(groups[j]) for j in order]
    for j in range(1, len(nodes)):
        parent = int(rng.integers(0, j))
        nodes[parent].add_child(nodes[j])
    return BasisTree(nodes[0])


def star_tree(basis_list):
    root = TreeNodeBasis([basis_list[0]])
    for b in basis_list[1:]:
        root.add_child(TreeNodeBasis([b]))
    return BasisTree(root)


def trees_for(make_basis, seed):
    rng = np.random.default_rng(seed)
    yield "linear", BasisTree.linear(make_basis())
    yield "binary", BasisTree.binary(make_basis())
    yield "star", star_tree(make_basis())
    if len(make_basis()) >= 5:
        yield "multi", multi_basis_tree(make_basis())
    yield "mctdh2", BasisTree.binary_mctdh(make_basis())
    yield "mctdh3c", BasisTree.ternary_mctdh(make_basis(), contract_primitive=True)
    yield "t3ns", BasisTree.t3ns(make_basis())
    for i in range(3):
        yield f"random{i}", random_tree(make_basis(), rng)
    yield "single", BasisTree(TreeNodeBasis(make_basis()))


def dense_reference(basis_list, terms, const=0):
    if const:
        terms = list(terms) + [Op("I", basis_list[0].dofs[0] if isinstance(basis_list[0].dofs, list) else basis_list[0].dof, const)]
    return Mpo(Model(basis_list, terms)).todense()


def check_ttno(name, make_basis, terms, seed, algos=ALGOS, dense=True, const=0):
    for tree_name, tree in trees_for(make_basis, seed):
        for algo in algos:
            title = f"ttno {name} tree {tree_name} algo {algo}"
            res = call(title, sttno.construct_symbolic_ttno, tree, terms, const, algo)
            if res is None:
                continue
            mpo, mpoqn = res
            lines = [("n_nodes", len(mpo), [mo.shape for mo in mpo])]
            for mo, qn in zip(mpo, mpoqn):
                lines.append(("qn", str(qn.dtype), qn.tolist()))
                lines.append(("mo", hashlib.sha1(repr(mo_digest(mo)).encode()).hexdigest()[:16], sum(len(c) for _, c in np.ndenumerate(mo))))
            show(title, lines)
        if not dense:
            continue
        # numeric tensors and the dense operator (default algorithm and qr)
        basis_list = [b for b in tree.basis_list if not isinstance(b, BasisDummy)]
        basis_list = sorted(basis_list, key=lambda b: str(b.dofs))
        ref = dense_reference(basis_list, terms)
        for algo in ["Hopcroft-Karp", "qr"]:
            ttno = TTNO(tree, terms, algo=algo)
            for node in ttno.postorder_list():
                print("    node", arr_digest(node.tensor), np.asarray(node.qn).tolist())
            d = ttno.todense(basis_list)
            d = d.reshape(ref.shape)
            print(f"## dense {name} {tree_name} {algo}", d.shape, "r8=" + hashlib.sha1(repr((np.round(d.ravel(), 8) + 0.0).tolist()).encode()).hexdigest()[:12],
                  "exact", bool(np.allclose(d, ref, atol=1e-10)))


def check_numeric_mo():
    # called with keyword arguments, several basis sets on a node, complex symbolic operators are rejected
    basis_sets = [BasisHalfSpin("s0"), BasisSHO("v0", omega=1.0, nbas=3)]
    mo = np.full((2, 1, 2), None, dtype=object)
    for i, _ in np.ndenumerate(mo):
        mo[i] = []
    mo[0, 0, 0].append(Op("sigma_x x", ["s0", "v0"], 0.5))
    mo[0, 0, 0].append(Op("sigma_z I", ["s0", "v0"], -1.5))
    mo[1, 0, 1].append(Op("I p^2", ["s0", "v0"], 2.0))
    mo[1, 0, 0].append(Op("I I", ["s0", "v0"], 3.0))
    for dtype in (np.float64, np.complex128):
        t = sttno.symbolic_mo_to_numeric_mo_general(basis_sets=basis_sets, mo=mo, dtype=dtype)
        print("## numeric_mo", arr_digest(t), t.flags["C_CONTIGUOUS"])
    mo[0, 0, 1].append(Op("sigma_y I", ["s0", "v0"], 1.0))
    call("numeric_mo complex", sttno.symbolic_mo_to_numeric_mo_general, basis_sets, mo, np.float64)


def main():
    check_one_site()
    check_decompose_graph()
    check_compose()
    check_numeric_mo()

    # 1. Heisenberg chain, 7 spins
    nspin = 7
    check_ttno("heisenberg", lambda: [BasisHalfSpin(i) for i in range(nspin)], heisenberg_ops(nspin), seed=1)

    # 2. one term / identity only / with constant
    check_ttno("oneterm", lambda: [BasisHalfSpin(i) for i in range(4)], [Op("sigma_x sigma_z", [0, 3], -0.7)], seed=2)
    check_ttno("identity", lambda: [BasisHalfSpin(i) for i in range(3)], [Op("I", 0)], seed=3, dense=False)
    check_ttno("const", lambda: [BasisHalfSpin(i) for i in range(4)], heisenberg_ops(4), seed=4, dense=False, const=1.25)

    # 3. Holstein-like model with particle-number quantum numbers and random couplings
    rng = np.random.default_rng(5)
    nmol = 3

    def holstein_basis():
        basis = []
        for i in range(nmol):
            basis.append(BasisSimpleElectron(f"e{i}"))
            basis.append(BasisSHO(f"v{i}", omega=1.0 + 0.1 * i, nbas=3))
        return basis

    terms = []
    for i in range(nmol):
        terms.append(Op(r"a^\dagger a", f"e{i}", float(rng.normal()), qn=[1, -1]))
        terms.append(Op(r"b^\dagger b", f"v{i}", 1.0 + 0.1 * i))
        terms.append(Op(r"a^\dagger a", f"e{i}", float(rng.normal())) * Op("x", f"v{i}"))
        for j in range(nmol):
            if i != j:
                terms.append(Op(r"a^\dagger a", [f"e{i}", f"e{j}"], float(rng.normal()), qn=[1, -1]))
    check_ttno("holstein", holstein_basis, terms, seed=6)
    # an operator that changes the particle number: non-zero total quantum number
    terms2 = [Op(r"a^\dagger", f"e{i}", float(rng.normal()), qn=1) * Op("x", f"v{(i + 1) % nmol}") for i in range(nmol)]
    check_ttno("creation", holstein_basis, terms2, seed=7)

    # 4. multi-dof basis set with two quantum numbers
    def multi_e_basis():
        vibs = [BasisSHO("v0", 1.0, 3), BasisSHO("v1", 2.0, 2), BasisSHO("v2", 1.5, 2)]
        for b in vibs:
            # two quantum numbers per basis state
            b.sigmaqn = np.zeros((b.nbas, 2), dtype=int)
        return [BasisMultiElectron(["a", "b", "c"], [[1, 0], [0, 1], [1, 1]])] + vibs

    terms3 = [
        Op(r"a^\dagger a", ["a", "b"], 0.3, qn=[[1, 0], [0, -1]]),
        Op(r"a^\dagger a", ["b", "a"], 0.3, qn=[[0, 1], [-1, 0]]),
        Op(r"a^\dagger a", ["c", "c"], 1.1, qn=[[1, 1], [-1, -1]]) * Op("x", "v0", qn=[[0, 0]]),
        Op("x x", ["v0", "v1"], -0.2, qn=[[0, 0], [0, 0]]),
        Op("p^2", "v2", 0.5, qn=[[0, 0]]),
        Op("x x x", ["v0", "v1", "v2"], 0.05, qn=[[0, 0], [0, 0], [0, 0]]),
    ]
    rng_tree = np.random.default_rng(8)
    for i in range(3):
        tree = random_tree(multi_e_basis(), rng_tree, max_sets=2, n_dummy=0)
        for algo in ALGOS:
            title = f"ttno multi_e random{i} algo {algo}"
            res = call(title, sttno.construct_symbolic_ttno, tree, terms3, algo=algo)
            if res is None:
                continue
            mpo, mpoqn = res
            show(title, [(mo.shape, hashlib.sha1(repr(mo_digest(mo)).encode()).hexdigest()[:16], qn.tolist()) for mo, qn in zip(mpo, mpoqn)])

    # 5. plain MPO path (shares _construct_symbolic_mpo_one_site / _decompose_graph)
    for algo in ALGOS:
        mpo = Mpo(Model(holstein_basis(), terms), algo=algo)
        print("## mpo", algo, mpo.bond_dims, [arr_digest(np.asarray(m.array))[-15:] for m in mpo])


if __name__ == "__main__":
    main()
