"""Minimal stand-in for the third-party ``print_tree`` package (not installed here).

``renormalizer.tn.treebase`` does ``from print_tree import print_tree``; the name is only
used when a tree is printed, which the equivalence check never does.
"""


def print_tree(*args, **kwargs):
    raise NotImplementedError("print_tree stub: printing trees is not available")
