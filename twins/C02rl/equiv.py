"""Equivalence digest for the C02rl refactoring.

Exercises TTNO.__init__, TTNO.todense, BasisTree.t3ns and
symbolic_mo_to_numeric_mo_general and prints a deterministic digest.
"""
import hashlib
import os
import sys

sys.path.insert(0, os.path.dirname(os.path.abspath(__file__)))  # print_tree stub

import numpy as np

from renormalizer import (
    BasisHalfSpin,
    BasisSHO,
    BasisSimpleElectron,
    BasisMultiElectron,
    Model,
    Mpo,
    Op,
)
from renormalizer.model.basis import BasisDummy
from renormalizer.model.model import heisenberg_ops
from renormalizer.tn.node import TreeNodeBasis, TreeNodeTensor, copy_connection
from renormalizer.tn.tree import TTNO
from renormalizer.tn.treebase import BasisTree
from renormalizer.tn.symbolic_ttno import symbolic_mo_to_numeric_mo_general


def h(arr):
    arr = np.asarray(arr)
    if arr.dtype == object:
        return "obj" + repr(arr.tolist())
    r = np.round(arr, 9) + 0.0
    r = np.ascontiguousarray(r)
    return "%s %s %s c=%s f=%s %s" % (
        arr.dtype,
        arr.shape,
        arr.strides,
        arr.flags["C_CONTIGUOUS"],
        arr.flags["F_CONTIGUOUS"],
        hashlib.sha1(r.tobytes()).hexdigest()[:16],
    )


def tree_struct(tree):
    def rec(node):
        return (
            type(node.basis_sets).__name__,
            [(type(b).__name__, b.dofs, b.nbas) for b in node.basis_sets],
            [rec(c) for c in node.children],
        )

    return rec(tree.root)


def out(*args):
    print(*args)


def attempt(label, fn):
    try:
        res = fn()
        out(label, "OK", res)
    except Exception as e:  # noqa
        out(label, "EXC", type(e).__name__, str(e)[:200])


# ---------------------------------------------------------------------------
# 1. BasisTree.t3ns: structure for many sizes / containers / labels
# ---------------------------------------------------------------------------
out("== t3ns")
for n in list(range(0, 14)) + [20, 31]:
    bl = [BasisHalfSpin(i) for i in range(n)]
    attempt(f"t3ns n={n}", lambda: tree_struct(BasisTree.t3ns(bl)))
bl = [BasisHalfSpin(("s", i)) for i in range(9)]
attempt("t3ns label", lambda: tree_struct(BasisTree.t3ns(bl, t3ns_label=("x", 1))))
attempt("t3ns label kw", lambda: tree_struct(BasisTree.t3ns(basis_list=bl, t3ns_label="lab")))
attempt("t3ns tuple", lambda: tree_struct(BasisTree.t3ns(tuple(BasisHalfSpin(i) for i in range(7)))))
attempt("t3ns tuple1", lambda: tree_struct(BasisTree.t3ns(tuple(BasisHalfSpin(i) for i in range(3)))))
# identity of the list handed to the single-basis leaf
bl3 = [BasisHalfSpin(i) for i in range(3)]
t = BasisTree.t3ns(bl3)
out("t3ns leaf lists", [type(n.basis_sets).__name__ + str(len(n.basis_sets)) for n in t.node_list])
out("t3ns node order", [n.dofs for n in t.node_list], [n.dofs for n in t.postorder_list()])
# mixed quantum number sizes -> error
attempt(
    "t3ns inconsistent qn",
    lambda: tree_struct(
        BasisTree.t3ns([BasisHalfSpin(0, [[0, 0], [0, 1]])] + [BasisHalfSpin(i) for i in range(1, 5)])
    ),
)
# same basis object twice: node already has parent is not triggered, dofs duplicate
b0 = BasisHalfSpin(0)
attempt("t3ns dup", lambda: tree_struct(BasisTree.t3ns([b0, b0, b0, b0])))
# a second call numbers the dummies from zero again
t1 = BasisTree.t3ns([BasisHalfSpin(i) for i in range(10)])
t2 = BasisTree.t3ns([BasisHalfSpin(i) for i in range(10)])
out("t3ns dummies", [b.dofs for b in t1.basis_list if isinstance(b, BasisDummy)],
    [b.dofs for b in t2.basis_list if isinstance(b, BasisDummy)])


# ---------------------------------------------------------------------------
# 2. symbolic_mo_to_numeric_mo_general on hand-made symbolic operators
# ---------------------------------------------------------------------------
out("== symbolic_mo_to_numeric_mo_general")


def make_mo(shape, filler, sets=None):
    """object array of term lists; every term is padded with identities so that it touches every basis set"""
    mo = np.full(shape, None, dtype=object)
    for i, _ in np.ndenumerate(mo):
        ops = filler(i)
        if sets is not None:
            padded = []
            for op in ops:
                for b in sets:
                    if not set(b.dofs) & set(op.dofs):
                        op = op * Op("I", b.dofs[0])
                padded.append(op)
            ops = padded
        mo[i] = ops
    return mo


spin_a, spin_b = BasisHalfSpin("a"), BasisHalfSpin("b")
sho = BasisSHO("v", omega=1.3, nbas=4)
elec = BasisSimpleElectron("e")
multi = BasisMultiElectron(["m0", "m1", "m2"], [0, 1, 1])
dummy = BasisDummy(("dummy", 0))


def fill_spin(i):
    k = sum(i)
    ops = []
    if k % 2 == 0:
        ops.append(Op("sigma_x", "a", 0.5 + k))
    if k % 3 == 0:
        ops.append(Op("sigma_z sigma_+", ["a", "b"], -1.25) * Op("sigma_-", "b"))
    if k % 5 == 1:
        ops.append(Op("I", "a", 2.0))
    return ops


for shape in [(1,), (3,), (1, 1), (2, 3), (2, 1, 3), (1, 2, 2, 2), (0,), (2, 0)]:
    for dtype in [np.float64, np.complex128, np.float32]:
        mo = make_mo(shape, fill_spin, [spin_a, spin_b])
        mo_raw = make_mo(shape, fill_spin)
        attempt(
            f"mo spin {shape} {np.dtype(dtype).name}",
            lambda: h(symbolic_mo_to_numeric_mo_general([spin_a, spin_b], mo, dtype)),
        )
        attempt(
            f"mo spin raw {shape} {np.dtype(dtype).name}",
            lambda: h(symbolic_mo_to_numeric_mo_general([spin_a, spin_b], mo_raw, dtype)),
        )


def fill_mixed(i):
    k = sum(i)
    ops = [Op("x", "v", 0.3 * (k + 1))]
    if k % 2:
        ops.append(Op(r"a^\dagger a", ["e", "e"], 1.0) * Op("p^2", "v", 0.5))
        ops.append(Op(r"a^\dagger a", ["m1", "m2"], -0.7))
    else:
        ops.append(Op(r"b^\dagger b", "v", 2.0) * Op(r"a^\dagger", "e"))
    return ops


for sets in [[sho, elec, multi], [multi, sho, elec], [elec, multi, sho, dummy]]:
    for shape in [(2,), (2, 2), (1, 3, 2)]:
        mo = make_mo(shape, fill_mixed, sets)
        attempt(
            f"mo mixed {[b.dofs for b in sets]} {shape}",
            lambda: h(symbolic_mo_to_numeric_mo_general(sets, mo, np.float64)),
        )

# single basis, dummy only, empty term lists
mo = make_mo((2, 2), lambda i: [Op("sigma_y", "a", 1.0)] if i == (0, 1) else [])
attempt("mo complex op", lambda: h(symbolic_mo_to_numeric_mo_general([spin_a], mo, np.float64)))
mo = make_mo((2, 2), lambda i: [Op("sigma_x", "a", 1.0j)])
attempt("mo complex factor", lambda: h(symbolic_mo_to_numeric_mo_general([spin_a], mo, np.complex128)))
mo = make_mo((2, 2), lambda i: [])
attempt("mo empty", lambda: h(symbolic_mo_to_numeric_mo_general([spin_a, sho], mo, np.float64)))
mo = make_mo((3,), lambda i: [Op("I", ("dummy", 0), float(i[0]))])
attempt("mo dummy", lambda: h(symbolic_mo_to_numeric_mo_general([dummy], mo, np.float64)))
mo = make_mo((3,), lambda i: [Op("sigma_x", "zzz", 1.0)])
attempt("mo unknown dof", lambda: h(symbolic_mo_to_numeric_mo_general([spin_a], mo, np.float64)))
mo = make_mo((2,), lambda i: [Op("sigma_x", "a", 1.0)])
attempt("mo dup dof", lambda: h(symbolic_mo_to_numeric_mo_general([spin_a, spin_a], mo, np.float64)))
mo = np.empty((), dtype=object)
mo[()] = [Op("sigma_x", "a", 1.0)]
attempt("mo 0d", lambda: h(symbolic_mo_to_numeric_mo_general([spin_a], mo, np.float64)))
attempt("mo no basis", lambda: h(symbolic_mo_to_numeric_mo_general([], make_mo((2,), lambda i: []), np.float64)))
# the result must not alias anything surprising: check writeable / base
res = symbolic_mo_to_numeric_mo_general([spin_a, spin_b], make_mo((2, 3), fill_spin, [spin_a, spin_b]), np.float64)
out("mo flags", res.flags["WRITEABLE"], res.flags["OWNDATA"], res.base is not None, type(res).__name__)


# ---------------------------------------------------------------------------
# 3. TTNO.__init__ and TTNO.todense
# ---------------------------------------------------------------------------
out("== TTNO")


def random_tree(basis_list, rng, max_sets=3, n_dummy=2):
    pool = list(basis_list)
    nodes = []
    while pool:
        k = int(rng.integers(1, max_sets + 1))
        nodes.append(TreeNodeBasis(pool[:k]))
        pool = pool[k:]
    for i in range(n_dummy):
        nodes.insert(int(rng.integers(0, len(nodes) + 1)), TreeNodeBasis([BasisDummy(("rd", i))]))
    for i in range(1, len(nodes)):
        nodes[int(rng.integers(0, i))].add_child(nodes[i])
    return BasisTree(nodes[0])


def ttno_digest(label, tree, terms, order=None, ref=None, **kwargs):
    def run():
        ttno = TTNO(tree, terms, **kwargs)
        res = [
            type(ttno.terms).__name__,
            len(ttno.terms),
            ttno.basis is tree,
            [n.tensor.shape for n in ttno.node_list],
            [h(n.tensor) for n in ttno.node_list],
            [n.qn.tolist() for n in ttno.node_list],
            [[ttno.node_idx[c] for c in n.children] for n in ttno.node_list],
            [h(mo.shape) for mo in ttno.symbolic_ttno],
            ttno.tn2dofs[ttno.root],
        ]
        d1 = ttno.todense()
        res.append(h(d1))
        if order is not None:
            d2 = ttno.todense(order)
            res.append(h(d2))
            d3 = ttno.todense(order=order[::-1])
            res.append(h(d3))
            if ref is not None:
                res.append(bool(np.allclose(d2, ref, atol=1e-12)))
        # building from an existing root
        nodes = [TreeNodeTensor(n.tensor.copy(), n.qn.copy()) for n in ttno.node_list]
        root = copy_connection(ttno.node_list, nodes)
        ttno2 = TTNO(tree, terms, root=root)
        res.append(hasattr(ttno2, "symbolic_ttno"))
        res.append(h(ttno2.todense(order)))
        return res

    attempt(label, run)


rng = np.random.default_rng(2024)

# spin models
for nspin in [2, 3, 7]:
    bl = [BasisHalfSpin(i) for i in range(nspin)]
    terms = heisenberg_ops(nspin) + [Op("sigma_x", nspin - 1, 0.37), Op("sigma_z", 0, -1.1)]
    ref = Mpo(Model(bl, terms)).todense()
    trees = {
        "linear": BasisTree.linear(bl),
        "binary": BasisTree.binary(bl),
        "t3ns": BasisTree.t3ns(bl),
        "mctdh2": BasisTree.binary_mctdh(bl),
        "mctdh3c": BasisTree.ternary_mctdh(bl, contract_primitive=True),
        "random1": random_tree(bl, rng),
        "random2": random_tree(bl, rng, max_sets=2, n_dummy=3),
    }
    for name, tree in trees.items():
        for algo in ["Hopcroft-Karp", "qr"]:
            ttno_digest(f"spin{nspin} {name} {algo}", tree, terms, order=bl, ref=ref, algo=algo)

# single Op / one-element list / identity / empty list
bl = [BasisHalfSpin(i) for i in range(4)]
tree = BasisTree.t3ns(bl)
ttno_digest("single Op", tree, Op("sigma_x sigma_z", [0, 3], 0.5), order=bl)
ttno_digest("single Op complex", tree, Op("sigma_x sigma_y", [0, 3], 0.5), order=bl)
ttno_digest("one element", tree, [Op("sigma_+ sigma_-", [1, 2], 2.0)], order=bl)
ttno_digest("identity op", tree, [tree.identity_op], order=bl)
ttno_digest("empty terms", tree, [], order=bl)
ttno_digest("bad algo", tree, heisenberg_ops(4), order=bl, algo="nope")
out("identity cached", TTNO.identity(tree) is TTNO.identity(tree), h(TTNO.identity(tree).todense()))
attempt("dummy ttno", lambda: (h(TTNO.dummy(tree).todense()), TTNO.dummy(tree).todense().shape))
out("dummy ttno nodes", [h(n.tensor) for n in TTNO.dummy(tree)], [n.qn.tolist() for n in TTNO.dummy(tree)])

# holstein-like model with non-zero quantum numbers and several basis kinds
nmol = 3
bl = []
terms = []
for i in range(nmol):
    bl.append(BasisSimpleElectron(("e", i)))
    terms.append(Op(r"a^\dagger a", ("e", i), 0.1 * (i + 1)))
    for j in range(2):
        bl.append(BasisSHO(("v", i, j), omega=0.5 + 0.1 * j, nbas=3))
        terms.append(Op(r"b^\dagger b", ("v", i, j), 0.5 + 0.1 * j))
        terms.append(Op(r"a^\dagger a", ("e", i), 0.3) * Op("x", ("v", i, j), 0.7))
for i in range(nmol - 1):
    terms.append(Op(r"a^\dagger a", [("e", i), ("e", i + 1)], -0.2))
    terms.append(Op(r"a^\dagger a", [("e", i + 1), ("e", i)], -0.2))
# a term that changes the particle number (non-zero operator quantum number)
terms_qn = terms + [Op(r"a^\dagger", ("e", 1), 0.05)]
ref = Mpo(Model(bl, terms)).todense()
trees = {
    "linear": BasisTree.linear(bl),
    "binary": BasisTree.binary(bl),
    "t3ns": BasisTree.t3ns(bl),
    "mctdh3": BasisTree.general_mctdh(bl, 3),
    "mctdh2c": BasisTree.general_mctdh(
        bl, 2, contract_primitive=True, contract_label=[True, False, False] * nmol
    ),
    "random": random_tree(bl, rng),
}
for name, tree in trees.items():
    for algo in ["Hopcroft-Karp", "qr"]:
        ttno_digest(f"holstein {name} {algo}", tree, terms, order=bl, ref=ref, algo=algo)
ttno_digest("holstein qn t3ns", trees["t3ns"], terms_qn, order=bl)

# multi electron basis: two quantum numbers
bl = [
    BasisMultiElectron(["g", "x"], [[0, 0], [1, 0]]),
    BasisHalfSpin("s", [[0, 0], [0, 1]]),
    BasisSHO("q", omega=1.0, nbas=3),
]
# BasisSHO has qn size 1 -> inconsistent with the other two
attempt("inconsistent qn tree", lambda: tree_struct(BasisTree.t3ns(bl)))

# todense with a subset / superset order and on a hand built TTNO
bl = [BasisHalfSpin(i) for i in range(5)]
tree = BasisTree.t3ns(bl)
ttno = TTNO(tree, heisenberg_ops(5))
attempt("todense with dummies in order", lambda: h(ttno.todense(tree.basis_list)))
attempt("todense perm", lambda: h(ttno.todense([bl[i] for i in [3, 0, 4, 1, 2]])))
attempt("todense subset", lambda: h(ttno.todense(bl[:3])))
attempt("todense empty order", lambda: h(ttno.todense([])))
attempt("todense tuple order", lambda: h(ttno.todense(tuple(bl))))
d = ttno.todense()
out("todense type", type(d).__name__, d.dtype, d.shape, d.flags["C_CONTIGUOUS"], d.flags["WRITEABLE"])
# complex tensors in a TTNO built from a root
nodes = [TreeNodeTensor(n.tensor * (1 + 0.5j), n.qn.copy()) for n in ttno.node_list]
root = copy_connection(ttno.node_list, nodes)
ttno_c = TTNO(tree, heisenberg_ops(5), root=root)
out("todense complex", h(ttno_c.todense()), h(ttno_c.todense(bl[::-1])))
# one-site tree
b1 = [BasisHalfSpin("only")]
tree1 = BasisTree.linear(b1)
ttno1 = TTNO(tree1, [Op("sigma_x", "only", 0.5), Op("sigma_z", "only", 1.5)])
out("one site", h(ttno1.todense()), [n.tensor.shape for n in ttno1])
# dummy-only tree: dense is a 1x1 matrix
attempt("dummy only", lambda: h(TTNO.dummy(tree1).todense()))
