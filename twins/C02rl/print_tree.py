class print_tree:
    """Minimal stand-in for the third-party ``print_tree`` package (not installed here)."""

    def __init__(self, root):
        self.root = root
        self.rows = []
