# Equivalence check for the C03 refactoring
# (MatrixProduct.add / dot / distance, Mpo.apply)
import hashlib
import logging
import warnings

import numpy as np

logging.disable(logging.CRITICAL)
warnings.filterwarnings("ignore")

from renormalizer.model import Phonon, Mol, HolsteinModel
from renormalizer.mps import Mps, Mpo, MpDm
from renormalizer.mps.matrix import asnumpy
from renormalizer.tests.parameter import holstein_model, custom_model
from renormalizer.utils import Quantity

LINES = []


def out(*args):
    LINES.append(" ".join(str(a) for a in args))


def fnum(x):
    x = complex(x)
    return "(%.10e,%.10e)" % (x.real + 0.0, x.imag + 0.0)


def arr_digest(a):
    a = np.ascontiguousarray(asnumpy(a))
    h = hashlib.sha1(a.tobytes()).hexdigest()[:12]
    w = np.cos(np.arange(a.size, dtype=float) * 0.37 + 0.11).reshape(a.shape)
    return "%s %s %s abs=%.10e w=%s sha=%s" % (
        a.shape, a.dtype, "C" if a.flags.c_contiguous else "N",
        float(np.abs(a).sum()), fnum((a * w).sum()), h)


def mp_digest(tag, mp):
    out("##", tag, type(mp).__name__, "dtype", np.dtype(mp.dtype).name, "nsite", len(mp))
    out("  bond", list(mp.bond_dims), "qnidx", mp.qnidx, "to_right", mp.to_right,
        "qntot", np.asarray(mp.qntot).tolist())
    if hasattr(mp, "coeff"):
        out("  coeff", type(mp.coeff).__name__, fnum(mp.coeff))
    out("  thresh", mp.compress_config.threshold, mp.compress_config.criteria)
    for i, qn in enumerate(mp.qn):
        qn = np.asarray(qn)
        out("  qn", i, qn.shape, qn.dtype.kind, qn.tolist())
    for i, mt in enumerate(mp):
        out("  mt", i, arr_digest(mt.array), "orig", mt.original_shape,
            "sqn", np.asarray(mt.sigmaqn).tolist() if mt.sigmaqn is not None else None)


def attempt(tag, f):
    try:
        res = f()
    except BaseException as e:  # noqa
        out("##", tag, "EXC", type(e).__name__, str(e)[:80])
        return None
    return res


def rand_phase_complex(mp, rng):
    mp = mp.to_complex()
    for i in range(len(mp)):
        ph = np.exp(1j * rng.uniform(0, 2 * np.pi))
        arr = mp[i].array * ph + 0.05j * rng.standard_normal(mp[i].array.shape) * (mp[i].array != 0)
        mp[i] = arr
    return mp


def safe_cano(mp):
    # put the qn centre where canonicalise() expects it for the current sweep direction
    mp.move_qnidx(0 if mp.to_right else len(mp) - 1)
    mp.canonicalise()
    return mp


def gauge_variants(mp):
    """yield (name, copy) in different gauge histories"""

    def cano1(x):
        x.canonicalise()

    def cano2(x):
        x.canonicalise()
        x.canonicalise()

    def comp(x):
        x.canonicalise()
        x.compress()

    def lcano(x):
        x.ensure_left_canonical()

    def rcano(x):
        x.ensure_right_canonical()

    recipes = [("fresh", lambda x: None), ("cano1", cano1), ("cano2", cano2), ("comp", comp),
               ("qnidx0", lambda x: x.move_qnidx(0)),
               ("qnidx%d" % (len(mp) // 2), lambda x: x.move_qnidx(len(mp) // 2)),
               ("qnidxlast", lambda x: x.move_qnidx(len(mp) - 1)),
               ("lcano", lcano), ("rcano", rcano)]
    for name, recipe in recipes:
        x = mp.copy()
        try:
            recipe(x)
        except AssertionError:
            # operators without a sweep direction (to_right is None): fall back to the fresh copy
            x = mp.copy()
        yield name, x


def small_models():
    yield "holstein9", holstein_model
    yield "custom22", custom_model(n_phys_dim=(2, 2))
    ph = Phonon.simple_phonon(Quantity(0.01), Quantity(1.0), 3)
    jm = np.zeros((1, 1))
    yield "twosite", HolsteinModel([Mol(Quantity(0.1), [ph], 1.0)], jm)
    jm2 = np.array([[0.0, 0.01], [0.01, 0.0]])
    yield "dimer4", HolsteinModel([Mol(Quantity(0.1), [ph], 1.0)] * 2, jm2)


def dense_digest(mp):
    try:
        d = mp.todense()
    except ValueError as e:
        out("  dense EXC", str(e))
        return
    out("  dense", arr_digest(d))


def scalar_digest(tag, v):
    if v is None:
        out("##", tag, "None")
    elif isinstance(v, np.ndarray):
        out("##", tag, "ndarray", arr_digest(v))
    else:
        out("##", tag, type(v).__name__, fnum(v))


def main():
    rng = np.random.RandomState(20240926)
    for mname, model in small_models():
        np.random.seed(1234)
        out("=" * 20, mname, "nsite", model.nsite)
        # ---------------- states
        nex = 1
        s1 = Mps.random(model, nex, 6, percent=1.0)
        s2 = Mps.random(model, nex, 4, percent=0.6)
        s3 = Mps.random(model, nex, 9, percent=1.0)
        s0 = Mps.ground_state(model, False)  # qntot = 0
        s2c = rand_phase_complex(s2, rng)
        s3c = rand_phase_complex(s3, rng)
        s3c.coeff = 0.3 - 0.7j
        s1b = s1.copy()
        s1b.coeff = -2.5

        # ---------------- operators
        h = Mpo(model)
        adag = Mpo.onsite(model, r"a^\dagger", dof_set={0})
        a_op = Mpo.onsite(model, r"a", dof_set={0})
        nop = Mpo.onsite(model, r"a^\dagger a")
        ident = Mpo.identity(model)
        prop = Mpo.exact_propagator(model, -0.3j, space="GS", shift=0.1)
        ops = [("h", h), ("adag", adag), ("a", a_op), ("n", nop), ("id", ident), ("prop", prop)]

        # ---------------- density operators
        dm_ex = MpDm.max_entangled_ex(model)
        dm_gs = MpDm.max_entangled_gs(model)
        dm1 = MpDm.from_mps(s1)
        dm2c = rand_phase_complex(MpDm.from_mps(s2), rng)

        states = [("s1", s1), ("s2", s2), ("s3", s3), ("s2c", s2c), ("s3c", s3c), ("s1b", s1b)]

        # ===== add / sub on states, all gauge pairs for one pair, fresh for others
        for (na, a), (nb, b) in [(states[0], states[1]), (states[0], states[3]), (states[4], states[1]),
                                 (states[5], states[2]), (states[3], states[4])]:
            for ga, va in gauge_variants(a):
                for gb, vb in gauge_variants(b):
                    if (na, nb) != ("s1", "s2") and (ga, gb) not in [("fresh", "fresh"), ("cano1", "comp"),
                                                                      ("qnidx0", "rcano")]:
                        continue
                    va2, vb2 = va.copy(), vb.copy()
                    r = attempt("add", lambda: va2.add(vb2))
                    if r is None:
                        continue
                    mp_digest("add %s[%s]+%s[%s]" % (na, ga, nb, gb), r)
                    # operands possibly mutated (coeff handling): digest them, too
                    out("  opnd", fnum(va2.coeff), fnum(vb2.coeff), va2.qnidx, vb2.qnidx,
                        arr_digest(va2[va2.qnidx].array), arr_digest(vb2[vb2.qnidx].array))
                    r2 = safe_cano(r.copy())
                    r2.compress()
                    scalar_digest("  add->cano->comp norm", r2.mp_norm)
                    mp_digest("  add->cano->comp", r2)
                    scalar_digest("  dist", attempt("distance", lambda: va.copy().distance(vb.copy())))
                    scalar_digest("  dot", attempt("dot", lambda: va.conj().dot(vb)))
                    scalar_digest("  dot_rev", attempt("dot", lambda: vb.dot(va.conj())))
                    scalar_digest("  angle", va.angle(vb))
            d = attempt("sub", lambda: a.copy() - b.copy())
            if d is not None:
                mp_digest("sub %s-%s" % (na, nb), d)
            d = attempt("sum3", lambda: (a.copy() + b.copy()).add(a.copy().scale(-0.5)))
            if d is not None:
                mp_digest("sum3 %s %s" % (na, nb), d)

        # different symmetry sector: must raise the same thing
        attempt("add-sector", lambda: s1.copy().add(s0.copy()))
        scalar_digest("dist-sector", attempt("dist-sector", lambda: s1.copy().distance(s0.copy())))
        scalar_digest("dot-sector", attempt("dot-sector", lambda: s1.conj().dot(s0)))

        # ===== distance special cases
        scalar_digest("dist self", s1.copy().distance(s1.copy()))
        scalar_digest("dist selfc", s3c.copy().distance(s3c.copy()))
        x = s1.copy()
        x.canonicalise()
        scalar_digest("dist self-cano", s1.copy().distance(x))
        y = s1.copy().scale(1 + 1e-9)
        scalar_digest("dist tiny", s1.copy().distance(y))
        for eps in (1e-7, -1e-7, 3e-8, 1e-5):
            scalar_digest("dist eps %g" % eps, s1.copy().distance(s1.copy().scale(1 + eps)))
            scalar_digest("dist eps c %g" % eps, s3c.copy().distance(s3c.copy().scale(1 + eps * 1j)))
        scalar_digest("dist coeff", s1.copy().distance(s1b.copy()))
        scalar_digest("dist mpo", h.distance(nop))
        scalar_digest("dist mpo self", h.distance(h.copy()))
        scalar_digest("dist mpo c", prop.distance(ident))
        scalar_digest("dist dm", dm_ex.copy().distance(dm1.copy()))
        scalar_digest("dist dm c", dm2c.copy().distance(dm1.copy()))
        scalar_digest("dist mixed", attempt("dist mixed", lambda: s1.copy().distance(h)))

        # ===== dot on operators / density operators / mixed (errors)
        for (na, a) in ops:
            for (nb, b) in ops:
                scalar_digest("dot %s %s" % (na, nb), attempt("dot", lambda: a.conj().dot(b)))
            scalar_digest("dot ct %s" % na, attempt("dot", lambda: a.conj_trans().dot(a)))
            scalar_digest("norm %s" % na, a.mp_norm)
        scalar_digest("dot dm", dm_ex.conj().dot(dm1))
        scalar_digest("dot dmc", dm2c.conj().dot(dm1))
        scalar_digest("dot dm-mpo", attempt("dot", lambda: dm_gs.conj().dot(ident)))
        scalar_digest("dot mps-mpo", attempt("dot mps-mpo", lambda: s1.dot(h)))
        scalar_digest("dot mpo-mps", attempt("dot mpo-mps", lambda: h.dot(s1)))
        if len(s1) > 2:
            short = s1.copy()
            short._mp = short._mp[:-1]
            scalar_digest("dot len", attempt("dot len", lambda: s1.dot(short)))

        # ===== operator arithmetic: add
        for (na, a), (nb, b) in [(ops[0], ops[3]), (ops[3], ops[4]), (ops[0], ops[5]), (ops[5], ops[4]),
                                 (ops[1], ops[1]), (ops[1], ops[2])]:
            for ga, gb in [("fresh", "fresh"), ("cano1", "comp"), ("qnidx0", "cano2")]:
                va = dict(gauge_variants(a))[ga]
                vb = dict(gauge_variants(b))[gb]
                r = attempt("opadd %s %s" % (na, nb), lambda: va.add(vb))
                if r is None:
                    continue
                mp_digest("opadd %s[%s]+%s[%s]" % (na, ga, nb, gb), r)
                dense_digest(r)
            r = attempt("opsub", lambda: a - b)
            if r is not None:
                mp_digest("opsub %s-%s" % (na, nb), r)

        # density operator add
        for ga, gb in [("fresh", "fresh"), ("cano1", "fresh"), ("comp", "qnidx0")]:
            va = dict(gauge_variants(dm_ex))[ga]
            vb = dict(gauge_variants(dm1))[gb]
            r = attempt("dmadd", lambda: va.add(vb))
            if r is not None:
                mp_digest("dmadd ex[%s]+dm1[%s]" % (ga, gb), r)
            vc = dict(gauge_variants(dm2c))[gb]
            r = attempt("dmaddc", lambda: va.add(vc))
            if r is not None:
                mp_digest("dmaddc ex[%s]+dm2c[%s]" % (ga, gb), r)
        # mixing kinds
        r = attempt("add mps+mpo", lambda: s1.copy().add(h))
        if r is not None:
            mp_digest("add mps+mpo", r)
        r = attempt("add mpo+mps", lambda: h.add(s1.copy()))
        if r is not None:
            mp_digest("add mpo+mps", r)

        # ===== apply
        for (no, o) in ops:
            for (ns, s) in states[:5]:
                for gs, go, cano in [("fresh", "fresh", False), ("cano1", "fresh", True),
                                     ("comp", "cano1", False), ("qnidx0", "comp", True),
                                     ("lcano", "qnidx0", False)]:
                    if ns not in ("s1", "s3c") and gs != "fresh":
                        continue
                    vs = dict(gauge_variants(s))[gs]
                    vo = dict(gauge_variants(o))[go]
                    before = arr_digest(vs[0].array)
                    r = attempt("apply %s %s" % (no, ns), lambda: vo.apply(vs, canonicalise=cano))
                    if r is None:
                        continue
                    mp_digest("apply %s[%s]@%s[%s] cano=%s" % (no, go, ns, gs, cano), r)
                    out("  operand unchanged", before == arr_digest(vs[0].array), np.dtype(vs.dtype).name)
                    scalar_digest("  <s|O|s>", vs.conj().dot(r))
        # operator x operator, operator x density operator
        for (na, a) in ops:
            for (nb, b) in ops:
                r = attempt("opmul", lambda: a.apply(b))
                if r is not None:
                    mp_digest("opmul %s@%s" % (na, nb), r)
                    dense_digest(r)
            for nd, dm in [("ex", dm_ex), ("gs", dm_gs), ("dm1", dm1), ("dm2c", dm2c)]:
                for cano in (False, True):
                    r = attempt("op@dm %s %s" % (na, nd), lambda: a.apply(dm.copy(), canonicalise=cano))
                    if r is not None:
                        mp_digest("op@dm %s@%s cano=%s" % (na, nd, cano), r)
                r = attempt("dm@op", lambda: dm.apply(a))
                if r is not None:
                    mp_digest("dm@op %s@%s" % (nd, na), r)
            r = attempt("contract", lambda: a.contract(s1.copy()))
            if r is not None:
                mp_digest("contract %s s1" % na, r)
            r = attempt("matmul", lambda: a @ (b @ s3c.copy()))
            if r is not None:
                mp_digest("matmul %s" % na, r)
        # mismatched site numbers / wrong kinds
        if len(s1) > 2:
            short = s1.copy()
            short._mp = short._mp[:-1]
            attempt("apply short", lambda: h.apply(short))

        # ===== long interleaved sequence
        def sequence(order):
            acc = s1.copy()
            for k, io in enumerate(order):
                o = ops[io][1]
                nxt = o.apply(acc.copy())
                if np.all(nxt.qntot == acc.qntot):
                    acc = acc.add(nxt.scale(0.5 - 0.25j if k % 2 else -0.7))
                else:
                    acc = nxt
                if k % 3 == 0:
                    safe_cano(acc)
                if k % 3 == 1:
                    safe_cano(acc)
                    acc.compress()
                scalar_digest("seq %d norm" % k, acc.mp_norm)
                if np.all(acc.qntot == s1.qntot):
                    scalar_digest("seq %d dist" % k, acc.copy().distance(s1.copy()))
            mp_digest("seq final", acc)

        attempt("seq A", lambda: sequence([0, 3, 4, 5, 0, 3]))
        attempt("seq B", lambda: sequence([2, 1, 0, 5, 1, 2, 3]))
        attempt("seq C", lambda: sequence([0, 1, 2, 3, 4, 5]))

    # ===== malformed / mismatching operands: same exceptions expected
    from renormalizer.mps.matrix import Matrix
    np.random.seed(99)
    ma = Mps.random(holstein_model, 1, 5)
    mb = Mps.random(custom_model(n_phys_dim=(2, 2)), 1, 5)
    attempt("add pdim mismatch", lambda: ma.copy().add(mb.copy()))
    attempt("add pdim mismatch rev", lambda: mb.copy().add(ma.copy()))
    attempt("opadd pdim mismatch", lambda: Mpo(holstein_model).add(Mpo(custom_model(n_phys_dim=(2, 2)))))
    scalar_digest("dot pdim mismatch", attempt("dot pdim mismatch", lambda: ma.dot(mb)))
    scalar_digest("dist pdim mismatch", attempt("dist pdim mismatch", lambda: ma.copy().distance(mb.copy())))
    attempt("apply pdim mismatch", lambda: Mpo(holstein_model).apply(mb.copy()))
    for bad_shape in [(1, 2, 1, 1, 5), (1, 2), (2,)]:
        bad = ma.copy()
        bad._mp[0] = Matrix(np.ones(bad_shape))
        scalar_digest("dot rank%d" % len(bad_shape), attempt("dot bad rank", lambda: bad.dot(ma)))
        scalar_digest("dot rank%d rev" % len(bad_shape), attempt("dot bad rank rev", lambda: ma.dot(bad)))
    bad = ma.copy()
    bad._mp[1] = Matrix(np.ones((5, 4, 4, 5)))
    attempt("add bad rank", lambda: bad.add(ma.copy()))
    attempt("add bad rank rev", lambda: ma.copy().add(bad))
    # real + complex with different thresholds in compress_config
    mc = rand_phase_complex(Mps.random(holstein_model, 1, 3), rng)
    ma.compress_config.threshold = 1e-5
    mp_digest("add cfg", ma.add(mc))
    mp_digest("add cfg rev", mc.add(ma))

    print("\n".join(LINES))
    print("TOTAL_LINES", len(LINES), hashlib.sha1("\n".join(LINES).encode()).hexdigest())


if __name__ == "__main__":
    main()
