"""Equivalence check for the C03re refactoring.

Exercises MatrixProduct.add, MatrixProduct.move_qnidx, MatrixProduct.copy and
Mpo.conj_trans and prints a deterministic (bit-exact) digest.
"""
import hashlib
import os
import shutil
import sys
import tempfile

import numpy as np

from renormalizer.model import Model, Op
from renormalizer.model.basis import BasisHalfSpin, BasisSHO, BasisSimpleElectron
from renormalizer.mps import Mps, Mpo, MpDm
from renormalizer.mps.matrix import Matrix
from renormalizer.tests.parameter import custom_model, holstein_model
from renormalizer.utils import Quantity


def arr_digest(a):
    a = np.asarray(a)
    h = hashlib.sha1(np.ascontiguousarray(a).tobytes()).hexdigest()[:12]
    return f"{a.dtype}{a.shape}c{int(a.flags.c_contiguous)}f{int(a.flags.f_contiguous)}:{h}"


def qn_digest(qn):
    out = []
    for q in qn:
        out.append(f"{type(q).__name__}:{np.asarray(q).dtype}:{np.asarray(q).tolist()}")
    return out


def mp_digest(mp, with_mt=True):
    lines = [
        f"  class={type(mp).__name__} dtype={np.dtype(mp.dtype)} qnidx={mp.qnidx} to_right={mp.to_right}"
        f" qntot={type(mp.qntot).__name__}:{np.asarray(mp.qntot).tolist()} nsite={mp.site_num}",
        f"  bond={mp.bond_dims if with_mt else None} thr={mp.compress_config.threshold}",
    ]
    for i, q in enumerate(qn_digest(mp.qn)):
        lines.append(f"  qn[{i}]={q}")
    if with_mt:
        for i in range(mp.site_num):
            raw = mp._mp[i]
            mt = mp[i]
            lines.append(
                f"  mt[{i}] stored={type(raw).__name__} {arr_digest(mt.array)} orig={mt.original_shape}"
                f" sq={None if mt.sigmaqn is None else arr_digest(mt.sigmaqn)}"
            )
    for attr in ["coeff", "offset", "scheme"]:
        if hasattr(mp, attr):
            lines.append(f"  {attr}={getattr(mp, attr)!r}")
    return "\n".join(lines)


def section(title):
    print(f"==== {title}")


def show(title, mp, with_mt=True):
    print(f"-- {title}")
    print(mp_digest(mp, with_mt))


def attempt(title, fn):
    try:
        res = fn()
    except BaseException as e:  # noqa
        import re
        msg = re.sub(r"0x[0-9a-fA-F]+", "0x", str(e))[:100]
        print(f"-- {title}: raised {type(e).__name__} {msg!r}")
        return None
    print(f"-- {title}: ok")
    return res


def spin_model(nsite, two_qn=True):
    basis = []
    for i in range(nsite):
        if two_qn:
            sigmaqn = [[0, 0], [1, 0]] if i % 2 == 0 else [[0, 0], [0, 1]]
        else:
            sigmaqn = [0, 1]
        basis.append(BasisHalfSpin(i, sigmaqn=sigmaqn))
    zero = [0, 0] if two_qn else 0
    ham = []
    for i in range(nsite):
        ham.append(Op("sigma_z", i, 0.3 + 0.1 * i, qn=[zero]))
    for i in range(nsite - 2):
        ham.append(Op("sigma_z sigma_z", [i, i + 2], 0.5, qn=[zero, zero]))
    for i in range(nsite - 1):
        if np.all(np.array(basis[i].sigmaqn[1]) == np.array(basis[i + 1].sigmaqn[1])):
            up = list(np.array(basis[i].sigmaqn[1]).reshape(-1))
            dn = [-x for x in up]
            ham.append(Op("sigma_- sigma_+", [i, i + 1], 0.2, qn=[up, dn]))
            ham.append(Op("sigma_+ sigma_-", [i, i + 1], 0.2, qn=[dn, up]))
    return Model(basis, ham)


def rand_mps(model, qntot, m):
    """Mps.random, retried (deterministically) when the random basis cannot reach qntot"""
    for _ in range(50):
        try:
            mps = Mps.random(model, qntot, m)
        except FloatingPointError:
            continue
        if np.all(np.isfinite(mps[-1].array)) and mps[-1].array.any():
            return mps
    raise RuntimeError("no random state")


def gauge_variants(mp):
    """several gauge histories of one operand"""
    out = [("fresh", mp.copy())]
    if mp.site_num < 2:
        return out
    c1 = mp.copy()
    c1.canonicalise()
    out.append(("cano1", c1))
    c2 = c1.copy()
    c2.canonicalise()
    out.append(("cano2", c2))
    if mp.site_num > 2:
        c3 = c2.copy()
        c3.canonicalise(stop_idx=mp.site_num // 2)
        out.append(("mixed", c3))
    return out


def main():
    np.random.seed(2024)
    tmpdir = tempfile.mkdtemp(prefix="c03re_")

    models = {
        "holstein": holstein_model,
        "custom22": custom_model(n_phys_dim=(2, 2)),
        "spin1": spin_model(1),
        "spin2": spin_model(2),
        "spin5_2qn": spin_model(5),
        "spin4_1qn": spin_model(4, two_qn=False),
    }
    qntots = {
        "holstein": 1,
        "custom22": 1,
        "spin1": np.array([1, 0]),
        "spin2": np.array([1, 1]),
        "spin5_2qn": np.array([2, 1]),
        "spin4_1qn": 2,
    }

    # ------------------------------------------------------------------
    section("move_qnidx")
    for name, model in models.items():
        mps = rand_mps(model, qntots[name], 6)
        for gname, g in gauge_variants(mps):
            for dst in range(g.site_num):
                m = g.copy()
                m.move_qnidx(dst)
                show(f"{name}/{gname}/dst={dst}", m, with_mt=False)
                # second move from the new centre
                for dst2 in (0, g.site_num - 1, g.site_num // 2):
                    m2 = m.copy()
                    m2.move_qnidx(dst2)
                    show(f"{name}/{gname}/dst={dst}->{dst2}", m2, with_mt=False)
    # qn stored as python lists (as produced by MatrixProduct.load)
    mps = rand_mps(holstein_model, 1, 5)
    fname = os.path.join(tmpdir, "dumped.npz")
    mps.dump(fname)
    loaded = Mps.load(holstein_model, fname)
    print("loaded qn types", [type(q).__name__ for q in loaded.qn])
    for dst in range(loaded.site_num):
        m = Mps.load(holstein_model, fname)
        m.move_qnidx(dst)
        show(f"loaded/dst={dst}", m, with_mt=False)
    # qn given as nested python lists
    for dst in range(mps.site_num):
        m = mps.copy()
        m.move_qnidx(3)
        m.qn = [np.asarray(q).tolist() for q in m.qn]
        m.move_qnidx(dst)
        show(f"listqn/dst={dst}", m, with_mt=False)
    # operator / density operator
    mpo = Mpo.onsite(holstein_model, r"a^\dagger", dof_set={1})
    for dst in range(mpo.site_num):
        m = mpo.copy()
        m.move_qnidx(dst)
        show(f"mpo-onsite/dst={dst}", m, with_mt=False)
    # unusual destinations
    for dst in (-1, -3, mpo.site_num, mpo.site_num + 3):
        m = mpo.copy()
        r = attempt(f"mpo-onsite/odd dst={dst}", lambda: m.move_qnidx(dst))
        show(f"mpo-onsite/odd dst={dst} state", m, with_mt=False)
    m = mpo.copy()
    m.qnidx = None
    attempt("qnidx None", lambda: m.move_qnidx(0))
    m = mpo.copy()
    print("return value", m.move_qnidx(2))

    # ------------------------------------------------------------------
    section("copy")
    for name, model in models.items():
        mps = rand_mps(model, qntots[name], 5)
        mps.coeff = 0.5 - 0.25j
        for gname, g in gauge_variants(mps):
            c = g.copy()
            show(f"mps {name}/{gname}", c)
            same = [c[i] is g[i] or c[i].array is g[i].array for i in range(g.site_num)]
            shares = [np.shares_memory(c[i].array, g[i].array) for i in range(g.site_num)]
            print("   identity", same, shares, c.qn is g.qn, c.model is g.model,
                  c.compress_config is g.compress_config, c.qntot is g.qntot)
            c[0] = c[0] * 2.0
            c.qn[0][0] = 7
            show(f"mps {name}/{gname} original after mutating copy", g)
        mpo = Mpo(model)
        show(f"mpo {name}", mpo.copy())
        cmpo = mpo.copy().scale(1j)
        show(f"mpo*1j {name}", cmpo.copy())
    mpdm = MpDm.max_entangled_ex(holstein_model)
    show("mpdm", mpdm.copy())
    # copy of an object whose matrices live on disk
    mps = rand_mps(holstein_model, 1, 8)
    mps.compress_config.dump_matrix_size = 200
    mps.compress_config.dump_matrix_dir = tmpdir
    mps = mps.copy()  # re-set every site so that big ones are dumped
    print("stored types", [type(x).__name__ for x in mps._mp])
    c = mps.copy()
    print("copy stored types", [type(x).__name__ for x in c._mp])
    d = mp_digest(c).replace(tmpdir, "TMP")
    print(d)
    # empty object
    empty = Mpo()
    empty.model = holstein_model
    empty.qn = []
    empty.qntot = np.array([0])
    show("empty", empty.copy())
    # metacopied object holds None
    attempt("copy of metacopy", lambda: rand_mps(holstein_model, 1, 4).metacopy().copy())

    # ------------------------------------------------------------------
    section("add")
    np.random.seed(7)
    for name, model in models.items():
        a0 = rand_mps(model, qntots[name], 5)
        b0 = rand_mps(model, qntots[name], 3)
        b0c = b0.scale(0.3 - 0.8j)
        a0c = a0.to_complex()
        for ga, a in gauge_variants(a0):
            for gb, b in gauge_variants(b0):
                show(f"mps {name} {ga}+{gb}", a.add(b))
        show(f"mps {name} real+complex", a0.add(b0c))
        show(f"mps {name} complex+real", a0c.add(b0))
        show(f"mps {name} complex+complex", a0c.add(b0c))
        show(f"mps {name} a-b", a0 - b0)
        show(f"mps {name} a+a", a0 + a0)
        # different qn centres / directions for both operands
        for ia in range(a0.site_num):
            for ib in (0, a0.site_num // 2, a0.site_num - 1):
                a = a0.copy(); a.move_qnidx(ia); a.to_right = bool(ia % 2)
                b = b0.copy(); b.move_qnidx(ib); b.to_right = bool((ib + 1) % 2)
                s = a.add(b)
                show(f"mps {name} centre {ia},{ib}", s)
                show(f"mps {name} centre {ia},{ib} operand a", a, with_mt=False)
        # unequal coeff -> Mps.add rescales operands
        a = a0.copy(); a.coeff = 2.0
        b = b0.copy(); b.coeff = 1j
        show(f"mps {name} coeff", a.add(b))
        show(f"mps {name} coeff operand a", a)
        show(f"mps {name} coeff operand b", b)
        # thresholds propagate
        a = a0.copy(); a.compress_config.threshold = 1e-5
        show(f"mps {name} thr", a.add(b0))
        # operators
        h = Mpo(model)
        ident = Mpo.identity(model)
        show(f"mpo {name} h+h", h.add(h))
        show(f"mpo {name} h+1", h.add(ident))
        show(f"mpo {name} 1+h", ident.add(h))
        show(f"mpo {name} h+1j*h", h.add(h.copy().scale(1j)))
        show(f"mpo {name} 1j*h+h", h.copy().scale(1j).add(h))
        hc = h.copy()
        if h.site_num > 1:
            hc.canonicalise()
        show(f"mpo {name} hcano+h", hc.add(h))
        for dst in range(h.site_num):
            hh = h.copy(); hh.move_qnidx(dst); hh.to_right = True
            show(f"mpo {name} h+h(dst={dst})", h.add(hh))
            show(f"mpo {name} h(dst={dst})+h", hh.add(h))
        s_ab = a0 + b0

        def checks():
            lhs = s_ab.conj().dot(s_ab)
            rhs = a0.conj().dot(a0) + b0.conj().dot(b0) + 2 * a0.conj().dot(b0).real
            print("   norm check", float(np.round(abs(lhs - rhs), 10)), repr(lhs))
            if np.prod(model.pbond_list) <= 4096:
                d = s_ab.todense() - a0.todense() - b0.todense()
                print("   dense check", float(np.round(np.abs(d).max(), 10)))

        attempt(f"checks {name}", checks)
    # density operators
    mpdm = MpDm.max_entangled_ex(holstein_model)
    mpdm2 = Mpo.onsite(holstein_model, r"a^\dagger a", dof_set={0}) @ mpdm
    show("mpdm+mpdm", mpdm.add(mpdm))
    attempt("mpdm+mpdm2 (qntot equal?)", lambda: show("mpdm+mpdm2", mpdm.add(mpdm2)))
    show("mpdm+1j mpdm", mpdm.add(mpdm.copy().scale(1j)))
    # failures
    a = rand_mps(holstein_model, 1, 4)
    b = rand_mps(holstein_model, 2, 4)
    attempt("qntot mismatch", lambda: a.add(b))
    attempt("site_num mismatch", lambda: a.add(rand_mps(models["spin2"], np.array([1, 1]), 4)))
    attempt("pdim mismatch mps", lambda: a.add(rand_mps(custom_model(n_phys_dim=(2, 2)), 1, 4)))
    attempt("pdim mismatch mpo", lambda: Mpo(holstein_model).add(Mpo(custom_model(n_phys_dim=(2, 2)))))
    attempt("mps+mpo", lambda: a.add(Mpo(holstein_model)))
    attempt("mpo+mps", lambda: Mpo.identity(holstein_model).add(rand_mps(holstein_model, 0, 4)))
    # operands on disk
    a = rand_mps(holstein_model, 1, 8)
    a.compress_config.dump_matrix_size = 200
    a.compress_config.dump_matrix_dir = tmpdir
    a = a.copy()
    b = rand_mps(holstein_model, 1, 3)
    print(mp_digest(a.add(b)).replace(tmpdir, "TMP").replace(str(id(a)), "ID"))
    s = b.add(a)
    print("stored", [type(x).__name__ for x in s._mp])
    print("\n".join(l for l in mp_digest(s).splitlines()))

    # ------------------------------------------------------------------
    section("conj_trans")
    for name, model in models.items():
        h = Mpo(model)
        show(f"{name} h", h.conj_trans())
        show(f"{name} 1j*h", h.copy().scale(1j).conj_trans())
        hc = h.copy().scale(0.5 + 2j)
        if h.site_num > 1:
            hc.canonicalise()
        show(f"{name} cano", hc.conj_trans())
        show(f"{name} twice", hc.conj_trans().conj_trans())
        for dst in range(h.site_num):
            hh = h.copy(); hh.move_qnidx(dst)
            ct = hh.conj_trans()
            show(f"{name} dst={dst}", ct)
            show(f"{name} dst={dst} operand", hh)
        ct = h.conj_trans()
        print("   shares", [np.shares_memory(ct[i].array, h[i].array) for i in range(h.site_num)])
        if np.prod(model.pbond_list) <= 4096:
            print("   dense", float(np.round(np.abs(ct.todense() - h.todense().conj().T).max(), 12)))
    for dof in (0, 1, 2):
        for opstr in (r"a^\dagger", "a", r"a^\dagger a"):
            o = Mpo.onsite(holstein_model, opstr, dof_set={dof})
            show(f"onsite {opstr} {dof}", o.conj_trans())
            o2 = o.copy().scale(-0.7j)
            o2.canonicalise()
            show(f"onsite {opstr} {dof} complex cano", o2.conj_trans())
    sm = models["spin5_2qn"]
    for i in range(5):
        up = [int(x) for x in np.array(sm.basis[i].sigmaqn[1]).reshape(-1)]
        o = Mpo(sm, Op("sigma_-", i, 1.0 + 0.5j, qn=[up]))
        show(f"spin sigma_+ {i}", o)
        show(f"spin sigma_+ {i} dagger", o.conj_trans())
        prod = o.conj_trans() @ o
        show(f"spin sigma_+ {i} dagger@o", prod)
        show(f"spin sigma_+ {i} o+o", o.add(o))
    # product state / operator products built from the changed pieces
    h = Mpo(holstein_model)
    psi = rand_mps(holstein_model, 1, 4)
    phi = (h.conj_trans() @ psi).add(h @ psi)
    phi.canonicalise()
    show("(h^+ + h) psi", phi)
    attempt("mpdm conj_trans", lambda: MpDm.max_entangled_ex(holstein_model).conj_trans())
    show("empty", Mpo.conj_trans(empty))

    shutil.rmtree(tmpdir, ignore_errors=True)


if __name__ == "__main__":
    main()
