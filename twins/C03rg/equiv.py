"""Equivalence digest for the C03rg refactoring.

Exercises Mpo.apply, MpDm.apply, MatrixProduct.dot, MatrixProduct.distance
(also through Mps.distance / Mpo.contract / mp_norm / angle) and prints a
deterministic digest.
"""
import hashlib
import traceback

import numpy as np

from renormalizer.mps import Mps, Mpo, MpDm
from renormalizer.mps.matrix import asnumpy
from renormalizer.mps.mp import MatrixProduct
from renormalizer.model import Model, Op
from renormalizer.model import basis as ba
from renormalizer.tests.parameter import custom_model, holstein_model


def h(arr):
    arr = np.ascontiguousarray(asnumpy(arr))
    return hashlib.sha256(arr.tobytes()).hexdigest()[:16]


def digest_mp(tag, mp):
    print(tag, type(mp).__name__, "dtype", np.dtype(mp.dtype).name,
          "qnidx", mp.qnidx, "to_right", mp.to_right,
          "qntot", np.asarray(mp.qntot).tolist(),
          "coeff", repr(getattr(mp, "coeff", None)))
    for i, mt in enumerate(mp):
        a = asnumpy(mt.array)
        print("   site", i, a.shape, a.dtype.name, h(a), "%.10e" % np.linalg.norm(a.ravel()))
    for i, qn in enumerate(mp.qn):
        qn = np.asarray(qn)
        print("   qn", i, qn.shape, qn.dtype.name, qn.tolist() if qn.size <= 40 else h(qn))


def digest_val(tag, v):
    if v is None:
        print(tag, "None")
        return
    if isinstance(v, (float, complex, int)):
        print(tag, type(v).__name__, repr(v))
    else:
        a = asnumpy(v)
        print(tag, type(v).__name__, a.shape, a.dtype.name, h(a), np.round(a.ravel()[:6], 10).tolist())


def attempt(tag, f):
    try:
        r = f()
    except BaseException as e:  # noqa
        # the public entry point (first library frame below the lambda) in which it was raised;
        # private helper frames are an implementation detail
        tb = [fr for fr in traceback.extract_tb(e.__traceback__) if not fr.name.startswith("_") or fr.name == "__init__"]
        print(tag, "RAISED", type(e).__name__, str(e)[:80], "in", tb[-1].name)
        return None
    return r


def gauges(mps_factory):
    """yield (name, mps) for several gauge histories"""
    m = mps_factory()
    yield "fresh", m
    m = mps_factory()
    m.canonicalise()
    yield "cano1", m
    m = mps_factory()
    m.canonicalise().canonicalise()
    yield "cano2", m
    m = mps_factory()
    m.canonicalise()
    m.compress()
    yield "compressed", m
    for idx in (0, 2, m.site_num - 1):
        m = mps_factory()
        m.move_qnidx(idx)
        yield "centre%d" % idx, m


def state_of(m):
    """snapshot for input-untouched check"""
    return [h(mt.array) for mt in m] + [h(np.asarray(q)) for q in m.qn] + [m.qnidx, m.to_right, repr(getattr(m, "coeff", None)), np.asarray(m.qntot).tolist()]


def main():
    # ------------------------------------------------------------------
    # holstein-type model, one conserved qn
    # ------------------------------------------------------------------
    model = custom_model(n_phys_dim=(2, 3))
    mpo_h = Mpo(model)
    mpo_a = Mpo.onsite(model, r"a^\dagger", dof_set={0})
    mpo_aa = Mpo.onsite(model, r"a^\dagger a", dof_set={1})
    mpo_c = Mpo.exact_propagator(model, -0.3j, space="EX", shift=0.1)
    mpo_id = Mpo.identity(model)

    def mk(seed, qn, m, cplx=False, coeff=None):
        def f():
            np.random.seed(seed)
            mps = Mps.random(model, qn, m)
            if cplx:
                mps = mps.to_complex()
                np.random.seed(seed + 1000)
                for i in range(mps.site_num):
                    a = asnumpy(mps[i].array)
                    mps[i] = a * np.exp(1j * np.random.rand())
            if coeff is not None:
                mps.coeff = coeff
            return mps
        return f

    factories = {
        "r1": mk(1, 1, 5),
        "r2": mk(2, 1, 7, coeff=0.5),
        "c1": mk(3, 1, 4, cplx=True, coeff=0.3 - 0.4j),
        "q0": mk(4, 0, 3),
        "q2": mk(5, 2, 6, coeff=-2.0),
    }

    # -- Mpo.apply on Mps over gauge histories
    for fname, fac in factories.items():
        for gname, mps in gauges(fac):
            for oname, op in (("h", mpo_h), ("a", mpo_a), ("aa", mpo_aa), ("c", mpo_c)):
                before = state_of(mps)
                before_op = state_of(op)
                for cano in (False, True):
                    tag = "apply[%s,%s,%s,cano=%s]" % (fname, gname, oname, cano)
                    res = attempt(tag, lambda: op.apply(mps, canonicalise=cano))
                    if res is not None:
                        digest_mp(tag, res)
                assert before == state_of(mps), "input mutated"
                assert before_op == state_of(op), "operator mutated"

    # -- matmul, contract
    for fname in ("r1", "c1", "q2"):
        mps = factories[fname]()
        digest_mp("matmul[%s]" % fname, mpo_h @ mps)
        mps.canonicalise()
        mps.compress()
        res = attempt("contract_svd[%s]" % fname, lambda: mpo_h.contract(mps))
        if res is not None:
            digest_mp("contract_svd[%s]" % fname, res)
        attempt("contract_bad[%s]" % fname, lambda: mpo_h.contract(mps, algo="nonsense"))

    # -- Mpo.apply on Mpo (operator-operator), gauge histories of the operators
    ops = {"h": mpo_h, "a": mpo_a, "aa": mpo_aa, "c": mpo_c, "id": mpo_id,
           "adag": mpo_a.conj_trans()}
    for n1, o1 in ops.items():
        for n2, o2 in ops.items():
            tag = "opop[%s,%s]" % (n1, n2)
            b1, b2 = state_of(o1), state_of(o2)
            res = attempt(tag, lambda: o1.apply(o2))
            if res is not None:
                digest_mp(tag, res)
                digest_val(tag + ".dense", res.todense())
            assert b1 == state_of(o1) and b2 == state_of(o2)
    for cano in (False, True):
        o2 = mpo_h.copy()
        o2.canonicalise()
        res = attempt("opop_cano", lambda: mpo_a.apply(o2, canonicalise=cano))
        if res is not None:
            digest_mp("opop_cano[%s]" % cano, res)
    o2 = mpo_h.copy()
    o2.move_qnidx(2)
    digest_mp("opop_centre2", mpo_aa.apply(o2))
    o1 = mpo_aa.copy()
    o1.move_qnidx(3)
    digest_mp("opop_selfcentre3", o1.apply(mpo_h))

    # -- Mpo.apply on MpDm and MpDm.apply on Mpo
    for name, mpdm in (("ex", MpDm.max_entangled_ex(model)), ("gs", MpDm.max_entangled_gs(model)),
                       ("exnn", MpDm.max_entangled_ex(model, normalize=False))):
        for oname, op in (("h", mpo_h), ("a", mpo_a), ("c", mpo_c), ("id", mpo_id)):
            for cano in (False, True):
                tag = "mpo@mpdm[%s,%s,%s]" % (name, oname, cano)
                b = state_of(mpdm)
                res = attempt(tag, lambda: op.apply(mpdm, canonicalise=cano))
                if res is not None:
                    digest_mp(tag, res)
                tag = "mpdm@mpo[%s,%s,%s]" % (name, oname, cano)
                res = attempt(tag, lambda: mpdm.apply(op, canonicalise=cano))
                if res is not None:
                    digest_mp(tag, res)
                    digest_val(tag + ".dense", res.todense())
                assert b == state_of(mpdm)
        # mpdm on mpdm and on mps
        tag = "mpdm@mpdm[%s]" % name
        res = attempt(tag, lambda: mpdm.apply(mpdm))
        if res is not None:
            digest_mp(tag, res)
        attempt("mpdm@mps[%s]" % name, lambda: mpdm.apply(factories["r1"]()))
        # complex mpdm
        cm = mpdm.to_complex()
        cm.coeff = 0.2 + 0.1j
        digest_mp("cmpdm@mpo[%s]" % name, cm.apply(mpo_h))
        digest_mp("mpo@cmpdm[%s]" % name, mpo_h.apply(cm))
        digest_val("cmpdm.dot", cm.conj().dot(cm))
        digest_val("cmpdm.distance", cm.distance(mpdm))
        digest_val("mpdm.dot_self", mpdm.conj().dot(mpdm))
        evolved = attempt("mpdm.evolve_exact", lambda: mpdm.evolve_exact(mpo_h, 0.5, "EX"))
        if evolved is not None:
            digest_mp("mpdm.evolve_exact[%s]" % name, evolved)

    # -- weird operand: neither mps, mpo nor mpdm
    class Neither(Mpo):
        @property
        def is_mpo(self):
            return False
    weird = Neither.__new__(Neither)
    weird.__dict__.update(mpo_h.copy().__dict__)
    attempt("apply_neither", lambda: mpo_h.apply(weird))
    # -- site number mismatch
    model2 = custom_model(n_phys_dim=(2, 3), nmols=2, custom_j_matrix=np.zeros((2, 2)))
    np.random.seed(11)
    short = Mps.random(model2, 1, 3)
    attempt("apply_site_mismatch", lambda: mpo_h.apply(short))
    attempt("dot_len_mismatch", lambda: short.dot(factories["r1"]()))
    # -- physical dimension mismatch
    model3 = custom_model(n_phys_dim=(3, 3))
    np.random.seed(12)
    other_dim = Mps.random(model3, 1, 3)
    attempt("apply_pdim_mismatch", lambda: mpo_h.apply(other_dim))
    attempt("dot_pdim_mismatch", lambda: other_dim.dot(factories["r1"]()))
    attempt("mpdm_pdim_mismatch", lambda: MpDm.max_entangled_gs(model3).apply(mpo_h))

    # -- dot / distance / norm / angle over pairs and gauges
    for n1, f1 in factories.items():
        for n2, f2 in factories.items():
            for g1, a in gauges(f1):
                if g1 not in ("fresh", "cano1", "compressed", "centre2"):
                    continue
                for g2, b in gauges(f2):
                    if g2 not in ("fresh", "cano2", "centre0"):
                        continue
                    tag = "pair[%s.%s,%s.%s]" % (n1, g1, n2, g2)
                    ba_, bb_ = state_of(a), state_of(b)
                    digest_val(tag + ".dot", attempt(tag, lambda: a.dot(b)))
                    digest_val(tag + ".cdot", attempt(tag, lambda: a.conj().dot(b)))
                    assert ba_ == state_of(a) and bb_ == state_of(b)
                    # MatrixProduct.distance directly (no coeff handling)
                    d = attempt(tag + ".mpdist", lambda: MatrixProduct.distance(a, b))
                    if d is not None:
                        digest_val(tag + ".mpdist", d)
                    assert ba_ == state_of(a) and bb_ == state_of(b)
                    digest_val(tag + ".angle", attempt(tag, lambda: a.angle(b)))
                    # Mps.distance (mutates coeff) last
                    d = attempt(tag + ".distance", lambda: a.distance(b))
                    if d is not None:
                        digest_val(tag + ".distance", d)
                    print(tag, "after-distance", state_of(a)[-4:], state_of(b)[-4:], state_of(a)[0], state_of(b)[0])
            a = f1()
            digest_val("norm[%s]" % n1, a.mp_norm)
    # distance to itself (tiny / negative dis_square)
    for n1, f1 in factories.items():
        a, b = f1(), f1()
        digest_val("selfdist[%s]" % n1, attempt("selfdist", lambda: a.distance(b)))
        digest_val("selfdist_same[%s]" % n1, attempt("selfdist", lambda: a.distance(a)))
        big = a.scale(1e8)
        big2 = f1().scale(1e8)
        digest_val("selfdist_big[%s]" % n1, attempt("selfdist_big", lambda: MatrixProduct.distance(big, big2)))
    # distance negative beyond tolerance -> assertion: craft with zero state
    z = factories["r1"]()
    for i in range(z.site_num):
        z[i] = asnumpy(z[i].array) * 0
    digest_val("zero.dot", z.dot(z))
    digest_val("zero.dist", attempt("zero.dist", lambda: MatrixProduct.distance(z, z)))
    digest_val("zero.dist2", attempt("zero.dist2", lambda: MatrixProduct.distance(z, factories["r1"]())))
    digest_val("zero.norm", z.mp_norm)

    # crafted dot values: exercise the negative / assertion / zero-division branches of distance
    class Fake:
        def __init__(self, name, table):
            self.name, self.table = name, table
        def conj(self):
            return self
        def dot(self, other):
            return self.table[(self.name, other.name)]
    for k, (l1, l2, l12) in enumerate([(1 + 0j, 1 + 0j, 1 + 1e-12 + 0j), (1 + 0j, 1 + 0j, 1.1 + 0.3j),
                                       (0j, 0j, 1e-3 + 0j), (-1 + 0j, 0j, 0j), (2 + 1j, 3 - 1j, 0.5 + 0.25j),
                                       (complex("nan"), 1 + 0j, 0j), (1e-30 + 0j, 1e-30 + 0j, 1.0000001e-30 + 0j)]):
        table = {("a", "a"): l1, ("b", "b"): l2, ("a", "b"): l12}
        fa, fb = Fake("a", table), Fake("b", table)
        digest_val("fake_dist[%d]" % k, attempt("fake_dist[%d]" % k, lambda: MatrixProduct.distance(fa, fb)))

    # operator dot / distance
    for n1, o1 in ops.items():
        for n2, o2 in ops.items():
            tag = "opdot[%s,%s]" % (n1, n2)
            digest_val(tag, attempt(tag, lambda: o1.conj().dot(o2)))
            digest_val(tag + ".dist", attempt(tag, lambda: o1.distance(o2)))
    # mps-vs-mpo dot (ndim mismatch)
    attempt("dot_mps_mpo", lambda: factories["r1"]().dot(mpo_h))
    attempt("dot_mpo_mps", lambda: mpo_h.dot(factories["r1"]()))
    # matrix with unexpected ndim
    bad = factories["r1"]()
    bad._mp[2] = None
    attempt("dot_none_site", lambda: bad.dot(factories["r1"]()))
    attempt("dot_none_site2", lambda: factories["r1"]().dot(bad))
    # empty
    e1, e2 = Mps(), Mps()
    attempt("dot_empty", lambda: digest_val("dot_empty", e1.dot(e2)))

    # ------------------------------------------------------------------
    # two quantum numbers, spin-ful electrons
    # ------------------------------------------------------------------
    basis = [ba.BasisHalfSpin("s0", sigmaqn=[[0, 0], [1, 0]]),
             ba.BasisHalfSpin("v0", sigmaqn=[[0, 0], [0, 0]]),
             ba.BasisHalfSpin("s1", sigmaqn=[[0, 0], [0, 1]]),
             ba.BasisMultiElectron(["e0", "e1", "e2"], [[0, 0], [1, 0], [0, 1]]),
             ba.BasisSimpleElectron("s2", sigmaqn=[[0, 0], [1, 0]])]
    ham = [Op("sigma_z", "s0", 0.3), Op("sigma_x", "v0", 1.0), Op("sigma_z", "s1", 0.2),
           Op(r"a^\dagger a", ["e1", "e1"], 0.7), Op(r"a^\dagger a", ["e1", "e0"], 0.25),
           Op(r"a^\dagger a", ["e0", "e1"], 0.25), Op(r"a^\dagger a", "s2", -0.4),
           Op(r"sigma_z sigma_x", ["s0", "v0"], 0.15),
           Op(r"sigma_+ a", ["s0", "s2"], 0.35), Op(r"sigma_- a^\dagger", ["s0", "s2"], 0.35)]
    model_q = attempt("model_q", lambda: Model(basis, ham))
    if model_q is not None:
        mpo_q = attempt("mpo_q", lambda: Mpo(model_q))
        mpo_q_hop = attempt("mpo_q_hop", lambda: Mpo(model_q, terms=[Op(r"sigma_+ a", ["s0", "s2"], 1.0)]))
        for seed, qn in ((21, [1, 0]), (22, [1, 1]), (23, [2, 1])):
            def fac():
                np.random.seed(seed)
                return Mps.random(model_q, np.array(qn), 6)
            ref = attempt("random_q%s" % qn, fac)
            if ref is None:
                continue
            for gname, mps in gauges(fac):
                for oname, op in (("hq", mpo_q), ("hop", mpo_q_hop)):
                    if op is None:
                        continue
                    for cano in (False, True):
                        tag = "applyq[%s,%s,%s,%s]" % (qn, gname, oname, cano)
                        res = attempt(tag, lambda: op.apply(mps, canonicalise=cano))
                        if res is not None:
                            digest_mp(tag, res)
                            digest_val(tag + ".overlap", ref.conj().dot(res))
                            digest_val(tag + ".dist", MatrixProduct.distance(res, ref))
            digest_mp("opopq", mpo_q.apply(mpo_q))
            if mpo_q_hop is not None:
                digest_mp("opopq_hop", mpo_q_hop.apply(mpo_q))
                digest_mp("opopq_hop2", mpo_q.apply(mpo_q_hop))

    # ------------------------------------------------------------------
    # holstein model of the tests, thermal-state style use
    # ------------------------------------------------------------------
    mpdm = MpDm.max_entangled_ex(holstein_model)
    hmpo = Mpo(holstein_model)
    r = hmpo.apply(mpdm)
    digest_mp("holstein mpo@mpdm", r)
    r = mpdm.apply(hmpo, canonicalise=True)
    digest_mp("holstein mpdm@mpo", r)
    digest_val("holstein dist", r.distance(mpdm))


if __name__ == "__main__":
    main()
