# -*- coding: utf-8 -*-
"""Equivalence check for the refactoring of
MatrixProduct.add, Mps.add, Mps.distance and Mpo.conj_trans.

Prints a deterministic digest of results, side effects and exceptions.
"""
import hashlib
import logging
import warnings

import numpy as np

logging.disable(logging.CRITICAL)
warnings.simplefilter("ignore")

from renormalizer.model import Model, Op
from renormalizer.model.basis import (
    BasisSHO,
    BasisHalfSpin,
    BasisSimpleElectron,
    BasisMultiElectron,
)
from renormalizer.mps import Mps, Mpo, MpDm
from renormalizer.mps.backend import backend
from renormalizer.tests import parameter
from renormalizer.utils import CompressConfig, CompressCriteria


LINES = []


def out(*args):
    LINES.append(" ".join(str(a) for a in args))


def arr_digest(a):
    a = np.asarray(a)
    rounded = np.round(a.astype(complex), 8) + 0.0  # kill -0.0
    h = hashlib.md5(np.ascontiguousarray(rounded).tobytes()).hexdigest()[:12]
    return f"{a.shape}|{a.dtype}|{h}|{np.round(np.abs(a).sum(), 7)}"


def layout(a):
    # memory layout in units of itemsize, and contiguity flags
    return (tuple(s // a.itemsize for s in a.strides), bool(a.flags.c_contiguous), bool(a.flags.f_contiguous))


def cc_digest(cc):
    md = None if cc.max_dims is None else tuple(int(x) for x in cc.max_dims)
    return (cc.criteria.name, cc.threshold, md)


def mp_digest(tag, mp, dense=True, with_layout=False):
    out(f"[{tag}] class={type(mp).__name__} dtype={mp.dtype} site_num={mp.site_num} "
        f"qnidx={mp.qnidx} to_right={mp.to_right} qntot={np.asarray(mp.qntot).tolist()} "
        f"qntot_dtype={np.asarray(mp.qntot).dtype}")
    if hasattr(mp, "coeff"):
        out(f"[{tag}] coeff={complex(mp.coeff):.10f} coeff_type={type(mp.coeff).__name__}")
    out(f"[{tag}] cc={cc_digest(mp.compress_config)}")
    for i in range(mp.site_num):
        mt = mp[i]
        extra = ""
        if with_layout:
            extra = f" layout={layout(mt.array)}"
        sq = None if mt.sigmaqn is None else arr_digest(mt.sigmaqn)
        out(f"[{tag}] mt{i} {arr_digest(mt.array)} orig_shape={mt.original_shape} sigmaqn={sq}{extra}")
    for i, qn in enumerate(mp.qn):
        qn = np.asarray(qn)
        out(f"[{tag}] qn{i} shape={qn.shape} dtype={qn.dtype} {qn.tolist()}")
    for attr in ["scheme", "offset", "optimize_config", "evolve_config"]:
        if hasattr(mp, attr):
            v = getattr(mp, attr)
            if attr in ("optimize_config", "evolve_config"):
                v = type(v).__name__
            out(f"[{tag}] {attr}={v}")
    if dense:
        try:
            d = mp.todense()
            if hasattr(mp, "coeff") and not isinstance(mp, MpDm):
                pass
            out(f"[{tag}] dense {arr_digest(d)}")
        except Exception as e:  # pragma: no cover
            out(f"[{tag}] dense failed {type(e).__name__}")


def attempt(tag, func):
    try:
        return func()
    except Exception as e:
        out(f"[{tag}] raised {type(e).__name__}: {str(e)[:80]}")
        return None


# ---------------------------------------------------------------- models
def spin_model(n, sigmaqn=None):
    if sigmaqn is None:
        basis = [BasisHalfSpin(i) for i in range(n)]
    else:
        basis = [BasisHalfSpin(i, sigmaqn=sigmaqn) for i in range(n)]
    ham = []
    for i in range(n - 1):
        ham.append(Op("sigma_+ sigma_-", [i, i + 1], 0.7 + 0.1 * i))
        ham.append(Op("sigma_- sigma_+", [i, i + 1], 0.7 + 0.1 * i))
        ham.append(Op("sigma_z sigma_z", [i, i + 1], 0.3))
    for i in range(n):
        ham.append(Op("sigma_z", i, 0.2 * (i + 1)))
    return Model(basis, ham)


def two_qn_model():
    # qn_size == 2
    basis = []
    for i in range(3):
        basis.append(BasisSimpleElectron(f"a{i}", sigmaqn=[[0, 0], [1, 0]]))
        basis.append(BasisSimpleElectron(f"b{i}", sigmaqn=[[0, 0], [0, 1]]))
    ham = []
    for i in range(2):
        ham.append(Op(r"a^\dagger a", [f"a{i}", f"a{i+1}"], -0.5, qn=[[1, 0], [-1, 0]]))
        ham.append(Op(r"a^\dagger a", [f"a{i+1}", f"a{i}"], -0.5, qn=[[1, 0], [-1, 0]]))
        ham.append(Op(r"a^\dagger a", [f"b{i}", f"b{i+1}"], -0.4, qn=[[0, 1], [0, -1]]))
        ham.append(Op(r"a^\dagger a", [f"b{i+1}", f"b{i}"], -0.4, qn=[[0, 1], [0, -1]]))
    for i in range(3):
        ham.append(Op(r"a^\dagger a a^\dagger a", [f"a{i}", f"a{i}", f"b{i}", f"b{i}"], 1.3,
                      qn=[[1, 0], [-1, 0], [0, 1], [0, -1]]))
    return Model(basis, ham)


def sho_model(nsite):
    basis = [BasisSHO(f"v{i}", 1.0 + 0.1 * i, 3 + (i % 2)) for i in range(nsite)]
    ham = [Op(r"b^\dagger b", f"v{i}", 1.0 + 0.1 * i) for i in range(nsite)]
    for i in range(nsite - 1):
        ham.append(Op("x x", [f"v{i}", f"v{i+1}"], 0.05))
    return Model(basis, ham)


# ---------------------------------------------------------------- gauge histories
def _history(mp, kind):
    mp = mp.copy()
    if kind == "fresh" or mp.site_num == 1:
        # canonicalisation is not defined for a single site
        return mp
    if kind == "cano1":
        return mp.canonicalise()
    if kind == "cano2":
        return mp.canonicalise().canonicalise()
    if kind == "compress":
        mp.compress_config = CompressConfig(CompressCriteria.threshold, threshold=1e-14)
        # the centre may sit anywhere (e.g. after an addition); put it where the sweep starts
        mp.move_qnidx(0 if mp.to_right else mp.site_num - 1)
        return mp.canonicalise().compress()
    if kind.startswith("mid"):
        mp.canonicalise()
        if mp.site_num > 2:
            mp.move_qnidx(int(kind[3:]) % mp.site_num)
        return mp
    if kind == "left":
        mp.ensure_left_canonical()
        return mp
    if kind == "right":
        mp.ensure_right_canonical()
        return mp
    raise ValueError(kind)


def history(mp, kind):
    """gauge history; falls back to the fresh copy when the library cannot canonicalise the operand"""
    try:
        return _history(mp, kind)
    except Exception as e:
        import traceback
        tb = traceback.extract_tb(e.__traceback__)[-1]
        out(f"[history.{kind}] raised {type(e).__name__} in {tb.name}; using fresh copy")
        return mp.copy()


HISTS = ["fresh", "cano1", "cano2", "compress", "mid1", "mid2", "left", "right"]


def check_add(tag, a, b, dense=True):
    """a + b with digest of the result and of the (possibly mutated) operands"""
    res = attempt(tag, lambda: a.add(b))
    if res is None:
        return None
    mp_digest(tag + ".res", res, dense=dense)
    # operands may have been mutated (Mps.add absorbs coeff)
    mp_digest(tag + ".lhs", a, dense=False)
    mp_digest(tag + ".rhs", b, dense=False)
    # the result stays correct after canonicalisation / compression
    res2 = res.copy()
    r = attempt(tag + ".post", lambda: history(res2, "compress"))
    if r is not None and dense:
        def post():
            d = r.todense()
            if hasattr(r, "coeff") and isinstance(r, Mps) and not isinstance(r, MpDm):
                d = d * r.coeff
            out(f"[{tag}.post] bond_dims={r.bond_dims} dense_abs_sum={np.round(np.abs(d).sum(), 6)} "
                f"dense_norm={np.round(np.linalg.norm(d), 6)}")
        attempt(tag + ".post", post)
    return res


def main():
    out("real_dtype", backend.real_dtype, "complex_dtype", backend.complex_dtype)

    # ============================================================ Mps on the Holstein model
    np.random.seed(2024)
    hm = parameter.custom_model(n_phys_dim=[3, 3])
    m1 = Mps.random(hm, 1, 7)
    m2 = Mps.random(hm, 1, 4)
    m3 = Mps.random(hm, 1, 3)
    m2c = m2.to_complex()
    m2c = m2c.scale(0.3 - 0.8j)
    m3.coeff = 0.5
    m2c.coeff = 1j

    for ih, (h1, h2) in enumerate([("fresh", "fresh"), ("cano1", "fresh"), ("fresh", "cano2"),
                                   ("compress", "mid2"), ("mid1", "left"), ("right", "mid3"),
                                   ("left", "right"), ("cano2", "compress")]):
        a = history(m1, h1)
        b = history(m2, h2)
        check_add(f"hol.rr.{h1}.{h2}", a, b)
        a = history(m1, h1)
        b = history(m2c, h2)
        check_add(f"hol.rc.{h1}.{h2}", a, b)
        a = history(m2c, h1)
        b = history(m3, h2)
        check_add(f"hol.cr.{h1}.{h2}", a, b)
        a = history(m2c, h1)
        b = history(m2c, h2).scale(-2.5j)
        check_add(f"hol.cc.{h1}.{h2}", a, b)

    # distance (mutates coefficients) and chained arithmetic
    for h1, h2 in [("fresh", "cano1"), ("mid2", "compress"), ("left", "fresh")]:
        a = history(m3, h1)
        b = history(m2c, h2)
        d = attempt("hol.dist", lambda: a.distance(b))
        out(f"[hol.dist.{h1}.{h2}] {None if d is None else round(d, 8)} type={type(d).__name__}")
        mp_digest(f"hol.dist.{h1}.{h2}.lhs", a, dense=False)
        mp_digest(f"hol.dist.{h1}.{h2}.rhs", b, dense=False)
        a = history(m1, h1)
        b = history(m2, h2)
        d = a.distance(b)
        out(f"[hol.dist.same.{h1}.{h2}] {round(d, 8)} type={type(d).__name__}")
        mp_digest(f"hol.dist.same.{h1}.{h2}.lhs", a, dense=False)
        out(f"[hol.dist.self.{h1}] {round(a.distance(a), 8)}")

    # a coefficient that is equal within tolerance is not absorbed
    a = m1.copy()
    b = m2.copy()
    a.coeff = 2.0
    b.coeff = 2.0 + 1e-12
    check_add("hol.coeffclose", a, b)
    a = m1.copy()
    a.coeff = 3.0
    check_add("hol.selfadd", a, a)
    a = m1.copy()
    a.coeff = -1.5
    b = m2.copy()
    b.coeff = 2
    check_add("hol.intcoeff", a, b)

    # chain: (a + b) canonicalise - c, compress, + conj
    a, b, c = m1.copy(), m2c.copy(), m3.copy()
    s = a.add(b)
    s.canonicalise()
    s2 = s - c
    mp_digest("hol.chain.sub", s2)
    s2.canonicalise().compress()
    s3 = s2 + s2.conj()
    mp_digest("hol.chain.conj", s3)
    out("[hol.chain] norm", round(float(s3.norm), 8), "angle", round(s3.angle(s2), 8))

    # compress config merging
    a, b = m1.copy(), m2.copy()
    a.compress_config = CompressConfig(CompressCriteria.fixed, max_bonddim=6)
    a.compress_config.set_bonddim(a.site_num + 1)
    b.compress_config = CompressConfig(CompressCriteria.fixed, max_bonddim=9)
    b.compress_config.set_bonddim(b.site_num + 1)
    check_add("hol.ccfixed", a, b)
    a, b = m1.copy(), m2.copy()
    a.compress_config = CompressConfig(CompressCriteria.threshold, threshold=1e-5)
    b.compress_config = CompressConfig(CompressCriteria.threshold, threshold=1e-7)
    check_add("hol.ccthresh", a, b)

    # failures
    bad = Mps.random(hm, 2, 4)
    check_add("hol.badqn", m1.copy(), bad)
    hm4 = hm.switch_scheme(4)
    try:
        other = Mps.random(hm4, 1, 4)
        check_add("hol.badsite", m1.copy(), other)
    except Exception as e:
        out("[hol.badsite] setup failed", type(e).__name__)
    bigger = parameter.custom_model(n_phys_dim=[4, 3])
    other = Mps.random(bigger, 1, 4)
    check_add("hol.badpdim", m1.copy(), other)
    check_add("hol.badpdim.rev", other.copy(), m1.copy())

    # thermal objects on the Holstein model
    prop = Mpo.exact_propagator(hm, -0.3j)
    p = prop.conj_trans()
    mp_digest("hol.prop.conj_trans", p, dense=False, with_layout=True)
    check_add("hol.prop+propdag", prop.copy(), p, dense=False)
    gs = MpDm.max_entangled_gs(hm)
    ex = MpDm.max_entangled_ex(hm)
    check_add("hol.mpdm.gs+gs", gs.copy(), history(gs, "cano1"), dense=False)
    tp = Mpo.exact_propagator(hm, -0.2, space="EX")
    ex2 = tp @ ex
    ex2.coeff = 0.5j
    check_add("hol.mpdm.ex+ex2", history(ex, "compress"), ex2, dense=False)
    x, y = ex.copy(), ex2.copy()
    out(f"[hol.mpdm.dist] {round(x.distance(y), 8)}")
    mp_digest("hol.mpdm.dist.lhs", x, dense=False)
    mp_digest("hol.mpdm.dist.rhs", y, dense=False)
    hmpo = Mpo(hm)
    mp_digest("hol.H.conj_trans", hmpo.conj_trans(), dense=False, with_layout=True)
    mp_digest("hol.H.cano.conj_trans", history(hmpo, "cano1").conj_trans(), dense=False, with_layout=True)
    check_add("hol.H+Hdag", history(hmpo, "mid3"), hmpo.conj_trans(), dense=False)

    # ============================================================ spin model with non trivial qn
    np.random.seed(7)
    for n in [1, 2, 3, 5]:
        model = spin_model(n, sigmaqn=[-1, 1])
        qntot = {1: 1, 2: 0, 3: 1, 5: -1}[n]
        sa = Mps.random(model, qntot, 5)
        sb = Mps.random(model, qntot, 3).scale(0.37)
        sbc = sb.to_complex().scale(1j)
        sbc.coeff = 0.25 + 0.5j
        for h1, h2 in [("fresh", "fresh"), ("cano1", "mid1"), ("mid2", "cano2"), ("compress", "left"), ("right", "compress")]:
            if n < 3 and (h1.startswith("mid") or h2.startswith("mid")):
                # mid == cano1 for short chains, still run
                pass
            a, b = attempt("spin.hist", lambda: (history(sa, h1), history(sb, h2))) or (None, None)
            if a is None:
                continue
            check_add(f"spin{n}.rr.{h1}.{h2}", a, b)
            a, b = history(sa, h1), history(sbc, h2)
            check_add(f"spin{n}.rc.{h1}.{h2}", a, b)
            a, b = history(sbc, h1), history(sa, h2)
            d = attempt("spin.dist", lambda: a.distance(b))
            out(f"[spin{n}.dist.{h1}.{h2}] {None if d is None else round(d, 8)}")
            mp_digest(f"spin{n}.dist.{h1}.{h2}.lhs", a, dense=False)

        # operators
        h = Mpo(model)
        hd = attempt("spin.ct", lambda: h.conj_trans())
        if hd is not None:
            mp_digest(f"spin{n}.H.conj_trans", hd, with_layout=True)
            out(f"[spin{n}.H.conj_trans] shares_memory="
                f"{[bool(np.shares_memory(h[i].array, hd[i].array)) for i in range(n)]}")
            out(f"[spin{n}.H.conj_trans] dense_ok={np.allclose(hd.todense(), h.todense().conj().T)}")
        hc = h.scale(0.5 - 1.5j)
        hcd = hc.conj_trans()
        mp_digest(f"spin{n}.Hc.conj_trans", hcd, with_layout=True)
        out(f"[spin{n}.Hc.conj_trans] shares_memory="
            f"{[bool(np.shares_memory(hc[i].array, hcd[i].array)) for i in range(n)]}")
        mp_digest(f"spin{n}.Hc.orig", hc, dense=False, with_layout=True)
        # operator with non-zero total quantum number
        op = Mpo(model, Op("sigma_+", 0, 0.5, qn=-2))
        mp_digest(f"spin{n}.sp", op, dense=False)
        opd = op.conj_trans()
        mp_digest(f"spin{n}.sp.conj_trans", opd, with_layout=True)
        for hist in ["cano1", "compress", "mid1", "left"]:
            opd = attempt("spin.sp.hist", lambda: history(op, hist).conj_trans())
            if opd is not None:
                mp_digest(f"spin{n}.sp.{hist}.conj_trans", opd)
        # operator sums
        check_add(f"spin{n}.H+Hc", h.copy(), hc.copy())
        check_add(f"spin{n}.Hc+Hdag", hc.copy(), hcd.copy())
        check_add(f"spin{n}.Hcano+H", history(h, "cano1"), history(hc, "compress"))
        check_add(f"spin{n}.H+sp", h.copy(), op.copy())  # qntot mismatch
        check_add(f"spin{n}.sp+sp", history(op, "mid1"), history(op, "left"))
        # operator times state, then added
        hs = h @ sa
        check_add(f"spin{n}.Hs+s", hs, history(sbc, "cano1"))
        # Mpo + Mps is a type confusion; must fail identically
        check_add(f"spin{n}.H+s", h.copy(), sa.copy(), dense=False)
        check_add(f"spin{n}.s+H", sa.copy(), h.copy(), dense=False)

    # ============================================================ two quantum numbers
    np.random.seed(11)
    model = two_qn_model()
    ta = Mps.random(model, np.array([1, 2]), 6)
    tb = Mps.random(model, np.array([1, 2]), 4)
    tb.coeff = -1.0
    tbc = tb.to_complex().scale(0.1 + 0.2j)
    for h1, h2 in [("fresh", "cano1"), ("mid2", "mid4"), ("compress", "right"), ("left", "fresh")]:
        check_add(f"2qn.rr.{h1}.{h2}", history(ta, h1), history(tb, h2))
        check_add(f"2qn.cr.{h1}.{h2}", history(tbc, h1), history(ta, h2))
        a, b = history(ta, h1), history(tbc, h2)
        out(f"[2qn.dist.{h1}.{h2}] {round(a.distance(b), 8)}")
        mp_digest(f"2qn.dist.{h1}.{h2}.rhs", b, dense=False)
    h = Mpo(model)
    mp_digest("2qn.H.conj_trans", h.conj_trans(), with_layout=True)
    cre = Mpo(model, Op(r"a^\dagger", "b1", 1.0, qn=[[0, 1]]))
    cred = cre.conj_trans()
    mp_digest("2qn.cre.conj_trans", cred, with_layout=True)
    mp_digest("2qn.cre.cano.conj_trans", history(cre, "cano2").conj_trans())
    mp_digest("2qn.cre.mid3.conj_trans", history(cre, "mid3").conj_trans())
    check_add("2qn.cre+cre", cre.copy(), history(cre, "compress"))
    check_add("2qn.cred+cre", cred, cre.copy())
    check_add("2qn.H+Hdag", history(h, "mid2"), h.conj_trans())
    prod = cre.conj_trans() @ cre
    mp_digest("2qn.credcre", prod)
    mp_digest("2qn.credcre.ct", prod.conj_trans())

    # ============================================================ SHO model without symmetry, with MpDm
    np.random.seed(5)
    for nsite in [1, 2, 4]:
        model = sho_model(nsite)
        va = Mps.random(model, 0, 4)
        vb = Mps.random(model, 0, 2)
        vb.coeff = 0.7
        check_add(f"sho{nsite}.rr", va.copy(), vb.copy())
        check_add(f"sho{nsite}.rr.hist", history(va, "cano1"), history(vb, "compress"))
        da = MpDm.from_mps(va)
        db = MpDm.from_mps(vb)
        out(f"[sho{nsite}.mpdm] flags {da.is_mps} {da.is_mpo} {da.is_mpdm}")
        check_add(f"sho{nsite}.mpdm", da.copy(), db.copy())
        dbc = db.to_complex().scale(1j)
        check_add(f"sho{nsite}.mpdm.c", history(da, "cano1"), history(dbc, "compress"))
        x, y = da.copy(), dbc.copy()
        out(f"[sho{nsite}.mpdm.dist] {round(x.distance(y), 8)}")
        mp_digest(f"sho{nsite}.mpdm.dist.lhs", x, dense=False)
        mp_digest(f"sho{nsite}.mpdm.dist.rhs", y, dense=False)
        attempt(f"sho{nsite}.mpdm.conj_trans", lambda: da.conj_trans())
        h = Mpo(model)
        hd = h.conj_trans()
        mp_digest(f"sho{nsite}.H.conj_trans", hd, with_layout=True)
        thermal = da.apply(h)
        check_add(f"sho{nsite}.mpdm.apply", thermal, history(db, "cano1"))
        # density operator + operator: both four-index
        check_add(f"sho{nsite}.mpdm+H", da.copy(), h.copy())
        check_add(f"sho{nsite}.H+mpdm", h.copy(), da.copy())

    # ============================================================ multi electron basis
    np.random.seed(3)
    basis = [BasisMultiElectron(["e0", "e1", "e2"], [0, 1, 1]), BasisSHO("v0", 1.0, 3), BasisSHO("v1", 1.2, 3)]
    ham = [Op(r"a^\dagger a", ["e1", "e1"], 1.0), Op(r"a^\dagger a", ["e2", "e2"], 1.1),
           Op(r"a^\dagger a", ["e1", "e2"], 0.2), Op(r"a^\dagger a", ["e2", "e1"], 0.2),
           Op(r"b^\dagger b", "v0", 1.0), Op(r"b^\dagger b", "v1", 1.2),
           Op(r"a^\dagger a x", ["e1", "e1", "v0"], 0.3)]
    model = Model(basis, ham)
    ma = Mps.random(model, 1, 5)
    mb = Mps.random(model, 1, 3).to_complex().scale(np.exp(0.3j))
    check_add("multi.rc", history(ma, "cano1"), history(mb, "mid1"))
    h = Mpo(model)
    mp_digest("multi.H.conj_trans", h.conj_trans(), with_layout=True)
    up = Mpo(model, Op(r"a^\dagger a", ["e1", "e0"], 1.0))
    mp_digest("multi.up.conj_trans", up.conj_trans(), with_layout=True)
    check_add("multi.up+up", up.copy(), history(up, "cano1"))

    text = "\n".join(LINES)
    print(text)
    print("TOTAL_LINES", len(LINES))
    print("DIGEST", hashlib.md5(text.encode()).hexdigest())


if __name__ == "__main__":
    main()
