"""Equivalence check for the refactoring of
MatrixProduct.conj / MatrixProduct.scale / MatrixProduct.metacopy / Mpo.metacopy.

Prints a deterministic digest; run before and after the change and diff the output.
"""
import os
import shutil
import tempfile
import logging

import numpy as np

logging.disable(logging.CRITICAL)

from renormalizer.model import Model, Op
from renormalizer.model import basis as ba
from renormalizer.mps import Mps, Mpo, MpDm
from renormalizer.mps.mp import MatrixProduct
from renormalizer.mps.matrix import Matrix
from renormalizer.mps.backend import backend
from renormalizer.utils import CompressConfig, CompressCriteria, Quantity
from renormalizer.tests.parameter import holstein_model, holstein_model4


def rnd(x):
    x = np.asarray(x)
    if np.iscomplexobj(x):
        return np.round(x.real, 8) + 0.0 + 1j * (np.round(x.imag, 8) + 0.0)
    return np.round(x.astype(float), 8) + 0.0


def arr_digest(a):
    a = np.asarray(a)
    flat = rnd(a).ravel()
    w = np.arange(1, flat.size + 1) / max(flat.size, 1)
    return (a.shape, str(a.dtype), complex(np.round(flat.sum(), 7)), complex(np.round((flat * w).sum(), 7)),
            float(np.round(np.abs(flat).sum(), 7)))


def scalar_digest(v):
    return (type(v).__name__, complex(np.round(complex(v), 10)))


def mp_digest(mp, with_data=True):
    out = [type(mp).__name__, str(mp.dtype), mp.qnidx, mp.to_right]
    out.append(None if mp.qntot is None else (type(mp.qntot).__name__, np.asarray(mp.qntot).tolist()))
    out.append(None if mp.qn is None else [(type(q).__name__, np.asarray(q).tolist()) for q in mp.qn])
    out.append(len(mp))
    if hasattr(mp, "coeff"):
        out.append(("coeff", scalar_digest(mp.coeff)))
    for attr in ["scheme", "offset", "symbolic_out_ops_list", "primary_ops"]:
        if hasattr(mp, attr):
            v = getattr(mp, attr)
            out.append((attr, type(v).__name__, repr(v)[:300]))
        else:
            out.append((attr, "<missing>"))
    out.append(sorted(k for k in mp.__dict__.keys()))
    cc = mp.compress_config
    out.append((cc.criteria.name, cc.threshold, None if cc.max_dims is None else list(cc.max_dims),
                cc.dump_matrix_size))
    if with_data:
        for i in range(len(mp)):
            raw = mp._mp[i]
            kind = type(raw).__name__
            mt = mp[i]
            if mt is None:
                out.append((i, kind, None))
            else:
                sq = mt.sigmaqn
                out.append((i, kind, arr_digest(mt.array), mt.original_shape,
                            None if sq is None else arr_digest(sq)))
    return out


def relation(new, old):
    """identity / aliasing relations between a result and its source"""
    out = []
    out.append(("same_obj", new is old))
    out.append(("model_is", new.model is old.model))
    out.append(("model_basis_is", new.model.basis is old.model.basis))
    out.append(("cc_is", new.compress_config is old.compress_config))
    if old.compress_config.max_dims is not None:
        out.append(("cc_maxdims_is", new.compress_config.max_dims is old.compress_config.max_dims))
    if new.qn is not None and old.qn is not None:
        out.append(("qn_is", new.qn is old.qn, [a is b for a, b in zip(new.qn, old.qn)]))
    out.append(("qntot_is", new.qntot is old.qntot))
    for attr in ["optimize_config", "evolve_config", "scheme", "offset", "symbolic_out_ops_list", "primary_ops"]:
        if hasattr(old, attr) or hasattr(new, attr):
            out.append((attr, hasattr(new, attr), hasattr(old, attr),
                        getattr(new, attr, 1) is getattr(old, attr, 2)))
    al = []
    for i in range(min(len(new), len(old))):
        a, b = new._mp[i], old._mp[i]
        if isinstance(a, Matrix) and isinstance(b, Matrix):
            al.append((a is b, bool(np.shares_memory(a.array, b.array))))
        else:
            al.append((type(a).__name__, type(b).__name__, a is b if not isinstance(a, str) else "str"))
    out.append(("mt_alias", al))
    return out


def show(tag, *vals):
    print(tag)
    for v in vals:
        if isinstance(v, list):
            for item in v:
                print("    ", item)
        else:
            print("    ", v)


def attempt(tag, func):
    try:
        res = func()
    except BaseException as e:  # noqa
        print(tag, "-> EXC", type(e).__name__, str(e)[:120])
        return None
    return res


def make_states():
    states = {}
    np.random.seed(11)
    m = Mps.random(holstein_model, 1, 6, percent=1.0)
    m.coeff = 1
    states["real_q1_left"] = m

    np.random.seed(12)
    m = Mps.random(holstein_model, 1, 5, percent=1.0)
    m = m.to_complex()
    for i in range(len(m)):
        arr = m[i].array
        ph = np.exp(1j * (0.3 * i + 0.1))
        m[i] = arr * ph
    m.coeff = 0.5 - 0.25j
    states["cplx_q1"] = m

    np.random.seed(13)
    m = Mps.random(holstein_model, 0, 4, percent=1.0)
    m.coeff = 2.0
    states["real_q0"] = m

    np.random.seed(14)
    m = Mps.random(holstein_model4, 1, 7, percent=1.0)
    m.coeff = np.complex128(0.3 + 0.7j)
    m.ensure_left_canonical()
    states["scheme4_canon_right"] = m

    np.random.seed(15)
    m = Mps.random(holstein_model, 1, 6, percent=1.0)
    m.compress_config = CompressConfig(CompressCriteria.fixed, max_bonddim=3)
    m.compress_config.set_bonddim(len(m) + 1)
    m.move_qnidx(3)
    m.to_right = True
    states["centre3_fixedcc"] = m

    np.random.seed(16)
    m = Mps.random(holstein_model, 1, 6, percent=1.0)
    m.to_right = True
    m.move_qnidx(0)
    m.canonicalise(stop_idx=4)
    m.coeff = -1.5
    states["mixed_canon_stop4"] = m
    return states


def make_two_qn_model():
    up, dn = [[0, 0], [1, 0]], [[0, 0], [0, 1]]
    basis = [ba.BasisSimpleElectron("u0", up), ba.BasisSimpleElectron("d0", dn),
             ba.BasisHalfSpin("s", [[0, 0], [0, 0]]),
             ba.BasisSimpleElectron("u1", up), ba.BasisSimpleElectron("d1", dn),
             ba.BasisSimpleElectron("u2", up)]
    qu, qd, q0 = [[1, 0], [-1, 0]], [[0, 1], [0, -1]], [0, 0]
    ham = (Op(r"a^\dagger a", ["u0", "u1"], 0.1, qu) + Op(r"a^\dagger a", ["u1", "u0"], 0.1, qu)
           + Op(r"a^\dagger a", ["u1", "u2"], 0.15, qu) + Op(r"a^\dagger a", ["u2", "u1"], 0.15, qu)
           + Op(r"a^\dagger a", ["d0", "d1"], 0.2, qd) + Op(r"a^\dagger a", ["d1", "d0"], 0.2, qd)
           + Op(r"a^\dagger a", ["u0", "u0"], 0.3, qu) + Op(r"a^\dagger a", ["d1", "d1"], 0.4, qd)
           + Op("sigma_x", "s", 0.7, [q0]) + Op("sigma_z", "s", 0.2, [q0])
           + Op(r"a^\dagger a sigma_x", ["u2", "u2", "s"], 0.25, qu + [q0]))
    return Model(basis, ham)


def make_operators():
    ops = {}
    ops["ham"] = Mpo(holstein_model)
    ops["ham4"] = Mpo(holstein_model4)
    ops["offset"] = Mpo(holstein_model, offset=Quantity(holstein_model.gs_zpe * 0.5))
    ops["onsite_ad"] = Mpo.onsite(holstein_model, r"a^\dagger")
    ops["identity"] = Mpo.identity(holstein_model)
    o = Mpo(holstein_model).to_complex()
    for i in range(len(o)):
        o[i] = o[i].array * np.exp(0.2j * (i + 1))
    ops["cplx_ham"] = o
    o = Mpo(holstein_model)
    o.ensure_left_canonical()
    ops["ham_canon"] = o
    return ops


def exercise(tag, mp, scalars):
    show(f"[{tag}] source", mp_digest(mp))
    # ---- metacopy
    mc = mp.metacopy()
    show(f"[{tag}] metacopy", mp_digest(mc), relation(mc, mp))
    # mutate the metacopy: the source must not follow
    if mc.qn:
        mc.qn[0][0] = 7 if isinstance(mc.qn[0], list) else mc.qn[0][0] + 7
    mc.qntot += 3
    mc.compress_config.threshold = 0.123
    show(f"[{tag}] source after mutating metacopy", mp_digest(mp, with_data=False))
    # ---- conj
    cj = mp.conj()
    show(f"[{tag}] conj", mp_digest(cj), relation(cj, mp))
    cjcj = cj.conj()
    show(f"[{tag}] conj.conj", mp_digest(cjcj))
    show(f"[{tag}] <conj|mp>", scalar_digest(cj.dot(mp)))
    # ---- scale (copy)
    for val in scalars:
        label = f"[{tag}] scale({type(val).__name__} {val!r})"
        res = attempt(label, lambda: mp.scale(val))
        if res is not None:
            show(label, mp_digest(res), relation(res, mp))
            show(label + " source untouched", mp_digest(mp))
    # ---- scale (inplace) on copies
    for val in scalars:
        label = f"[{tag}] scale_inplace({type(val).__name__} {val!r})"
        cp = mp.copy()
        res = attempt(label, lambda: cp.scale(val, inplace=True))
        show(label + " target", mp_digest(cp))
        if res is not None:
            show(label, ("returns_self", res is cp))
    # operators via __mul__ / __rmul__ / __sub__ use scale
    res = attempt(f"[{tag}] mul", lambda: mp * 0.5)
    if res is not None:
        show(f"[{tag}] mul 0.5", mp_digest(res))
    res = attempt(f"[{tag}] rmul", lambda: (2 - 1j) * mp)
    if res is not None:
        show(f"[{tag}] rmul 2-1j", mp_digest(res))
    res = attempt(f"[{tag}] sub", lambda: mp - mp.scale(0.25))
    if res is not None:
        show(f"[{tag}] sub", mp_digest(res))
    res = attempt(f"[{tag}] mul int", lambda: mp * 2)
    show(f"[{tag}] mul int", res is None)


def main():
    scalars = [2.0, -0.5, 3, 1 + 0j, 0.5 - 2j, np.float64(1.5), np.complex128(0.25 + 0.75j),
               np.complex128(2 + 0j), np.array(1.25), np.array([2.0]), np.array([1j]), True, 0.0]

    states = make_states()
    for tag, mp in states.items():
        exercise("mps:" + tag, mp, scalars)

    ops = make_operators()
    for tag, mp in ops.items():
        exercise("mpo:" + tag, mp, scalars[:7])

    # density operators
    dm = MpDm.max_entangled_ex(holstein_model)
    exercise("mpdm:ex", dm, scalars[:7])
    dm = MpDm.max_entangled_gs(holstein_model4)
    dm.coeff = 1j
    exercise("mpdm:gs4", dm, scalars[:7])
    dm2 = Mpo(holstein_model) @ MpDm.max_entangled_ex(holstein_model)
    exercise("mpdm:H@ex", dm2, scalars[:5])

    # two quantum numbers, non-zero sectors
    model2 = make_two_qn_model()
    np.random.seed(21)
    m2 = Mps.random(model2, np.array([1, 1]), 5, percent=1.0)
    exercise("mps:2qn", m2, scalars[:7])
    m2.move_qnidx(1)
    exercise("mps:2qn_centre1", m2, scalars[:5])
    o2 = Mpo(model2)
    exercise("mpo:2qn", o2, scalars[:5])
    o2.qn = [np.asarray(q).tolist() for q in o2.qn]  # qn as nested lists (as after `load`)
    show("[mpo:2qn listqn] metacopy", mp_digest(o2.metacopy()), relation(o2.metacopy(), o2))
    show("[mpo:2qn listqn] conj", mp_digest(o2.conj()))
    show("[mpo:2qn listqn] scale", mp_digest(o2.scale(-2.0)))

    # Mpo with hand-set / missing optional attributes
    o = Mpo(holstein_model)
    o.scheme = {"a": [1, 2, {"b": 3}]}
    o.primary_ops = [[Op("x", "v_0"), Op("p", "v_1")], ["text"]]
    o.symbolic_out_ops_list = None
    del o.offset
    mc = o.metacopy()
    show("[mpo:custom attrs] metacopy", mp_digest(mc), relation(mc, o),
         ("deep", mc.scheme["a"] is o.scheme["a"], mc.scheme["a"][2] is o.scheme["a"][2],
          mc.primary_ops[0] is o.primary_ops[0], mc.primary_ops[0][0] is o.primary_ops[0][0]))
    mc.scheme["a"][2]["b"] = 99
    show("[mpo:custom attrs] source scheme", repr(o.scheme))
    show("[mpo:custom attrs] conj", mp_digest(o.conj(), with_data=False))
    show("[mpo:custom attrs] scale", mp_digest(o.scale(1j), with_data=False))

    # empty objects / placeholders / failures
    for cls in (Mps, Mpo, MpDm):
        e = cls.__new__(cls)
        attempt(f"[{cls.__name__} bare __new__] metacopy", e.metacopy)
        e = cls()
        attempt(f"[{cls.__name__} fresh] metacopy", e.metacopy)
        attempt(f"[{cls.__name__} fresh] conj", e.conj)
        attempt(f"[{cls.__name__} fresh] scale", lambda: e.scale(2.0))
        e.model = holstein_model
        attempt(f"[{cls.__name__} fresh+model] metacopy", e.metacopy)
        e.qntot = np.array([0])
        r = attempt(f"[{cls.__name__} fresh+model+qntot] metacopy", e.metacopy)
        if r is not None:
            show(f"[{cls.__name__} empty] metacopy", mp_digest(r), relation(r, e))
        r = attempt(f"[{cls.__name__} empty] conj", e.conj)
        if r is not None:
            show(f"[{cls.__name__} empty] conj", mp_digest(r))
        attempt(f"[{cls.__name__} empty] scale", lambda: e.scale(2.0))
        e.qnidx = 0
        attempt(f"[{cls.__name__} empty qnidx0] scale", lambda: e.scale(2.0))
        attempt(f"[{cls.__name__} empty qnidx0] scale inplace", lambda: e.scale(2.0, inplace=True))

    src = states["real_q1_left"]
    ph = src.metacopy()
    attempt("[placeholders] conj", ph.conj)
    attempt("[placeholders] scale", lambda: ph.scale(2.0))
    attempt("[placeholders] scale inplace", lambda: ph.scale(2.0, inplace=True))
    attempt("[placeholders] scale inplace complex", lambda: ph.scale(2.0j, inplace=True))
    show("[placeholders] after failures", mp_digest(ph))
    mcmc = ph.metacopy()
    show("[placeholders] metacopy of metacopy", mp_digest(mcmc), relation(mcmc, ph))

    nq = src.copy()
    nq.build_none_qn()
    attempt("[none qn] metacopy", nq.metacopy)
    attempt("[none qn] conj", nq.conj)
    attempt("[none qn] scale", lambda: nq.scale(2.0))
    nq.qn = [np.zeros((d, 1), dtype=int) for d in nq.bond_dims]
    attempt("[none qntot] metacopy", nq.metacopy)
    nq.qntot = np.array([1])
    attempt("[none qnidx] scale", lambda: nq.scale(2.0))
    r = attempt("[none qnidx] conj", nq.conj)
    if r is not None:
        show("[none qnidx] conj", mp_digest(r))
    nq.qnidx = -1
    r = attempt("[qnidx -1] scale", lambda: nq.scale(2.0 + 1j))
    if r is not None:
        show("[qnidx -1] scale", mp_digest(r))
    nq.qnidx = len(nq)
    attempt("[qnidx out of range] scale", lambda: nq.scale(2.0))
    attempt("[qnidx out of range] scale inplace cplx", lambda: nq.scale(2.0j, inplace=True))
    show("[qnidx out of range] after failed inplace", mp_digest(nq))

    # zero centre matrix: assertion; complex factor converts before failing
    z = src.copy()
    z[z.qnidx] = np.zeros(z[z.qnidx].shape)
    attempt("[zero centre] scale", lambda: z.scale(2.0))
    attempt("[zero centre] scale inplace complex", lambda: z.scale(1j, inplace=True))
    show("[zero centre] after failed inplace", mp_digest(z))
    attempt("[bad factor] str", lambda: src.scale("2"))
    attempt("[bad factor] None", lambda: src.scale(None))
    attempt("[bad factor] vec", lambda: src.scale(np.array([1.0, 2.0])))
    attempt("[bad factor] list", lambda: src.scale([2.0]))
    show("[bad factor] source", mp_digest(src))

    # matrices dumped to disk (strings in _mp)
    tmpdir = tempfile.mkdtemp(prefix="equiv_C03rj_")
    try:
        for name in ["cplx_q1", "centre3_fixedcc"]:
            d = states[name].copy()
            d.compress_config.dump_matrix_dir = tmpdir
            d.compress_config.dump_matrix_size = 200
            for i in range(len(d)):
                d[i] = d[i].array
            show(f"[dump {name}] source", mp_digest(d))
            mc = d.metacopy()
            show(f"[dump {name}] metacopy", mp_digest(mc), relation(mc, d))
            cj = d.conj()
            show(f"[dump {name}] conj", mp_digest(cj), relation(cj, d))
            sc = d.scale(0.5 + 0.5j)
            show(f"[dump {name}] scale", mp_digest(sc), relation(sc, d))
            sc = d.scale(-3.0, inplace=True)
            show(f"[dump {name}] scale inplace", mp_digest(d), ("self", sc is d))
            nfiles = sorted(len(os.listdir(os.path.join(tmpdir, x))) for x in os.listdir(tmpdir))
            show(f"[dump {name}] files", nfiles)
            del mc, cj, sc, d
        import gc
        gc.collect()
        show("[dump] left-over dirs", len(os.listdir(tmpdir)))
    finally:
        shutil.rmtree(tmpdir, ignore_errors=True)

    # arithmetic chains against dense algebra (small model so that todense works)
    np.random.seed(31)
    a = Mps.random(model2, np.array([1, 1]), 4, percent=1.0)
    np.random.seed(32)
    b = Mps.random(model2, np.array([1, 1]), 6, percent=1.0).to_complex()
    for i in range(len(b)):
        b[i] = b[i].array * np.exp(0.4j * (i + 1))
    b.coeff = 1.0
    np.random.seed(33)
    c = Mps.random(model2, np.array([1, 1]), 5, percent=1.0)
    c.to_right = True
    c.move_qnidx(0)
    c.canonicalise(stop_idx=3)
    h = Mpo(model2)
    hc = Mpo(model2).to_complex()
    for i in range(len(hc)):
        hc[i] = hc[i].array * np.exp(0.2j * (i + 1))
    chain = (a.scale(0.3) + b.scale(1j) - c).conj()
    show("[chain] dense", arr_digest(chain.todense()))
    ref = np.conj(0.3 * a.todense() + 1j * b.todense() - c.todense())
    show("[chain] agrees", bool(np.allclose(chain.todense(), ref)))
    chain = chain.ensure_right_canonical().scale(-2.0).conj()
    show("[chain2] dense", arr_digest(chain.todense()), bool(np.allclose(chain.todense(), -2.0 * np.conj(ref))))
    hs = (h.scale(0.5j) @ b).conj()
    show("[chain3] dense", arr_digest(hs.todense()),
         bool(np.allclose(hs.todense(), np.conj(0.5j * h.todense() @ b.todense()))))
    hh = h.scale(2.0).conj() @ hc.scale(1j).conj()
    show("[chain4] dense", arr_digest(hh.todense()),
         bool(np.allclose(hh.todense(), 2 * h.todense() @ np.conj(1j * hc.todense()))))
    show("[chain5] dist/angle", float(np.round(a.distance(b.scale(0.5)), 8)), float(np.round(a.angle(c), 8)),
         float(np.round(a.scale(3.0).norm, 8)))
    for k in range(len(c)):
        cc_ = c.copy()
        cc_.move_qnidx(k)
        sc = cc_.scale(1.0 - 0.5j)
        show(f"[chain6] centre {k}", arr_digest(sc.todense()),
             bool(np.allclose(sc.todense(), (1.0 - 0.5j) * c.todense())),
             bool(np.allclose(cc_.conj().todense(), np.conj(c.todense()))))


if __name__ == "__main__":
    main()
