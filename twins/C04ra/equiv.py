"""Equivalence digest for the C04 refactoring (canonicalise / compress / _update_ms / add_outer)."""
import hashlib
import logging

import numpy as np

logging.disable(logging.CRITICAL)

from renormalizer.model import Model, Op
from renormalizer.model.basis import BasisSHO, BasisSimpleElectron, BasisHalfSpin, BasisMultiElectron
from renormalizer.mps import Mps, Mpo, MpDm
from renormalizer.mps.svd_qn import add_outer
from renormalizer.utils import CompressConfig, CompressCriteria
from renormalizer.tests import parameter


def h(arr):
    arr = np.asarray(arr)
    return hashlib.sha256(np.ascontiguousarray(arr).tobytes()).hexdigest()[:12]


def darr(arr):
    arr = np.asarray(arr)
    rounded = np.round(arr, 9) + 0.0
    return (f"shape={arr.shape} dtype={arr.dtype} C={arr.flags.c_contiguous} F={arr.flags.f_contiguous} "
            f"own={arr.flags.owndata} raw={h(arr)} rnd={h(rounded)} "
            f"sum={np.round(complex(np.sum(arr)), 8)} abs={np.round(float(np.sum(np.abs(arr))), 8)}")


def dmp(tag, mp):
    print(f"## {tag}: cls={type(mp).__name__} n={len(mp)} qnidx={mp.qnidx} to_right={mp.to_right} "
          f"qntot={np.asarray(mp.qntot).tolist()} coeff={np.round(complex(getattr(mp, "coeff", 1)), 10)} dtype={mp.dtype}")
    print("   bond_dims", list(mp.bond_dims))
    for i, mt in enumerate(mp):
        print(f"   site {i}: {darr(mt.array)} oshape={mt.original_shape}")
    for i, qn in enumerate(mp.qn):
        qn = np.asarray(qn)
        print(f"   qn {i}: shape={qn.shape} dtype={qn.dtype.kind} {qn.tolist()}")


def attempt(tag, fn):
    try:
        return fn()
    except Exception as e:  # digest the exception type, too
        print(f"## {tag}: raised {type(e).__name__}: {str(e)[:80]}")
        return None


# ---------------------------------------------------------------- add_outer
print("# add_outer")
rng = np.random.RandomState(7)
cases = [
    (rng.randint(-3, 4, size=(4, 1)), rng.randint(-3, 4, size=(3, 1))),
    (rng.randint(-3, 4, size=(4, 2)), rng.randint(-3, 4, size=(3, 2))),
    (rng.randint(-3, 4, size=(2, 3, 2)), rng.randint(-3, 4, size=(5, 2))),
    (rng.randint(-3, 4, size=(2, 3, 3)), rng.randint(-3, 4, size=(2, 2, 3))),
    (rng.randint(-3, 4, size=(1, 1)), rng.randint(-3, 4, size=(1, 1))),
    (rng.randint(-3, 4, size=(3,)), rng.randint(-3, 4, size=(3,))),
    (rng.randint(-3, 4, size=(0, 2)), rng.randint(-3, 4, size=(3, 2))),
    (rng.randint(-3, 4, size=(3, 0)), rng.randint(-3, 4, size=(2, 0))),
    (rng.rand(3, 2), rng.randint(-3, 4, size=(2, 2))),
    (rng.randint(-3, 4, size=(4, 2))[::2], rng.randint(-3, 4, size=(2, 3)).T),
]
for k, (a, b) in enumerate(cases):
    def run(a=a, b=b):
        res = add_outer(a, b)
        print(f"  case {k}: {darr(res)} strides={res.strides} base_is_none={res.base is None}")
        print("    ", res.tolist())
        # downstream use: reshape like the callers do
        if res.size:
            print("    reshaped", res.reshape(-1, res.shape[-1]).tolist())
    attempt(f"add_outer case {k}", run)
attempt("add_outer mismatch", lambda: add_outer(np.zeros((2, 1), int), np.zeros((2, 2), int)))


# ---------------------------------------------------------------- models
def two_qn_model():
    basis = []
    for i in range(3):
        basis.append(BasisSimpleElectron(f"a{i}", sigmaqn=[[0, 0], [1, 0]]))
        basis.append(BasisSimpleElectron(f"b{i}", sigmaqn=[[0, 0], [0, 1]]))
        basis.append(BasisSHO(f"v{i}", 1.0, 3))
    # BasisSHO default qn has one entry; give explicit two-qn zeros if necessary
    return basis


def make_two_qn_model():
    basis = []
    for i in range(3):
        basis.append(BasisSimpleElectron(f"a{i}", sigmaqn=[[0, 0], [1, 0]]))
        basis.append(BasisSimpleElectron(f"b{i}", sigmaqn=[[0, 0], [0, 1]]))
        basis.append(BasisHalfSpin(f"s{i}", sigmaqn=[[0, 0], [0, 0]]))
    ham = []
    for i in range(2):
        ham.append(Op(r"a^\dagger a", [f"a{i}", f"a{i+1}"], 0.3, qn=[[1, 0], [-1, 0]]))
        ham.append(Op(r"a^\dagger a", [f"a{i+1}", f"a{i}"], 0.3, qn=[[1, 0], [-1, 0]]))
        ham.append(Op(r"a^\dagger a", [f"b{i}", f"b{i+1}"], 0.2, qn=[[0, 1], [0, -1]]))
        ham.append(Op(r"a^\dagger a", [f"b{i+1}", f"b{i}"], 0.2, qn=[[0, 1], [0, -1]]))
    for i in range(3):
        ham.append(Op("sigma_x", f"s{i}", 0.5, qn=[[0, 0]]))
        ham.append(Op(r"a^\dagger a", [f"a{i}", f"a{i}"], 0.1 * (i + 1), qn=[[1, 0], [-1, 0]]))
        ham.append(Op(r"a^\dagger a sigma_z", [f"b{i}", f"b{i}", f"s{i}"], 0.7, qn=[[0, 1], [0, -1], [0, 0]]))
    return Model(basis, ham)


def one_site_model():
    return Model([BasisSHO("v", 1.0, 4)], [Op(r"b^\dagger b", "v", 1.0)])


def two_site_model():
    return Model([BasisSimpleElectron("e"), BasisSHO("v", 1.0, 3)],
                 [Op(r"a^\dagger a", "e", 1.0), Op(r"b^\dagger b", "v", 0.5),
                  Op(r"a^\dagger a", "e", 0.2) * Op(r"b^\dagger+b", "v")])


holstein = parameter.holstein_model
holstein4 = parameter.holstein_model4
model2qn = attempt("make two qn model", make_two_qn_model)


def set_dir(mp, to_right):
    """put the qn centre at the start site of a sweep in the requested direction"""
    mp.move_qnidx(0 if to_right else mp.site_num - 1)
    mp.to_right = to_right
    return mp


def randomize_complex(mp, seed):
    rs = np.random.RandomState(seed)
    mp = mp.to_complex()
    for i in range(len(mp)):
        arr = mp[i].array
        mask = arr != 0
        phase = np.exp(1j * rs.rand(*arr.shape) * 2 * np.pi)
        mp[i] = arr * np.where(mask, phase, 1)
    return mp


# ---------------------------------------------------------------- _update_ms directly
print("# _update_ms direct")


def direct_update_ms():
    for cls_tag in ["mps", "mpo", "mpdm"]:
        for to_right in [True, False]:
            for with_sigma in [True, False]:
                for m_trunc in [None, 2, 1]:
                    for cplx in [False, True]:
                        np.random.seed(11)
                        if cls_tag == "mps":
                            mp = Mps.random(holstein, 1, 6, percent=1.0)
                        elif cls_tag == "mpo":
                            mp = Mpo(holstein)
                        else:
                            mp = MpDm.max_entangled_ex(holstein)
                        if cplx:
                            mp = randomize_complex(mp, 5)
                        set_dir(mp, to_right)
                        idx = 3 if to_right else 4
                        mp.qnidx = idx
                        rs = np.random.RandomState(3)
                        mt = mp[idx]
                        pprod = int(np.prod(mt.shape[1:-1]))
                        if to_right:
                            rows, cols = mt.shape[0] * pprod, mt.shape[-1]
                        else:
                            rows, cols = mt.shape[0], pprod * mt.shape[-1]
                        k = min(rows, cols, 4)
                        u = rs.rand(rows, k) - 0.5
                        v = rs.rand(cols, k) - 0.5
                        if cplx:
                            u = u + 1j * rs.rand(rows, k)
                            v = v + 1j * rs.rand(cols, k)
                        sigma = np.sort(rs.rand(k))[::-1] if with_sigma else None
                        qnl = [[int(x)] for x in rs.randint(0, 2, size=k)]
                        qnr = [[int(x)] for x in rs.randint(0, 2, size=k)]
                        u_in, vt_in = u.copy(), v.T
                        tag = f"{cls_tag} to_right={to_right} sigma={with_sigma} m_trunc={m_trunc} cplx={cplx}"

                        def run():
                            ret = mp._update_ms(idx, u_in, vt_in, sigma, qnl, qnr, m_trunc)
                            print(f"## {tag}: ret={ret!r}")
                            # argument mutation is part of the behaviour
                            print("   u_in ", darr(u_in))
                            print("   vt_in", darr(vt_in))
                            if sigma is not None:
                                print("   sigma", darr(sigma))
                            dmp(tag, mp)
                        attempt(tag, run)
    # qnlset / qnrset None: qn and qnidx untouched
    for to_right in [True, False]:
        np.random.seed(12)
        mp = set_dir(Mps.random(holstein, 1, 5), to_right)
        idx = 2
        mp.qnidx = idx
        rs = np.random.RandomState(4)
        mt = mp[idx]
        if to_right:
            rows, cols = mt.shape[0] * mt.shape[1], mt.shape[2]
        else:
            rows, cols = mt.shape[0], mt.shape[1] * mt.shape[2]
        k = min(rows, cols)
        u = rs.rand(rows, k)
        vt = rs.rand(k, cols)
        attempt("noqn", lambda: mp._update_ms(idx, u, vt, sigma=rs.rand(k)))
        dmp(f"noqn to_right={to_right}", mp)
    # all-zero result triggers the assertion
    np.random.seed(13)
    mp = set_dir(Mps.random(holstein, 1, 5), True)
    mp.qnidx = 2
    mt = mp[2]
    attempt("zero u", lambda: mp._update_ms(2, np.zeros((mt.shape[0] * mt.shape[1], 2)), np.ones((2, mt.shape[2])),
                                            np.ones(2), [[0], [1]], [[0], [1]]))


attempt("direct_update_ms", direct_update_ms)


# ---------------------------------------------------------------- canonicalise / _push_cano
print("# canonicalise / _push_cano")


def build_states():
    out = []
    np.random.seed(21)
    out.append(("holstein_rand_q1", Mps.random(holstein, 1, 8, percent=1.0)))
    out.append(("holstein_gs_maxent", Mps.ground_state(holstein, max_entangled=True)))
    np.random.seed(23)
    out.append(("holstein4_rand_q1", Mps.random(holstein4, 1, 10, percent=1.0)))
    np.random.seed(24)
    a = Mps.random(holstein, 1, 5, percent=1.0)
    b = Mps.random(holstein, 1, 3, percent=1.0)
    out.append(("sum_redundant", a + a + b))
    out.append(("sum_complex", randomize_complex(a + b.scale(0.3), 9)))
    mpo = Mpo(holstein)
    out.append(("mpo_holstein", mpo))
    out.append(("mpo_apply", mpo @ a))
    out.append(("mpo_sq", mpo @ mpo))
    out.append(("mpo_complex", randomize_complex(Mpo(holstein), 10)))
    out.append(("mpdm_ex", MpDm.max_entangled_ex(holstein)))
    out.append(("mpdm_gs", MpDm.max_entangled_gs(holstein)))
    out.append(("mpdm_applied", mpo @ MpDm.max_entangled_ex(holstein)))
    out.append(("hartree", Mps.hartree_product_state(holstein, {1: 1, (0, 1): 2})))
    if model2qn is not None:
        np.random.seed(25)
        out.append(("twoqn_rand_11", Mps.random(model2qn, np.array([1, 1]), 8, percent=1.0)))
        np.random.seed(26)
        c = Mps.random(model2qn, np.array([2, 1]), 6, percent=1.0)
        out.append(("twoqn_rand_21", c))
        out.append(("twoqn_mpo", Mpo(model2qn)))
        out.append(("twoqn_mpo_apply_cplx", randomize_complex(Mpo(model2qn) @ c, 14)))
    m1 = one_site_model()
    np.random.seed(27)
    out.append(("one_site", Mps.random(m1, 0, 3)))
    out.append(("one_site_mpo", Mpo(m1)))
    m2 = two_site_model()
    np.random.seed(28)
    out.append(("two_site", Mps.random(m2, 1, 3, percent=1.0)))
    out.append(("two_site_mpo", Mpo(m2)))
    return out


states = attempt("build_states", build_states) or []
for name, st in states:
    dmp(f"input {name}", st)

for name, st in states:
    for to_right in [True, False]:
        tag = f"cano {name} to_right={to_right}"

        def run():
            mp = set_dir(st.copy(), to_right)
            ret = mp.canonicalise()
            print(f"## {tag}: ret_is_self={ret is mp}")
            dmp(tag, mp)
            # second (opposite) sweep and idempotence
            ret = mp.canonicalise()
            dmp(tag + " twice", mp)
            mp.canonicalise().canonicalise()
            dmp(tag + " four", mp)
        attempt(tag, run)

        n = len(st)
        for stop in sorted({0, 1, n // 2, n - 2, n - 1}):
            tag2 = f"cano {name} to_right={to_right} stop={stop}"

            def run2():
                mp = set_dir(st.copy(), to_right)
                mp.canonicalise(stop)
                dmp(tag2, mp)
            attempt(tag2, run2)

        # a single push of the centre
        tag3 = f"push {name} to_right={to_right}"

        def run3():
            mp = set_dir(st.copy(), to_right)
            ret = mp._push_cano(mp.qnidx)
            print(f"## {tag3}: ret={ret!r}")
            dmp(tag3, mp)
            ret = mp._push_cano(mp.qnidx)
            dmp(tag3 + " second", mp)
        attempt(tag3, run3)

# wrong centre -> assertion in canonicalise / _push_cano
if states:
    mp = states[0][1].copy()
    mp.to_right = True
    attempt("cano wrong centre", lambda: mp.canonicalise())
    mp = set_dir(states[0][1].copy(), True)
    attempt("push wrong idx", lambda: mp._push_cano(2))
    mp = set_dir(states[0][1].copy(), True)
    mp[0] = np.zeros(mp[0].shape)
    attempt("push zero site", lambda: mp._push_cano(0))
    # ensure_* wrappers
    for name, st in states[:6]:
        for fn in ["ensure_left_canonical", "ensure_right_canonical"]:
            def run4():
                mp = st.copy()
                ret = getattr(mp, fn)()
                print(f"## {fn} {name}: ret_is_self={ret is mp}")
                dmp(f"{fn} {name}", mp)
                ret = getattr(mp, fn)()
                dmp(f"{fn} {name} again", mp)
            attempt(f"{fn} {name}", run4)


# ---------------------------------------------------------------- compress
print("# compress")


def configs(n):
    out = [
        ("thr1e-3", CompressConfig()),
        ("thr1e-8", CompressConfig(threshold=1e-8)),
        ("fixed3", CompressConfig(CompressCriteria.fixed, max_bonddim=3)),
        ("fixed100", CompressConfig(CompressCriteria.fixed, max_bonddim=100)),
        ("both", CompressConfig(CompressCriteria.both, threshold=1e-2, max_bonddim=4)),
    ]
    return out


for name, st in states:
    n = len(st)
    for to_right in [True, False]:
        for cname, cfg in configs(n):
            tag = f"compress {name} to_right={to_right} cfg={cname}"

            def run():
                mp = set_dir(st.copy(), to_right)
                mp.canonicalise()
                mp.compress_config = cfg.copy()
                ret = mp.compress()
                print(f"## {tag}: ret_is_self={ret is mp} max_dims={mp.compress_config.max_dims}")
                dmp(tag, mp)
                ret = mp.compress()
                dmp(tag + " twice", mp)
            attempt(tag, run)
        temp_list = [2] * (n + 1)
        temp_var = [1] + [1 + (i % 3) for i in range(n - 1)] + [1]
        for tname, temp in [("int3", 3), ("int1", 1), ("int1000", 1000), ("list2", temp_list),
                            ("tuple", tuple(temp_var)), ("ndarray", np.array(temp_var)),
                            ("npint", np.int64(2)), ("shortlist", [2])]:
            for ret_s in [False, True]:
                tag = f"compress {name} to_right={to_right} temp={tname} ret_s={ret_s}"

                def run2():
                    mp = set_dir(st.copy(), to_right)
                    mp.canonicalise()
                    ret = mp.compress(temp, ret_s=ret_s)
                    if ret_s:
                        ret_mp, s = ret
                        print(f"## {tag}: ret0_is_self={ret_mp is mp} s: {darr(s)}")
                        print("   s", np.round(s, 9).tolist())
                    else:
                        print(f"## {tag}: ret_is_self={ret is mp}")
                    dmp(tag, mp)
                attempt(tag, run2)
    # not canonicalised input / wrong centre -> AssertionError
    tag = f"compress {name} uncanonical"

    def run3():
        mp = st.copy()
        mp.compress()
        dmp(tag, mp)
    attempt(tag, run3)
    tag = f"compress {name} wrong centre"

    def run4():
        mp = st.copy()
        mp.to_right = not mp.to_right
        mp.compress()
        dmp(tag, mp)
    attempt(tag, run4)

# mps with bonddim_should_set configuration
if states:
    def run5():
        mp = set_dir(states[0][1].copy(), True).canonicalise()
        mp.compress_config = CompressConfig(CompressCriteria.fixed, max_bonddim=4)
        print("should_set", mp.compress_config.bonddim_should_set)
        mp.compress(ret_s=True)
        print("max_dims", mp.compress_config.max_dims)
        dmp("should_set", mp)
    attempt("should_set", run5)

# variational compression of operator-times-state
print("# variational compress")


def run_var():
    np.random.seed(31)
    mps = Mps.random(holstein, 1, 6, percent=1.0)
    mpo = Mpo(holstein)
    mps.compress_config = CompressConfig(CompressCriteria.fixed, max_bonddim=12)
    mps.compress_config.vprocedure = [[12, 1.0], [12, 0.0], [12, 0.0]]
    mps.compress_config.vmethod = "2site"
    np.random.seed(32)
    res = mps.variational_compress(mpo, guess=None)
    ref = mpo @ mps
    print("var 2site overlap", np.round(res.conj().dot(ref) / ref.conj().dot(ref), 6),
          "norm", np.round(res.norm, 6), list(res.bond_dims))


attempt("variational", run_var)
print("done")
