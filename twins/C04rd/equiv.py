# Equivalence check for the C04rd refactoring: exercises
#   MatrixProduct.ensure_left_canonical / ensure_right_canonical
#   MatrixProduct._switch_direction
#   MatrixProduct._get_big_qn
# and prints a deterministic digest.
import hashlib
import os
import logging

import numpy as np

logging.disable(logging.CRITICAL)
VERBOSE = bool(os.environ.get("EQUIV_VERBOSE"))

from renormalizer.model import Model, Op
from renormalizer.model.basis import BasisSimpleElectron, BasisSHO, BasisHalfSpin
from renormalizer.mps import Mps, Mpo, MpDm
from renormalizer.mps.mp import MatrixProduct
from renormalizer.tests.parameter import holstein_model, custom_model


def h(a):
    a = np.ascontiguousarray(np.asarray(a))
    if a.dtype.kind in "fc":
        a = np.round(a, 9) + 0.0
    return "%s%s:%s" % (a.dtype.kind, a.shape, hashlib.md5(a.tobytes()).hexdigest()[:12])


def state(mp):
    qn = None if mp.qn is None else [np.asarray(q).tolist() for q in mp.qn]
    qnh = hashlib.md5(repr(qn).encode()).hexdigest()[:10]
    return "qnidx=%r to_right=%r(%s) bonds=%s qntot=%s qn=%s" % (
        mp.qnidx, mp.to_right, type(mp.to_right).__name__, list(mp.bond_dims),
        None if mp.qntot is None else np.asarray(mp.qntot).tolist(), qnh)


def tensors(mp):
    return " ".join(h(mt.array) for mt in mp)


_SINK = None


def emit(*parts):
    line = " ".join(str(p) for p in parts)
    if _SINK is None or VERBOSE:
        print(line)
    if _SINK is not None:
        _SINK.append(line)


def attempt(label, fn):
    try:
        res = fn()
    except Exception as e:  # noqa
        emit(label, "EXC", type(e).__name__, str(e)[:60])
        return None
    return res


# ---------------------------------------------------------------- models
def two_qn_model(n):
    basis = []
    for i in range(n):
        sq = [[0, 0], [1, 0]] if i % 2 == 0 else [[0, 0], [0, 1]]
        basis.append(BasisSimpleElectron(i, sigmaqn=sq))
    terms = []
    for i in range(n - 2):
        terms.append(Op(r"a^\dagger a", [i, i + 2], 0.3 + 0.1 * i))
        terms.append(Op(r"a^\dagger a", [i + 2, i], 0.3 + 0.1 * i))
    for i in range(n):
        terms.append(Op(r"a^\dagger a", i, 0.5 * (i + 1)))
    return Model(basis, terms)


def one_site_sho():
    return Model([BasisSHO(0, 1.0, 4)], [Op(r"b^\dagger b", 0, 1.0)])


def two_site_mixed():
    return Model([BasisSimpleElectron(0), BasisSHO(1, 1.5, 3)],
                 [Op(r"a^\dagger a", 0, 1.0), Op(r"b^\dagger b", 1, 1.5),
                  Op(r"a^\dagger a", 0) * Op(r"b^\dagger+b", 1) * 0.2])


def spin_model(n):
    basis = [BasisHalfSpin(i) for i in range(n)]
    terms = [Op("X X", [i, i + 1], 1.0) for i in range(n - 1)] + [Op("Z", i, 0.5) for i in range(n)]
    return Model(basis, terms)


def build_cases():
    cases = []
    np.random.seed(2024)
    # holstein, single qn
    m = holstein_model
    a = Mps.random(m, 1, 7)
    b = Mps.random(m, 1, 5)
    mpo = Mpo(m)
    cases.append(("hol_rand", a))
    cases.append(("hol_sum", a + b))                      # redundant bonds
    cases.append(("hol_sum_self", a + a))                  # rank deficient
    cases.append(("hol_apply", mpo @ a))
    cases.append(("hol_cplx", (a + b.scale(0.3 + 0.7j)).to_complex()))
    cases.append(("hol_gs", Mps.ground_state(m, False)))  # bond dimension 1
    cases.append(("hol_mpo", mpo.copy()))
    cases.append(("hol_mpdm", MpDm.max_entangled_ex(m)))
    cases.append(("hol_mpdm_gs", MpDm.max_entangled_gs(m)))
    cases.append(("hol_qn0", Mps.random(m, 0, 4)))
    cases.append(("hol_qn2", Mps.random(m, 2, 6)))
    small = custom_model(n_phys_dim=(2, 2))
    cases.append(("small_mpo2", Mpo(small) @ Mpo(small)))
    # two conserved quantum numbers
    m2 = two_qn_model(6)
    c = Mps.random(m2, np.array([2, 1]), 6)
    d = Mps.random(m2, np.array([2, 1]), 3)
    cases.append(("qn2_rand", c))
    cases.append(("qn2_sum_cplx", c.scale(1j) + d))
    cases.append(("qn2_apply", Mpo(m2) @ c))
    cases.append(("qn2_mpo", Mpo(m2)))
    cases.append(("qn2_11", Mps.random(m2, np.array([1, 1]), 4)))
    # short chains
    m1 = one_site_sho()
    cases.append(("one_site", Mps.random(m1, 0, 3)))
    cases.append(("one_site_mpo", Mpo(m1)))
    mm = two_site_mixed()
    cases.append(("two_site", Mps.random(mm, 1, 4)))
    cases.append(("two_site_mpo", Mpo(mm)))
    cases.append(("two_site_apply", Mpo(mm) @ Mps.random(mm, 1, 4)))
    ms = spin_model(5)
    cases.append(("spin", Mps.random(ms, 0, 5)))
    cases.append(("spin_mpo_apply_cplx", (Mpo(ms) @ Mps.random(ms, 0, 5)).scale(2 - 1j)))
    return cases


# ---------------------------------------------------------------- ensure_*
def run_ensure(name, mp0):
    variants = [
        ("L", "ensure_left_canonical", ()),
        ("R", "ensure_right_canonical", ()),
        ("Ltol", "ensure_left_canonical", (1e-3, 1e-6)),
        ("Rtol", "ensure_right_canonical", (1e-3, 1e-6)),
    ]
    for tag, meth, args in variants:
        mp = mp0.copy()
        res = attempt(f"{name}.{tag}", lambda: getattr(mp, meth)(*args))
        print(f"{name}.{tag} same={res is mp} {state(mp)}")
        print(f"   T {tensors(mp)}")
        # idempotence / repeated application, opposite, then kwargs
        res2 = attempt(f"{name}.{tag}.again", lambda: getattr(mp, meth)(*args))
        print(f"{name}.{tag}.again same={res2 is mp} {state(mp)} T {tensors(mp)}")
        other = "ensure_right_canonical" if "left" in meth else "ensure_left_canonical"
        res3 = attempt(f"{name}.{tag}.opp", lambda: getattr(mp, other)(rtol=1e-4, atol=1e-7))
        print(f"{name}.{tag}.opp same={res3 is mp} {state(mp)} T {tensors(mp)}")
        res4 = attempt(f"{name}.{tag}.back", lambda: getattr(mp, meth)(atol=1e-9))
        print(f"{name}.{tag}.back same={res4 is mp} {state(mp)} T {tensors(mp)}")
        # the canonical-form checks see the result the same way
        print(f"{name}.{tag}.chk {mp.check_left_canonical()} {mp.check_right_canonical()}"
              f" {mp.check_left_canonical(1e-12, 1e-15)} {mp.check_right_canonical(atol=1e-15, rtol=1e-12)}")

    n = mp0.site_num
    # partial canonicalisation to every stop site, then ensure_*
    for stop in range(n):
        for to_right in (True, False):
            mp = mp0.copy()
            pre = attempt(f"{name}.stop{stop}.{to_right}.pre",
                          mp.ensure_right_canonical if to_right else mp.ensure_left_canonical)
            if pre is None:
                continue
            ok = attempt(f"{name}.stop{stop}.{to_right}.cano", lambda: mp.canonicalise(stop_idx=stop))
            if ok is None:
                continue
            for meth in ("ensure_left_canonical", "ensure_right_canonical"):
                mq = mp.copy()
                r = attempt(f"{name}.stop{stop}.{to_right}.{meth}", lambda: getattr(mq, meth)())
                print(f"{name}.stop{stop}.{to_right}.{meth[7]} same={r is mq} {state(mq)} T {tensors(mq)}")

    # odd flags: to_right None / numpy bool / ints, qnidx in the middle, loose tolerances
    flags = [None, np.bool_(True), np.bool_(False), 0, 1]
    for f in flags:
        for qnidx in sorted({0, n // 2, n - 1}):
            for meth in ("ensure_left_canonical", "ensure_right_canonical"):
                mp = mp0.copy()
                mp.move_qnidx(qnidx)
                mp.to_right = f
                r = attempt(f"{name}.flag{f!r}.{qnidx}.{meth[7]}", lambda: getattr(mp, meth)())
                print(f"{name}.flag{f!r}.{qnidx}.{meth[7]} same={r is mp} {state(mp)} T {tensors(mp)}")
    # huge tolerance: check passes although not canonical -> must return self untouched
    for meth, qnidx, f in (("ensure_left_canonical", n - 1, False), ("ensure_right_canonical", 0, True)):
        mp = mp0.copy()
        mp.move_qnidx(qnidx)
        mp.to_right = f
        r = attempt(f"{name}.loose.{meth[7]}", lambda: getattr(mp, meth)(1e9, 1e9))
        print(f"{name}.loose.{meth[7]} same={r is mp} {state(mp)} T {tensors(mp)}")


# ---------------------------------------------------------------- _switch_direction
class _Fake(MatrixProduct):
    """records attribute traffic so that evaluation order is part of the digest"""

    def __init__(self, n, to_right, qnidx):
        object.__setattr__(self, "log", [])
        super().__init__()
        self._mp = [None] * n
        self.to_right = to_right
        self.qnidx = qnidx
        self.log.clear()

    def __setattr__(self, k, v):
        if k in ("to_right", "qnidx"):
            self.log.append((k, repr(v), type(v).__name__))
        object.__setattr__(self, k, v)


def run_switch():
    for n in (0, 1, 2, 7):
        for f in (True, False, None, np.bool_(True), np.bool_(False), 0, 1, 2, "", "x", 0.0):
            for qnidx in (None, 0, 3):
                mp = _Fake(n, f, qnidx)
                r = attempt(f"switch n={n} f={f!r} q={qnidx}", mp._switch_direction)
                print(f"switch n={n} f={f!r} q={qnidx} -> ret={r!r} qnidx={mp.qnidx!r} "
                      f"to_right={mp.to_right!r}:{type(mp.to_right).__name__} log={mp.log}")


def run_switch_real(name, mp0):
    for start in ("L", "R"):
        mp = mp0.copy()
        attempt(f"{name}.sw{start}.pre", mp.ensure_left_canonical if start == "L" else mp.ensure_right_canonical)
        for k in range(3):
            r = attempt(f"{name}.sw{start}{k}", mp._switch_direction)
            print(f"{name}.sw{start}{k} ret={r!r} {state(mp)}")
            attempt(f"{name}.sw{start}{k}.cano", mp.canonicalise)
            print(f"{name}.sw{start}{k}.cano {state(mp)} T {tensors(mp)}")


# ---------------------------------------------------------------- _get_big_qn
def run_bigqn(name, mp0):
    n = mp0.site_num
    cidx_sets = []
    for i in range(n):
        cidx_sets.append([i])
        cidx_sets.append((i,))
        if i + 1 < n:
            cidx_sets.append([i, i + 1])
            cidx_sets.append([i + 1, i])
            cidx_sets.append((i + 1, i))
            cidx_sets.append(np.array([i, i + 1]))
        if i + 2 < n:
            cidx_sets.append([i, i + 2])
            cidx_sets.append([i, i + 1, i + 2])
    cidx_sets.append([])
    cidx_sets.append([n])
    cidx_sets.append([-1])
    cidx_sets.append([n - 1, n])
    for qnidx in range(n):
        for f in (True, False, None, np.bool_(True), 0):
            global _SINK
            _SINK = []
            mp = mp0.copy()
            mp.move_qnidx(qnidx)
            mp.to_right = f
            before = state(mp)
            for cidx in cidx_sets:
                for swap in (False, True):
                    keep = repr(cidx)
                    lab = f"{name}.bq q={qnidx} f={f!r} c={keep} s={swap}"
                    if swap:
                        r = attempt(lab, lambda: mp._get_big_qn(cidx, swap=True))
                    else:
                        r = attempt(lab, lambda: mp._get_big_qn(cidx))
                    assert repr(cidx) == keep, "argument mutated"
                    if r is None:
                        continue
                    assert type(r) is tuple and len(r) == 3
                    emit(lab, " ".join(h(x) + ":" + type(x).__name__ for x in r))
            # positional swap, qn stored as nested lists instead of arrays
            mp.qn = [np.asarray(q).tolist() for q in mp.qn]
            c = [qnidx] if qnidx + 1 >= n else [qnidx, qnidx + 1]
            r = attempt(f"{name}.bq.list q={qnidx} f={f!r}", lambda: mp._get_big_qn(c, len(c) == 2))
            if r is not None:
                emit(f"{name}.bq.list q={qnidx} f={f!r}", " ".join(h(x) for x in r))
            mp.qn = [np.asarray(q) for q in mp.qn]
            assert state(mp) == before, "state mutated"
            lines, _SINK = _SINK, None
            nexc = sum(" EXC " in l for l in lines)
            print(f"{name}.bq q={qnidx} f={f!r} lines={len(lines)} exc={nexc} ok={len(lines) - nexc} "
                  f"digest={hashlib.md5(chr(10).join(lines).encode()).hexdigest()}")


def main():
    cases = build_cases()
    for name, mp in cases:
        print("=====", name, type(mp).__name__, state(mp))
        run_ensure(name, mp)
        run_switch_real(name, mp)
        run_bigqn(name, mp)
    run_switch()


if __name__ == "__main__":
    main()
