"""Equivalence check for the C04rf refactoring.

Exercises svd_qn.blockappend / blockrecover / svd_qn and
MatrixProduct.iter_idx_list / _push_cano / canonicalise (+ compress, which uses the same helpers)
and prints a deterministic digest.
"""
import hashlib
import itertools

import numpy as np

from renormalizer.mps import svd_qn as sq
from renormalizer.mps import Mps, Mpo, MpDm
from renormalizer.model import Model, Op
from renormalizer.model.basis import BasisSHO, BasisSimpleElectron, BasisHalfSpin
from renormalizer.tests.parameter import holstein_model


def dig(x):
    """exact digest of an object made of arrays / lists / scalars"""
    if isinstance(x, (tuple, list)):
        return "[" + ",".join(dig(i) for i in x) + "]"
    if isinstance(x, range):
        return repr(x) + "=" + repr(list(x))
    if hasattr(x, "array") and not isinstance(x, np.ndarray):
        x = x.array
    if isinstance(x, np.ndarray):
        a = np.ascontiguousarray(x)
        h = hashlib.sha1(a.tobytes()).hexdigest()[:12]
        s = complex(np.sum(a)) if a.size else 0
        return f"<{a.dtype}{a.shape} {h} sum={s.real:.9e}{s.imag:+.9e}j fl={x.flags['C_CONTIGUOUS']}{x.flags['F_CONTIGUOUS']}>"
    return type(x).__name__ + ":" + repr(x)


def attempt(label, fn):
    try:
        res = fn()
        print(label, "->", dig(res))
    except Exception as e:  # noqa
        print(label, "-> EXC", type(e).__name__, str(e)[:80])


# ---------------------------------------------------------------- blockrecover / blockappend
print("== blockrecover")
rng = np.random.RandomState(1)
for dtype in (float, complex, np.float32, int):
    for idx in ([0, 2, 5], np.array([4, 1]), [], np.array([True, False, True, False, False, True])):
        n = int(np.sum(idx)) if (isinstance(idx, np.ndarray) and idx.dtype == bool) else len(idx)
        U = (rng.rand(n, 3) * 10).astype(dtype)
        if dtype is complex:
            U = U + 1j * rng.rand(n, 3)
        attempt(f"blockrecover {np.dtype(dtype)} {list(idx)}", lambda: sq.blockrecover(idx, U, 6))
        attempt(f"blockrecover F-order", lambda: sq.blockrecover(idx, np.asfortranarray(U), 6))
attempt("blockrecover bad", lambda: sq.blockrecover([0, 9], np.ones((2, 2)), 6))
attempt("blockrecover 1d", lambda: sq.blockrecover([0, 1], np.ones(2), 6))

print("== blockappend")
for full in (True, False, 1, 0, None):
    for dim in (0, 1, 2, 3):
        for cplx in (False, True):
            v = rng.rand(3, 3)
            if cplx:
                v = v + 1j * rng.rand(3, 3)
            lists = [[], [np.ones(1)], [(9,)], [], [np.zeros(2)]]
            args = lists + [v, (1, 0), dim, [1, 3, 4], 5]

            def f():
                ret = sq.blockappend(*args, full_matrices=full)
                same = all(a is b for a, b in zip(ret, lists))
                return [same, list(ret)]
            attempt(f"blockappend full={full} dim={dim} c={cplx}", f)
# positional full_matrices, default full_matrices, failing inputs
attempt("blockappend positional", lambda: list(sq.blockappend([], [], [], [], [], np.eye(2), 3, 1, [0, 1], 4, False)))
attempt("blockappend default", lambda: list(sq.blockappend([], [], [], [], [], np.eye(2), 3, 1, [0, 1], 4)))
attempt("blockappend tuple qn", lambda: list(sq.blockappend([], [], (), (), [], np.eye(2), 3, 1, [0, 1], 4)))
attempt("blockappend bad idx", lambda: list(sq.blockappend([], [], [], [], [], np.eye(2), 3, 1, [0, 7], 4)))
attempt("blockappend 1d v", lambda: list(sq.blockappend([], [], [], [], [], np.ones(2), 3, 1, [0, 7], 4)))
l0 = []
attempt("blockappend ndarray qn0", lambda: list(sq.blockappend([], [], l0, np.zeros(0), [], np.eye(2), 3, 1, [0, 1], 4)))
print("l0 after", l0)

# ---------------------------------------------------------------- svd_qn
print("== svd_qn")


def rand_case(seed, shape_l, shape_r, nqn, cplx, qmax=2):
    r = np.random.RandomState(seed)
    qnbigl = r.randint(0, qmax, size=tuple(shape_l) + (nqn,))
    qnbigr = r.randint(0, qmax, size=tuple(shape_r) + (nqn,))
    fl, fr = qnbigl.reshape(-1, nqn), qnbigr.reshape(-1, nqn)
    if seed % 5 == 0:
        qntot = r.randint(0, qmax + 1, size=nqn)
    else:
        qntot = fl[r.randint(len(fl))] + fr[r.randint(len(fr))]
    coef = r.rand(*shape_l, *shape_r) - 0.5
    if cplx:
        coef = coef + 1j * (r.rand(*shape_l, *shape_r) - 0.5)
    mask = sq.get_qn_mask(sq.add_outer(qnbigl, qnbigr), qntot)
    coef[~mask] = 0
    return coef, qnbigl, qnbigr, qntot


cases = []
seed = 0
for shape_l, shape_r in [((3, 2), (4,)), ((4,), (2, 3)), ((2, 2), (2, 2)), ((1,), (1,)), ((5,), (1,)),
                         ((1,), (6,)), ((20,), (2,)), ((2,), (3, 7)), ((3, 2, 2), (2,))]:
    for nqn in (1, 2):
        for cplx in (False, True):
            seed += 1
            cases.append((seed, shape_l, shape_r, nqn, cplx))

for (seed, shape_l, shape_r, nqn, cplx) in cases:
    coef, ql, qr, qt = rand_case(seed, shape_l, shape_r, nqn, cplx)
    for QR, system, full, optfull in itertools.product((False, True), ("L", "R", None, "X"), (True, False), (True, False)):
        np.random.seed(seed)  # add_orthonormal_basis uses the global generator
        c = coef.copy()
        attempt(f"svd_qn s={seed} {shape_l}{shape_r} nqn={nqn} c={cplx} QR={QR} sys={system} full={full} opt={optfull}",
                lambda: list(sq.svd_qn(c, ql, qr, qt, QR=QR, system=system, full_matrices=full, opt_full_matrices=optfull)))
        assert np.array_equal(c, coef)

# trivial quantum numbers (all zero), rank deficient matrices, zero matrix
for seed, (m, n, rank) in enumerate([(6, 4, 2), (4, 6, 1), (5, 5, 5), (3, 3, 0), (12, 2, 2), (2, 12, 1)]):
    r = np.random.RandomState(100 + seed)
    a = (r.rand(m, rank) - 0.5) @ (r.rand(rank, n) - 0.5) if rank else np.zeros((m, n))
    ql = np.zeros((m, 1), dtype=int)
    qr = np.zeros((n, 1), dtype=int)
    for QR, system, full in itertools.product((False, True), ("L", "R"), (True, False)):
        np.random.seed(seed)
        attempt(f"svd_qn trivial {m}x{n} rank={rank} QR={QR} sys={system} full={full}",
                lambda: list(sq.svd_qn(a, ql, qr, np.array([0]), QR=QR, system=system, full_matrices=full)))
    attempt(f"svd_qn invalid qn {m}x{n}", lambda: list(sq.svd_qn(a, ql, qr, np.array([3]))))
    attempt(f"svd_qn positional {m}x{n}", lambda: list(sq.svd_qn(a, ql, qr, np.array([0]), True, "R", False, False)))
attempt("svd_qn qntot 2d", lambda: list(sq.svd_qn(np.ones((2, 2)), np.zeros((2, 1), int), np.zeros((2, 1), int), np.zeros((1, 1), int))))
attempt("svd_qn empty", lambda: list(sq.svd_qn(np.ones((0, 2)), np.zeros((0, 1), int), np.zeros((2, 1), int), np.zeros(1, int))))

# eigh_qn uses blockappend
print("== eigh_qn")
for seed in range(3):
    coef, ql, qr, qt = rand_case(50 + seed, (3, 2), (4,), 1, bool(seed % 2))
    cm = coef.reshape(6, 4)
    attempt(f"eigh_qn L {seed}", lambda: list(sq.eigh_qn(cm @ cm.conj().T, ql, qr, qt, "L")))
    attempt(f"eigh_qn R {seed}", lambda: list(sq.eigh_qn(cm.T @ cm.conj(), ql, qr, qt, "R")))


# ---------------------------------------------------------------- MatrixProduct
def mp_state(mp):
    return [[m for m in mp], [np.asarray(q) for q in mp.qn], mp.qnidx, mp.to_right, np.asarray(mp.qntot),
            mp.bond_dims]


print("== iter_idx_list")
mps = Mps.random(holstein_model, 1, 5)
for to_right in (True, False, None, 1, 0):
    for qnidx in (0, 1, len(mps) - 1):
        for full in (True, False, 1, 0, None):
            for stop in (None, 0, 1, 3, len(mps) - 1, len(mps) + 2, -1, -3):
                mps.to_right = to_right
                mps.qnidx = qnidx
                attempt(f"iter to_right={to_right} qnidx={qnidx} full={full} stop={stop}",
                        lambda: mps.iter_idx_list(full, stop))
                attempt(f"iter kw", lambda: mps.iter_idx_list(full=full, stop_idx=stop))
attempt("iter default stop", lambda: mps.iter_idx_list(True))
attempt("iter bad stop", lambda: mps.iter_idx_list(True, "a"))
attempt("iter float stop", lambda: mps.iter_idx_list(True, 2.0))

print("== canonicalise / _push_cano")


def make_models():
    ms = {"holstein": (holstein_model, 1)}
    # two conserved quantum numbers
    basis = []
    for i in range(6):
        basis.append(BasisHalfSpin(i, sigmaqn=[[1, 0], [0, 1]] if i % 2 == 0 else [[0, 0], [1, 1]]))
    ham = [Op("Z", i, 1.0 + i) for i in range(6)] + [Op("Z Z", [i, i + 1], 0.5) for i in range(5)]
    ms["spin2qn"] = (Model(basis, ham), np.array([3, 2]))
    # no quantum numbers at all
    basis = [BasisSHO(i, 1.0, 3) for i in range(3)]
    ms["sho"] = (Model(basis, [Op("x", 0), Op("x x", [0, 1]), Op("p^2", 2), Op("x x", [1, 2], 0.3)]), 0)
    # one site
    ms["one"] = (Model([BasisSHO(0, 1.0, 4)], [Op("x", 0)]), 0)
    # two sites
    ms["two"] = (Model([BasisSimpleElectron(0), BasisSimpleElectron(1)],
                       [Op(r"a^\dagger a", [0, 1]), Op(r"a^\dagger a", [1, 0])]), 1)
    return ms


models = make_models()
for name, (model, qntot) in models.items():
    np.random.seed(7)
    attempt(f"{name} random", lambda: mp_state(Mps.random(model, qntot, 6)))
    for cplx in (False, True):
        for to_right in (True, False):
            try:
                for sd in range(11, 40):
                    # Mps.random may produce an all-zero last site with several quantum numbers
                    np.random.seed(sd)
                    try:
                        base = Mps.random(model, qntot, 6)
                        other = Mps.random(model, qntot, 5)
                        break
                    except FloatingPointError:
                        continue
                print(name, "seed used", sd)
                if cplx:
                    base = base.to_complex() * (0.3 + 0.8j)
                # redundant bonds by C03 arithmetic
                base = base + other.scale(0.5) if not cplx else base + other.to_complex()
            except Exception as e:
                print(name, "build EXC", type(e).__name__, e)
                continue
            n = len(base)
            for stop in [None] + list(range(-1, n + 1)):
                m = base.copy()
                if to_right:
                    m.move_qnidx(0) if n > 1 or True else None
                    m.to_right = True
                else:
                    m.move_qnidx(n - 1)
                    m.to_right = False

                def f():
                    ret = m.canonicalise(stop)
                    assert ret is m
                    return mp_state(m)
                attempt(f"{name} c={cplx} to_right={to_right} canonicalise stop={stop}", f)
                attempt(f"{name} state after (maybe partial)", lambda: mp_state(m))
            # twice + compress
            m = base.copy()
            m.move_qnidx(0 if to_right else n - 1)
            m.to_right = to_right

            def g():
                m.canonicalise()
                s1 = mp_state(m)
                m.canonicalise()
                s2 = mp_state(m)
                m2, s = m.copy().compress(ret_s=True)
                return [s1, s2, mp_state(m2), s]
            attempt(f"{name} c={cplx} to_right={to_right} canon twice+compress", g)
            # single _push_cano steps at the centre
            m = base.copy()
            m.move_qnidx(0 if to_right else n - 1)
            m.to_right = to_right

            def h():
                out = []
                rng_idx = list(m.iter_idx_list(full=False))
                for idx in rng_idx:
                    r = m._push_cano(idx)
                    out.append([r, mp_state(m)])
                return out
            attempt(f"{name} c={cplx} to_right={to_right} push_cano steps", h)
            attempt(f"{name} push_cano on full-range (edge)", lambda: [m._push_cano(i) for i in m.iter_idx_list(full=True)])
            attempt(f"{name} after edge", lambda: mp_state(m))

print("== MPO / MpDm")
for name, (model, qntot) in models.items():
    try:
        mpo = Mpo(model)
    except Exception as e:
        print(name, "mpo build EXC", type(e).__name__, e)
        continue
    for to_right in (True, False):
        for cplx in (False, True):
            o = mpo.copy()
            if cplx:
                o = o.to_complex() * (1 - 2j)
            o = o + o.scale(0.25)
            n = len(o)
            o.move_qnidx(0 if to_right else n - 1)
            o.to_right = to_right

            def f():
                o.canonicalise()
                s1 = mp_state(o)
                o.canonicalise()
                s2 = mp_state(o)
                o2 = o.copy().compress()
                return [s1, s2, mp_state(o2)]
            attempt(f"{name} mpo c={cplx} to_right={to_right}", f)
    def d():
        dm = MpDm.max_entangled_gs(model)
        dm = dm + dm.scale(0.5)
        dm.canonicalise()
        s1 = mp_state(dm)
        dm.canonicalise(1)
        return [s1, mp_state(dm)]
    attempt(f"{name} mpdm", d)
    def a():
        np.random.seed(3)
        psi = Mps.random(model, qntot, 4)
        res = mpo @ psi
        res.canonicalise()
        s1 = mp_state(res)
        res.compress()
        return [s1, mp_state(res)]
    attempt(f"{name} mpo@mps", a)

# zero tensor -> assertion inside _push_cano
m = Mps.random(holstein_model, 1, 4)
m.move_qnidx(0)
m.to_right = True
m[0] = np.zeros_like(m[0].array)
attempt("zero tensor push", lambda: m._push_cano(0))
m = Mps.random(holstein_model, 1, 4)
attempt("wrong qnidx canonicalise", lambda: (setattr(m, "to_right", True), setattr(m, "qnidx", 2), m.canonicalise())[-1])
