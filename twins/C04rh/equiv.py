import os, sys
# some contraction orders inside the library depend on str hashes (set iteration);
# fix the hash seed so that the digest is reproducible from run to run
if os.environ.get("PYTHONHASHSEED") != "0":
    os.environ["PYTHONHASHSEED"] = "0"
    os.execv(sys.executable, [sys.executable] + sys.argv)

import sys, types
_pt = types.ModuleType("print_tree"); _pt.print_tree = object; sys.modules.setdefault("print_tree", _pt)

import hashlib
import logging

import numpy as np

from renormalizer import BasisHalfSpin, Model, Mpo, Mps, Op
from renormalizer.mps import MpDm
from renormalizer.model.model import heisenberg_ops
from renormalizer.mps.mp import MatrixProduct
from renormalizer.tests.parameter import holstein_model, custom_model
from renormalizer.utils import CompressConfig, CompressCriteria, OFS
from renormalizer.tn.node import TreeNodeBasis
from renormalizer.tn.tree import TTNS
from renormalizer.tn.treebase import BasisTree


# ---------------------------------------------------------------- logging capture
class ListHandler(logging.Handler):
    def __init__(self):
        super().__init__(level=logging.DEBUG)
        self.records = []

    def emit(self, record):
        self.records.append(f"{record.levelname}:{record.getMessage()}")


handler = ListHandler()
mp_logger = logging.getLogger("renormalizer.mps.mp")
mp_logger.setLevel(logging.DEBUG)
mp_logger.addHandler(handler)
mp_logger.propagate = False
logging.getLogger("renormalizer").setLevel(logging.DEBUG)
logging.getLogger("renormalizer").propagate = False
logging.getLogger("renormalizer").addHandler(logging.NullHandler())


def log_digest():
    msgs = list(handler.records)
    handler.records.clear()
    h = hashlib.sha1("\n".join(msgs).encode()).hexdigest()[:12]
    return f"nlog={len(msgs)} loghash={h}"


# ---------------------------------------------------------------- digests
def arr_digest(a):
    a = np.asarray(a)
    r = np.round(a, 9) + 0.0  # +0.0 removes negative zeros
    h = hashlib.sha1(np.ascontiguousarray(r).tobytes()).hexdigest()[:12]
    return f"{a.dtype}{list(a.shape)}:{h}:{np.round(np.abs(a).sum(), 8)}"


def mp_digest(mp):
    out = [
        type(mp).__name__,
        f"qnidx={mp.qnidx}",
        f"to_right={mp.to_right}",
        f"bond={list(mp.bond_dims)}",
        f"qntot={np.asarray(mp.qntot).tolist()}",
        "qn=" + repr([np.asarray(q).tolist() for q in mp.qn]),
    ]
    for i in range(len(mp)):
        out.append(f"  [{i}] {arr_digest(mp[i].array)}")
    try:
        out.append("  lcano=%s rcano=%s" % (mp.check_left_canonical(), mp.check_right_canonical()))
    except Exception as e:  # pragma: no cover
        out.append("  cano-check " + type(e).__name__)
    return "\n".join(out)


def attempt(label, fn):
    print(f"== {label}")
    try:
        res = fn()
    except BaseException as e:  # noqa
        print(f"EXC {type(e).__name__}: {e}")
        print(log_digest())
        return None
    if isinstance(res, MatrixProduct):
        print(mp_digest(res))
    elif res is not None:
        print(res)
    print(log_digest())
    return res


# ---------------------------------------------------------------- models
_j2 = np.array([[0.0, -0.004], [-0.004, 0.0]])
small_model = custom_model(custom_j_matrix=_j2, n_phys_dim=(2, 2), nmols=2)


def spin_model(n):
    basis = [BasisHalfSpin(i, sigmaqn=[0, 1]) for i in range(n)]
    return Model(basis, heisenberg_ops(n)) if n > 1 else Model(basis, [Op("sigma_z", 0)])


def two_qn_model(n):
    # two conserved quantum numbers
    basis = [BasisHalfSpin(i, sigmaqn=[[0, 1], [1, 0]]) for i in range(n)]
    terms = []
    for i in range(n - 1):
        terms.append(Op("sigma_z sigma_z", [i, i + 1], 0.3 + 0.1 * i))
        terms.append(Op("sigma_+ sigma_-", [i, i + 1], 0.5))
        terms.append(Op("sigma_- sigma_+", [i, i + 1], 0.5))
    return Model(basis, terms)


# ================================================================= 1. canonicalise / _push_cano
def case_cano():
    np.random.seed(11)
    # real mps, right-to-left then left-to-right; idempotence
    m = Mps.random(holstein_model, 1, 10)
    attempt("cano real mps initial", lambda: m)
    attempt("cano real mps sweep1", lambda: m.canonicalise())
    attempt("cano real mps sweep2", lambda: m.canonicalise())
    attempt("cano real mps sweep3", lambda: m.canonicalise())

    # complex
    mc = Mps.random(holstein_model, 1, 8).to_complex()
    for i in range(len(mc)):
        mc[i] = mc[i].array * np.exp(0.3j * (i + 1))
    attempt("cano complex sweep1", lambda: mc.canonicalise())
    attempt("cano complex sweep2", lambda: mc.canonicalise())

    # partial canonicalisation with every stop index, both directions
    base = Mps.random(holstein_model, 1, 6)
    base.canonicalise()  # now to_right flips
    for direction in (0, 1):
        for stop in range(-1, base.site_num + 1):
            c = base.copy()
            attempt(f"cano partial dir{direction} to_right={c.to_right} qnidx={c.qnidx} stop={stop}",
                    lambda: c.canonicalise(stop_idx=stop))
        base.canonicalise()

    # _push_cano directly, step by step
    p = Mps.random(holstein_model, 1, 7)
    for idx in list(p.iter_idx_list(full=False)):
        attempt(f"_push_cano to_right={p.to_right} idx={idx}", lambda: (p._push_cano(idx), p)[1])
    p._switch_direction()
    for idx in list(p.iter_idx_list(full=False)):
        attempt(f"_push_cano to_right={p.to_right} idx={idx}", lambda: (p._push_cano(idx), p)[1])

    # _push_cano on an all-zero site -> assertion
    z = Mps.random(holstein_model, 1, 4)
    z[z.qnidx] = np.zeros_like(z[z.qnidx].array)
    attempt("_push_cano zero site", lambda: z._push_cano(z.qnidx))
    z2 = Mps.random(holstein_model, 1, 4)
    z2[z2.qnidx] = np.zeros_like(z2[z2.qnidx].array)
    attempt("canonicalise zero site", lambda: z2.canonicalise())

    # wrong centre -> assertion
    w = Mps.random(holstein_model, 1, 4)
    w.to_right = not w.to_right
    attempt("canonicalise wrong centre", lambda: w.canonicalise())
    w2 = Mps.random(holstein_model, 1, 4)
    w2.to_right = None
    attempt("canonicalise to_right None", lambda: w2.canonicalise())

    # over-complete bonds: sums and operator products
    a = Mps.random(holstein_model, 1, 5)
    b = Mps.random(holstein_model, 1, 5)
    s = a.add(b).add(a)
    attempt("cano sum sweep1", lambda: s.canonicalise())
    attempt("cano sum sweep2", lambda: s.canonicalise())
    mpo = Mpo(holstein_model)
    prod = mpo.apply(a)
    attempt("cano product", lambda: prod.canonicalise())
    attempt("cano product2", lambda: prod.canonicalise())

    # operators and density operators (is_mpo branch of _update_ms)
    o = Mpo(holstein_model)
    attempt("cano mpo initial", lambda: o)
    attempt("cano mpo sweep1", lambda: o.canonicalise())
    attempt("cano mpo sweep2", lambda: o.canonicalise())
    oc = Mpo(holstein_model).scale(-1.0j)
    attempt("cano complex mpo", lambda: oc.canonicalise())
    oo = Mpo(small_model)
    oo2 = oo.apply(oo)
    attempt("cano mpo*mpo", lambda: oo2.canonicalise())
    d = MpDm.from_mps(Mps.random(holstein_model, 1, 6))
    attempt("cano mpdm sweep1", lambda: d.canonicalise())
    attempt("cano mpdm sweep2", lambda: d.canonicalise(stop_idx=3))
    dm = MpDm.max_entangled_ex(holstein_model)
    attempt("cano max entangled", lambda: dm.canonicalise())

    # ensure_* go through canonicalise
    e = Mps.random(holstein_model, 1, 6)
    attempt("ensure_left", lambda: e.ensure_left_canonical())
    attempt("ensure_right", lambda: e.ensure_right_canonical())
    attempt("ensure_right again", lambda: e.ensure_right_canonical())

    # short chains
    for n in (1, 2, 3):
        model = spin_model(n)
        for qn in (0, 1, 2):
            try:
                ms = Mps.random(model, qn, 4)
            except BaseException as exc:  # noqa
                print(f"== random spin n={n} qn={qn} EXC {type(exc).__name__}")
                continue
            attempt(f"cano spin n={n} qn={qn} sweep1", lambda: ms.canonicalise())
            attempt(f"cano spin n={n} qn={qn} sweep2", lambda: ms.canonicalise())
        hp = Mps.hartree_product_state(model, {0: 1})
        attempt(f"cano hartree n={n} (bond 1)", lambda: hp.canonicalise())
        attempt(f"cano hartree n={n} (bond 1) b", lambda: hp.canonicalise())

    # two quantum numbers
    m2 = two_qn_model(5)
    for qntot in ([2, 3], [0, 5], [4, 1]):
        t = Mps.random(m2, np.array(qntot), 6)
        attempt(f"cano 2qn {qntot} sweep1", lambda: t.canonicalise())
        attempt(f"cano 2qn {qntot} sweep2", lambda: t.canonicalise())
        attempt(f"cano 2qn {qntot} partial", lambda: t.canonicalise(stop_idx=2))
    o2 = Mpo(m2)
    attempt("cano 2qn mpo", lambda: o2.canonicalise())
    t = Mps.random(m2, np.array([2, 3]), 6)
    attempt("cano 2qn product", lambda: o2.apply(t).canonicalise())


# ================================================================= 2. variational_compress
def vc_setup(kind, comp, model, M, qntot=1):
    if kind == "mpo":
        mps = Mpo(model)
    else:
        mps = Mps.random(model, qntot, 6)
        if kind == "mpdm":
            mps = MpDm.from_mps(mps)
        mps.canonicalise().normalize("mps_only")
    if comp:
        mps = mps.to_complex(inplace=True)
    mpo = Mpo(model)
    if comp:
        mpo = mpo.scale(-1.0j)
    mps.compress_config.bond_dim_max_value = M
    mps.compress_config.criteria = CompressCriteria.fixed
    return mps, mpo


def vc_result(var, self_before, self_mps, extra=""):
    lines = [mp_digest(var)]
    lines.append("self unchanged: %s" % (self_before == mp_digest(self_mps)))
    lines.append("cfg: %s %s" % (var.compress_config.criteria, var.compress_config.max_bonddim
                                 if hasattr(var.compress_config, "max_bonddim") else None))
    return "\n".join(lines) + extra


def case_vc():
    np.random.seed(23)
    model = custom_model(custom_j_matrix=_j2, n_phys_dim=(3, 2), nmols=2)
    M = 12
    for kind in ("mps", "mpdm", "mpo"):
        for comp in (False, True):
            mps, mpo = vc_setup(kind, comp, model, M)
            before = mp_digest(mps)
            mps.compress_config.vprocedure = [[M, 1.0], [M, 0.2], [M, 0.1]] + [[M, 0]] * 6
            mps.compress_config.vmethod = "2site"

            def run2():
                var = mps.variational_compress(mpo, guess=None)
                std = mpo.apply(mps, canonicalise=True).canonicalise()
                dis = var.distance(std) / std.mp_norm
                return var, vc_result(var, before, mps, f"\ndis<1e-4: {bool(dis < 1e-4)}")

            res = attempt(f"vc 2site {kind} comp={comp}", lambda: run2()[1])
            # 1site with guess
            var = mps.variational_compress(mpo, guess=None)
            handler.records.clear()
            var.compress_config.vprocedure = [[M, 0]] * 5
            var.compress_config.vmethod = "1site"
            var.compress_config.bond_dim_max_value = M
            var.compress_config.criteria = CompressCriteria.fixed

            def run1():
                out = mps.variational_compress(mpo, guess=var)
                return vc_result(out, before, mps, f"\nguess is result: {out is var}")

            attempt(f"vc 1site guess {kind} comp={comp}", run1)

    # larger holstein chain, once, real mps, 2site
    mps, mpo = vc_setup("mps", False, holstein_model, 20)
    mps.compress_config.vprocedure = [[20, 0.5], [20, 0.2]] + [[20, 0]] * 4
    mps.compress_config.vmethod = "2site"
    attempt("vc holstein 2site", lambda: mps.variational_compress(mpo))

    # procedure given as CompressConfig objects, threshold criteria, and mixture
    mps, mpo = vc_setup("mps", True, model, M)
    mps.compress_config.vprocedure = [
        [CompressConfig(CompressCriteria.fixed, max_bonddim=8), 0.5],
        [CompressConfig(CompressCriteria.threshold, threshold=1e-6), 0.2],
        [10, 0],
        [CompressConfig(CompressCriteria.both, threshold=1e-8, max_bonddim=10), 0],
        [True, 0],
    ]
    mps.compress_config.vmethod = "2site"
    attempt("vc CompressConfig procedure", lambda: mps.variational_compress(mpo))
    mps.compress_config.vmethod = "1site"
    attempt("vc CompressConfig procedure 1site", lambda: mps.variational_compress(mpo))

    # not converged: warning branch (for-else)
    mps, mpo = vc_setup("mps", False, model, 4)
    mps.compress_config.vprocedure = [[2, 0.5], [2, 0.4]]
    mps.compress_config.vmethod = "2site"
    attempt("vc not converged", lambda: mps.variational_compress(mpo))
    mps.compress_config.vprocedure = []
    attempt("vc empty procedure", lambda: mps.variational_compress(mpo))
    mps.compress_config.vprocedure = [[3, 0]]
    mps.compress_config.vmethod = "1site"
    attempt("vc single sweep 1site", lambda: mps.variational_compress(mpo))

    # error paths
    mps, mpo = vc_setup("mps", False, model, 6)
    attempt("vc mpo None", lambda: mps.variational_compress())
    attempt("vc mpo None with guess", lambda: mps.variational_compress(None, mps.copy()))
    mps.compress_config.vprocedure = [[6, 0.5], [6, 0]]
    mps.compress_config.vmethod = "3site"
    attempt("vc bad method", lambda: mps.variational_compress(mpo))
    mps.compress_config.vmethod = "2site"
    mps.compress_config.vprocedure = [[6.0, 0.5], [6, 0]]
    attempt("vc bad procedure entry", lambda: mps.variational_compress(mpo))
    mps.compress_config.vprocedure = [[6, 0.5], [None, 0]]
    attempt("vc bad procedure entry later", lambda: mps.variational_compress(mpo))
    mps.compress_config.vprocedure = [[6, 0.5, 1], [6, 0]]
    attempt("vc procedure wrong arity", lambda: mps.variational_compress(mpo))
    cfg = CompressConfig(CompressCriteria.fixed, max_bonddim=6, ofs=OFS.ofs_s)
    mps.compress_config.vprocedure = [[cfg, 0.5], [6, 0]]
    attempt("vc ofs", lambda: mps.variational_compress(mpo))
    # guess with to_right None but already left canonical
    mps, mpo = vc_setup("mps", False, model, 6)
    mps.compress_config.vprocedure = [[6, 0.5], [6, 0], [6, 0]]
    mps.compress_config.vmethod = "2site"
    g = mps.variational_compress(mpo)
    handler.records.clear()
    g.ensure_left_canonical()
    g.to_right = None
    attempt("vc guess to_right None", lambda: mps.variational_compress(mpo, guess=g))
    attempt("vc guess after failure", lambda: g)

    # short chains
    for n in (1, 2, 3):
        sm = spin_model(n)
        try:
            ms = Mps.random(sm, 1 if n > 1 else 0, 4)
            if n > 1:
                ms.canonicalise()
        except BaseException as exc:  # noqa
            print(f"== vc spin n={n} setup EXC {type(exc).__name__}")
            handler.records.clear()
            continue
        handler.records.clear()
        op = Mpo(sm)
        for method in ("1site", "2site"):
            ms.compress_config.vprocedure = [[4, 0.5], [4, 0], [4, 0], [4, 0]]
            ms.compress_config.vmethod = method
            ms.compress_config.criteria = CompressCriteria.fixed
            ms.compress_config.bond_dim_max_value = 4
            attempt(f"vc spin n={n} {method}", lambda: ms.variational_compress(op))
            cfg = CompressConfig(CompressCriteria.fixed, max_bonddim=4, ofs=OFS.ofs_s)
            ms.compress_config.vprocedure = [[cfg, 0.5], [4, 0]]
            attempt(f"vc spin n={n} {method} ofs", lambda: ms.variational_compress(op))

    # two quantum numbers
    m2 = two_qn_model(5)
    t = Mps.random(m2, np.array([2, 3]), 6)
    t.canonicalise().normalize("mps_only")
    t = t.to_complex(inplace=True)
    handler.records.clear()
    o2 = Mpo(m2).scale(0.5 - 0.25j)
    for method in ("2site", "1site"):
        t.compress_config.vprocedure = [[8, 0.5], [8, 0.2]] + [[8, 0]] * 4
        t.compress_config.vmethod = method
        t.compress_config.criteria = CompressCriteria.fixed
        t.compress_config.bond_dim_max_value = 8

        def run():
            var = t.variational_compress(o2)
            std = o2.apply(t, canonicalise=True).canonicalise()
            dis = var.distance(std) / std.mp_norm
            return mp_digest(var) + f"\ndis<1e-4: {bool(dis < 1e-4)}"

        attempt(f"vc 2qn {method}", run)

    # Mpo.contract(algo=variational) reaches variational_compress too
    mps, mpo = vc_setup("mps", False, model, 8)
    mps.compress_config.vprocedure = [[8, 0.5]] + [[8, 0]] * 4
    attempt("mpo.contract variational", lambda: mpo.contract(mps, algo="variational"))


# ================================================================= 3. TTNS push_cano
def multi_basis_tree(basis_list):
    node1 = TreeNodeBasis([basis_list[0], basis_list[1]])
    node2 = TreeNodeBasis([basis_list[2]])
    node3 = TreeNodeBasis([basis_list[3]])
    node4 = TreeNodeBasis([basis_list[4], basis_list[5], basis_list[6]])
    node3.add_child(node2)
    node2.add_child(node1)
    node2.add_child(node4)
    return BasisTree(node3)


def ttns_digest(ttns):
    out = [f"qntot={np.asarray(ttns.qntot).tolist()}"]
    for i, node in enumerate(ttns.node_list):
        out.append(f"  [{i}] {arr_digest(node.tensor)} qn={np.asarray(node.qn).tolist()}")
    out.append("  dense " + arr_digest(ttns.todense()))
    return "\n".join(out)


def case_tree():
    np.random.seed(37)
    nspin = 7
    for tag, mk in (
        ("binary", lambda bl: BasisTree.binary(bl)),
        ("multi", multi_basis_tree),
        ("linear", lambda bl: BasisTree.linear(bl)),
    ):
        for sigmaqn, qntot in (([0, 0], 0), ([0, 1], 3), ([1, -1], -1), ([0, 1], 1)):
            for comp in (False, True):
                basis_list = [BasisHalfSpin(i, sigmaqn=sigmaqn) for i in range(nspin)]
                basis = mk(basis_list)
                label = f"tree {tag} sigmaqn={sigmaqn} qn={qntot} comp={comp}"
                try:
                    ttns = TTNS.random(basis, qntot, 5, 1)
                except BaseException as exc:  # noqa
                    print(f"== {label} setup EXC {type(exc).__name__}")
                    continue
                if comp:
                    for k, node in enumerate(ttns.node_list):
                        node.tensor = node.tensor * np.exp(0.2j * (k + 1))
                attempt(label + " initial", lambda: ttns_digest(ttns))
                root = ttns.root
                for ichild in range(len(root.children)):
                    attempt(label + f" root->child{ichild}",
                            lambda: (ttns.push_cano_to_child(root, ichild), ttns_digest(ttns))[1])
                    child = root.children[ichild]
                    if child.children:
                        attempt(label + f" child{ichild}->grandchild0",
                                lambda: (ttns.push_cano_to_child(child, 0), ttns_digest(ttns))[1])
                        attempt(label + f" grandchild0->child{ichild}",
                                lambda: (ttns.push_cano_to_parent(child.children[0]), ttns_digest(ttns))[1])
                    attempt(label + f" child{ichild}->root",
                            lambda: (ttns.push_cano_to_parent(child), ttns_digest(ttns))[1])
                attempt(label + " root to parent", lambda: ttns.push_cano_to_parent(root))
                attempt(label + " bad child", lambda: ttns.push_cano_to_child(root, 7))
                attempt(label + " canonicalise",
                        lambda: (ttns.canonicalise(), ttns_digest(ttns), ttns.check_canonical())[1])
                attempt(label + " canonicalise twice",
                        lambda: (ttns.canonicalise(), ttns_digest(ttns))[1])
                leaf = ttns.postorder_list()[0]
                attempt(label + " leaf->parent ret",
                        lambda: repr(ttns.push_cano_to_parent(leaf)) + repr(ttns.push_cano_to_child(leaf.parent, leaf.idx_as_child)))

    # two quantum numbers
    basis_list = [BasisHalfSpin(i, sigmaqn=[[0, 1], [1, 0]]) for i in range(5)]
    basis = BasisTree.binary(basis_list)
    try:
        ttns = TTNS.random(basis, np.array([2, 3]), 4, 1)
    except BaseException as exc:  # noqa
        print(f"== tree 2qn setup EXC {type(exc).__name__}")
        return
    attempt("tree 2qn child", lambda: (ttns.push_cano_to_child(ttns.root, 0), ttns_digest(ttns))[1])
    attempt("tree 2qn parent", lambda: (ttns.push_cano_to_parent(ttns.root.children[0]), ttns_digest(ttns))[1])
    attempt("tree 2qn canonicalise", lambda: (ttns.canonicalise(), ttns_digest(ttns))[1])


if __name__ == "__main__":
    case_cano()
    case_vc()
    case_tree()
    print("DONE")
