import sys, types, os

_here = os.path.dirname(os.path.abspath(__file__))
if _here not in sys.path:
    sys.path.insert(0, _here)
_pt = types.ModuleType("print_tree")
_pt.print_tree = object
sys.modules.setdefault("print_tree", _pt)

import hashlib
import logging

import numpy as np

logging.disable(logging.CRITICAL)

from renormalizer.model import Model, Op
from renormalizer.model.basis import BasisSimpleElectron, BasisHalfSpin, BasisSHO
from renormalizer.mps import Mps, Mpo, MpDm
from renormalizer.mps.svd_qn import svd_qn, add_outer, get_qn_mask
from renormalizer.mps.matrix import asnumpy
from renormalizer.utils import CompressConfig, CompressCriteria
from renormalizer.tests.parameter import holstein_model, custom_model


def dig(a):
    """deterministic digest of an array / list / scalar"""
    if a is None:
        return "None"
    if isinstance(a, (list, tuple)) and not (len(a) and isinstance(a[0], np.ndarray)):
        a = np.array(a)
    if isinstance(a, (list, tuple)):
        return "[" + ", ".join(dig(x) for x in a) + "]"
    a = np.asarray(asnumpy(a))
    r = np.round(a, 9) + 0.0  # kill negative zeros
    h = hashlib.sha1(np.ascontiguousarray(r).tobytes()).hexdigest()[:12]
    if a.size:
        s = complex(np.sum(r))
        n = float(np.linalg.norm(np.ravel(r)))
        return f"{a.dtype}{a.shape} sum=({s.real:.8f},{s.imag:.8f}) norm={n:.8f} sha={h}"
    return f"{a.dtype}{a.shape} empty"


def attempt(label, f):
    try:
        res = f()
    except BaseException as e:  # noqa
        print(label, "-> EXC", type(e).__name__, str(e))
        return None
    return res


# --------------------------------------------------------------------------
# 1. svd_qn
# --------------------------------------------------------------------------
def random_qn_array(rng, dl, ds, dr, qn_size, qntot, cplx, system_left):
    qnl = rng.integers(0, 3, size=(dl, qn_size))
    sig = rng.integers(0, 2, size=(ds, qn_size))
    qnr = rng.integers(0, 3, size=(dr, qn_size))
    if system_left:
        qnbigl = add_outer(qnl, sig)
        qnbigr = qnr
    else:
        qnbigl = qnl
        qnbigr = add_outer(sig, qnr)
    qnmat = add_outer(qnbigl, qnbigr)
    if qntot is None:
        qntot = qnmat.reshape(-1, qn_size)[0].copy()
    arr = rng.standard_normal((dl, ds, dr))
    if cplx:
        arr = arr + 1j * rng.standard_normal((dl, ds, dr))
    mask = get_qn_mask(qnmat, qntot)
    arr = arr * mask
    return arr, qnbigl, qnbigr, qntot


def run_svd_qn():
    rng = np.random.default_rng(1234)
    cases = [
        (3, 2, 4, 1, [2], False),
        (5, 3, 2, 1, [3], True),
        (1, 2, 1, 1, None, False),
        (3, 3, 5, 3, None, True),
        (4, 2, 6, 2, [2, 1], True),
        (6, 2, 3, 2, [1, 1], False),
        (12, 2, 2, 1, [2], False),
        (1, 1, 1, 1, None, True),
    ]
    for ic, (dl, ds, dr, qs, qntot, cplx) in enumerate(cases):
        qntot0 = None if qntot is None else np.array(qntot)
        for system_left in (True, False):
            arr, qbl, qbr, qntot = random_qn_array(rng, dl, ds, dr, qs, qntot0, cplx, system_left)
            for kwargs in (
                dict(),
                dict(full_matrices=False),
                dict(full_matrices=True, opt_full_matrices=False),
                dict(QR=True, system="L"),
                dict(QR=True, system="R"),
                dict(QR=True, system="L", full_matrices=False),
                dict(QR=True, system="R", full_matrices=False),
                dict(QR=True),
                dict(QR=True, system="X", full_matrices=False),
                dict(QR=1, system="L", full_matrices=0),
                dict(QR=0, system="R", full_matrices=1, opt_full_matrices=0),
            ):
                label = f"svd_qn case{ic} left={system_left} {sorted(kwargs.items())}"
                np.random.seed(7)
                res = attempt(label, lambda: svd_qn(arr, qbl, qbr, qntot, **kwargs))
                if res is None:
                    continue
                print(label, len(res))
                for ir, r in enumerate(res):
                    print("   ", ir, type(r).__name__, dig(r))
                if len(res) == 6:
                    print("    su is sv:", res[1] is res[4])
    # invalid quantum numbers
    arr = rng.standard_normal((2, 2, 2))
    qbl = np.zeros((2, 2, 1), dtype=int)
    qbr = np.zeros((2, 1), dtype=int)
    for kwargs in (dict(), dict(QR=True), dict(QR=True, system="L"), dict(full_matrices=False)):
        attempt(f"svd_qn invalid {sorted(kwargs.items())}",
                lambda: svd_qn(arr, qbl, qbr, np.array([5]), **kwargs))
    # qntot with wrong ndim
    attempt("svd_qn qntot2d", lambda: svd_qn(arr, qbl, qbr, np.array([[0]])))
    # unbalanced shape triggers the optimized svd path
    arr = rng.standard_normal((1, 2, 20))
    qbl = np.zeros((1, 2, 1), dtype=int)
    qbr = np.zeros((20, 1), dtype=int)
    np.random.seed(11)
    res = svd_qn(arr, qbl, qbr, np.array([0]))
    print("svd_qn unbalanced")
    for ir, r in enumerate(res):
        print("   ", ir, type(r).__name__, dig(r))


# --------------------------------------------------------------------------
# 2. MatrixProduct.canonicalise / compress / _push_cano
# --------------------------------------------------------------------------
def state_digest(label, mp):
    print(label, "qnidx", mp.qnidx, "to_right", mp.to_right, "bond", list(mp.bond_dims),
          "dtype", np.dtype(mp.dtype).name, "qntot", np.array(mp.qntot).tolist())
    for i, mt in enumerate(mp):
        print("    mt", i, dig(mt.array))
    for i, qn in enumerate(mp.qn):
        print("    qn", i, type(qn).__name__, np.array(qn).tolist())


def dense(mp):
    try:
        return dig(mp.todense())
    except BaseException as e:  # noqa
        return "todense EXC " + type(e).__name__


def prepare(mp, to_right):
    mp = mp.copy()
    if to_right:
        mp.move_qnidx(0)
        mp.to_right = True
    else:
        mp.move_qnidx(mp.site_num - 1)
        mp.to_right = False
    return mp


def exercise(name, mp, big=False):
    n = mp.site_num
    for to_right in (True, False):
        base = prepare(mp, to_right)
        print(name, "dir", to_right, "dense", dense(base))
        # full canonicalisation, idempotence
        m = base.copy()
        r = attempt(f"{name} cano", lambda: m.canonicalise())
        if r is not None:
            print("   returned self:", r is m)
            state_digest(f"{name} cano dir={to_right}", m)
            print("   dense", dense(m), "lcan", m.check_left_canonical(), "rcan", m.check_right_canonical())
            r2 = attempt(f"{name} cano twice", lambda: m.canonicalise())
            if r2 is not None:
                state_digest(f"{name} cano2 dir={to_right}", m)
                # compression variants start from the canonical state
                variants = [
                    ("none", dict()),
                    ("int3", dict(temp_m_trunc=3)),
                    ("int1", dict(temp_m_trunc=1)),
                    ("int100s", dict(temp_m_trunc=100, ret_s=True)),
                    ("list", dict(temp_m_trunc=[1] + [2 + (i % 3) for i in range(n - 1)] + [1])),
                    ("tuple", dict(temp_m_trunc=tuple([1] + [4] * (n - 1) + [1]), ret_s=True)),
                    ("array", dict(temp_m_trunc=np.array([1] + [2] * (n - 1) + [1]))),
                    ("shortlist", dict(temp_m_trunc=[5])),
                    ("rets", dict(ret_s=True)),
                    ("rets1", dict(ret_s=1)),
                ]
                for vn, kw in variants:
                    c = m.copy()
                    res = attempt(f"{name} compress {vn} dir={to_right}", lambda: c.compress(**kw))
                    if res is None:
                        state_digest(f"{name} compress {vn} after exc", c)
                        continue
                    if isinstance(res, tuple):
                        print("   ret tuple", res[0] is c, dig(res[1]))
                    else:
                        print("   ret self", res is c)
                    state_digest(f"{name} compress {vn} dir={to_right}", c)
                    print("   dense", dense(c))
                # configs
                for cfgname, cfg in (
                    ("thr", CompressConfig(CompressCriteria.threshold, threshold=1e-3)),
                    ("fixed", CompressConfig(CompressCriteria.fixed, max_bonddim=3)),
                    ("both", CompressConfig(CompressCriteria.both, threshold=1e-5, max_bonddim=4)),
                ):
                    c = m.copy()
                    c.compress_config = cfg
                    res = attempt(f"{name} compress cfg {cfgname}", lambda: c.compress())
                    state_digest(f"{name} compress cfg {cfgname} dir={to_right}", c)
                    print("   max_dims", None if c.compress_config.max_dims is None
                          else np.array(c.compress_config.max_dims).tolist())
                    # a second, opposite sweep
                    res = attempt(f"{name} compress cfg {cfgname} 2nd", lambda: c.compress())
                    state_digest(f"{name} compress2 cfg {cfgname} dir={to_right}", c)
        # compress with the wrong start position
        c = base.copy()
        c.to_right = not c.to_right
        attempt(f"{name} compress wrong dir", lambda: c.compress())
        attempt(f"{name} cano wrong dir", lambda: c.canonicalise())
        # partial canonicalisation
        if big:
            stops = [None, 0, n - 1, n // 2]
        else:
            stops = [None] + list(range(-1, n + 1))
        for stop in stops:
            m = base.copy()
            r = attempt(f"{name} cano stop={stop} dir={to_right}", lambda: m.canonicalise(stop))
            state_digest(f"{name} cano stop={stop} dir={to_right} ok={r is not None}", m)
        # a single push
        m = base.copy()
        r = attempt(f"{name} push dir={to_right}", lambda: m._push_cano(m.qnidx))
        state_digest(f"{name} push dir={to_right}", m)


def run_mp():
    np.random.seed(2024)
    # holstein model, one qn
    model = custom_model(n_phys_dim=(2, 2))
    a = Mps.random(model, 1, 6, percent=1.0)
    b = Mps.random(model, 1, 4, percent=1.0)
    exercise("mps_rand", a, big=True)
    s = a + b
    exercise("mps_sum", s + a, big=True)
    sc = (a.to_complex() * (0.3 + 0.4j)) + b
    exercise("mps_cplx", sc, big=True)
    # zero quantum number (ground state), bonds of dimension 1
    gs = Mps.ground_state(model, False)
    exercise("mps_gs", gs, big=True)
    exercise("mps_gs_sum", gs + gs, big=True)

    # operator
    small = custom_model(custom_j_matrix=np.array([[0.0, -0.004], [-0.004, 0.0]]), n_phys_dim=(2, 2), nmols=2)
    mpo = Mpo(small)
    exercise("mpo", mpo, big=True)
    exercise("mpo_sum", mpo + mpo.scale(0.5), big=True)
    exercise("mpo_cplx", mpo.scale(1j) + mpo, big=True)
    onsite = Mpo.onsite(small, r"a^\dagger", dof_set={0})
    exercise("mpo_onsite", onsite, big=True)

    # density operator
    dm = MpDm.max_entangled_ex(small)
    exercise("mpdm_ex", dm, big=True)
    dm2 = MpDm.max_entangled_gs(small)
    exercise("mpdm_gs", dm2 + dm2, big=True)

    # spin chain, two conserved quantum numbers
    for nsite in (1, 2, 3, 5):
        basis = [BasisHalfSpin(i, sigmaqn=[[0, 1], [1, 0]]) for i in range(nsite)]
        ham = [Op("Z", i) for i in range(nsite)] + [Op("+ -", [i, i + 1]) + Op("- +", [i, i + 1]) for i in range(nsite - 1)]
        ham_terms = []
        for t in ham:
            if isinstance(t, Op):
                ham_terms.append(t)
            else:
                ham_terms.extend(t)
        m2 = Model(basis, ham_terms)
        nup = nsite // 2
        qntot = np.array([nup, nsite - nup])
        r = attempt(f"spin{nsite} random", lambda: Mps.random(m2, qntot, 5, percent=1.0))
        if r is not None:
            exercise(f"spin{nsite}_mps", r)
            if nsite > 1:
                r2 = Mps.random(m2, qntot, 3, percent=1.0)
                exercise(f"spin{nsite}_mps_sum_c", r + r2.to_complex().scale(1j))
        o = attempt(f"spin{nsite} mpo", lambda: Mpo(m2))
        if o is not None:
            exercise(f"spin{nsite}_mpo", o)
            exercise(f"spin{nsite}_mpo_sum", o + o)

    # one and two site chains without symmetry
    for nsite in (1, 2):
        basis = [BasisSHO(i, 1.0 + i, 3) for i in range(nsite)]
        ham_terms = [Op(r"b^\dagger b", i, 1.0 + i) for i in range(nsite)] + [Op("x", i, 0.1) for i in range(nsite)]
        if nsite == 2:
            ham_terms.append(Op("x x", [0, 1], 0.2))
        m3 = Model(basis, ham_terms)
        r = attempt(f"sho{nsite} random", lambda: Mps.random(m3, 0, 4, percent=1.0))
        if r is not None:
            exercise(f"sho{nsite}_mps", r)
        o = attempt(f"sho{nsite} mpo", lambda: Mpo(m3))
        if o is not None:
            exercise(f"sho{nsite}_mpo", o)

    # rank deficient bond: product with a zero block
    m = Mps.random(model, 1, 5, percent=1.0)
    arr = asnumpy(m[2].array).copy()
    arr[:, :, -1] = arr[:, :, 0]
    m[2] = arr
    m.qn[3] = np.array(m.qn[3])
    m.qn[3][-1] = m.qn[3][0]
    exercise("mps_rankdef", m, big=True)

    # to_right is None
    big_model = holstein_model
    exercise("mps_holstein", Mps.random(big_model, 1, 8, percent=1.0) + Mps.random(big_model, 1, 5, percent=1.0), big=True)
    m = Mps.random(model, 1, 3, percent=1.0)
    m.to_right = None
    attempt("to_right None cano", lambda: m.canonicalise())
    state_digest("to_right None", m)
    m = Mps.random(model, 1, 3, percent=1.0)
    m.to_right = None
    attempt("to_right None compress", lambda: m.compress())
    state_digest("to_right None compress", m)


if __name__ == "__main__":
    run_svd_qn()
    run_mp()
