class print_tree:
    """stub of the uninstalled print_tree package"""
    pass
