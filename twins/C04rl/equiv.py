import sys, types, os, hashlib
sys.path.insert(0, os.path.dirname(os.path.abspath(__file__)))
_pt = types.ModuleType("print_tree"); _pt.print_tree = object; sys.modules.setdefault("print_tree", _pt)

import logging
logging.disable(logging.CRITICAL)

import numpy as np

from renormalizer.model import Model, Op
from renormalizer.model.basis import BasisHalfSpin, BasisSHO, BasisSimpleElectron
from renormalizer.mps import Mps, Mpo, MpDm
from renormalizer.mps.mp import MatrixProduct
from renormalizer.mps import svd_qn as sq
from renormalizer.tests import parameter


def h(a):
    a = np.asarray(a)
    if a.dtype == object:
        return repr(a)
    r = np.round(a, 7) + 0.0
    if np.iscomplexobj(r):
        r = np.round(r.real, 7) + 0.0 + 1j * (np.round(r.imag, 7) + 0.0)
    return "%s %s %s %s" % (a.dtype, a.shape, hashlib.md5(np.ascontiguousarray(r).tobytes()).hexdigest()[:12],
                            np.round(np.abs(a).sum(), 6))


def digest_mp(tag, mp):
    print(tag, type(mp).__name__, "qnidx", mp.qnidx, "to_right", mp.to_right, "qntot", np.asarray(mp.qntot).tolist())
    for i, mt in enumerate(mp):
        arr = mt.array
        print("   site", i, h(arr), "C" if arr.flags.c_contiguous else "nc", "own" if arr.base is None else "view")
    for i, q in enumerate(mp.qn):
        print("   qn", i, np.asarray(q).tolist())


def show(tag, res):
    out = []
    for r in res:
        if isinstance(r, np.ndarray):
            out.append(h(r))
        else:
            out.append(repr(r))
    print(tag, " | ".join(out))


# ---------------------------------------------------------------- svd_qn / blockrecover
def svd_cases():
    rng = np.random.RandomState(1234)
    case = 0
    for qn_size in (1, 2):
        for cplx in (False, True):
            for shape_l, shape_r in (((3, 2), (4,)), ((1,), (2, 5)), ((4,), (1,)), ((2, 2), (2, 2)), ((7,), (2,)),
                                     ((1,), (1,))):
                case += 1
                nl = int(np.prod(shape_l))
                nr = int(np.prod(shape_r))
                qnl = rng.randint(0, 2, size=shape_l + (qn_size,))
                qnr = rng.randint(0, 2, size=shape_r + (qn_size,))
                qntot = np.array([1] * qn_size)
                a = rng.rand(*(shape_l + shape_r)) - 0.5
                if cplx:
                    a = a + 1j * (rng.rand(*a.shape) - 0.5)
                # zero the symmetry-forbidden entries
                mask = sq.get_qn_mask(sq.add_outer(qnl, qnr), qntot)
                a = a * mask
                for kw in (
                    dict(),
                    dict(full_matrices=False),
                    dict(full_matrices=True, opt_full_matrices=False),
                    dict(QR=True, system="L"),
                    dict(QR=True, system="R"),
                    dict(QR=True, system="L", full_matrices=False),
                    dict(QR=True, system="R", full_matrices=False),
                    dict(QR=True),
                    dict(QR=True, system="X", full_matrices=False),
                ):
                    np.random.seed(7)
                    a_in = a.copy()
                    try:
                        res = sq.svd_qn(a_in, qnl, qnr, qntot, **kw)
                    except Exception as e:
                        print("svd", case, sorted(kw.items()), "EXC", type(e).__name__, e)
                        continue
                    assert np.array_equal(a_in, a)
                    show("svd %d %s" % (case, sorted(kw.items())), res)
    # degenerate singular values (tie case), unbalanced shapes triggering the optimised path
    a = np.eye(4)
    qnl = np.array([[0], [0], [1], [1]])
    qnr = np.array([[1], [1], [0], [0]])
    for kw in (dict(), dict(full_matrices=False), dict(QR=True, system="L"), dict(QR=True, system="R", full_matrices=False)):
        show("svd tie %s" % sorted(kw.items()), sq.svd_qn(a, qnl, qnr, np.array([1]), **kw))
    a = rng.rand(40, 3)
    qnl = np.zeros((40, 1), dtype=int)
    qnr = np.ones((3, 1), dtype=int)
    for kw in (dict(), dict(full_matrices=False), dict(opt_full_matrices=False), dict(QR=True, system="L")):
        np.random.seed(11)
        show("svd tall %s" % sorted(kw.items()), sq.svd_qn(a, qnl, qnr, np.array([1]), **kw))
        np.random.seed(11)
        show("svd wide %s" % sorted(kw.items()), sq.svd_qn(a.T.copy(), qnr, qnl, np.array([1]), **kw))
    # invalid quantum number
    try:
        sq.svd_qn(rng.rand(2, 2), np.zeros((2, 1), dtype=int), np.zeros((2, 1), dtype=int), np.array([3]))
    except Exception as e:
        print("svd invalid", type(e).__name__, e)
    try:
        sq.svd_qn(rng.rand(2, 2), np.zeros((2, 1), dtype=int), np.zeros((2, 1), dtype=int), np.array([[0]]))
    except Exception as e:
        print("svd ndim", type(e).__name__, e)
    # blockrecover
    for dt in (float, complex, np.float32, int):
        U = (rng.rand(3, 2) * 10).astype(dt)
        for idx in ([0, 2, 5], np.array([4, 1, 0]), [1, 1, 2]):
            r = sq.blockrecover(idx, U, 6)
            print("blockrecover", np.dtype(dt), list(idx), h(r), r.tolist())
    try:
        sq.blockrecover([0, 9, 1], rng.rand(3, 2), 4)
    except Exception as e:
        print("blockrecover exc", type(e).__name__)
    print("blockrecover empty", sq.blockrecover([], np.zeros((0, 2)), 3).tolist())


# ---------------------------------------------------------------- matrix products
def spin_model(n):
    basis = []
    for i in range(n):
        sigmaqn = np.array([[0, 0], [1, 0]]) if i % 2 == 0 else np.array([[0, 0], [0, 1]])
        basis.append(BasisHalfSpin(i, sigmaqn=sigmaqn))
    ham = [Op("sigma_z", i, 1.0) for i in range(n)]
    return Model(basis, ham)


def canon_report(tag, mp):
    res = []
    for args in ((), (None, None), (1e-3, 1e-3), (1e-14, 1e-14)):
        res.append((repr(mp.check_left_canonical(*args)), repr(mp.check_right_canonical(*args))))
    print(tag, "check", res)


def mp_cases():
    np.random.seed(2024)
    hol = parameter.holstein_model
    mps_list = []
    m = Mps.random(hol, 1, 10)
    mps_list.append(("hol_real", m))
    m2 = Mps.random(hol, 1, 6).to_complex()
    m2 = m2.scale(0.3 + 0.7j)
    mps_list.append(("hol_cplx", m2))
    sm = spin_model(6)
    mps_list.append(("spin_2qn", Mps.random(sm, np.array([2, 1]), 8)))
    mps_list.append(("spin_sum", Mps.random(sm, np.array([1, 1]), 3) + Mps.random(sm, np.array([1, 1]), 4)))
    one = Model([BasisSHO("v", 1.0, 4)], [Op(r"b^\dagger b", "v")])
    mps_list.append(("one_site", Mps.random(one, 0, 5)))
    two = Model([BasisSimpleElectron(0), BasisSimpleElectron(1)], [Op(r"a^\dagger a", 0)])
    mps_list.append(("two_site", Mps.random(two, 1, 5)))
    mpo = Mpo(hol)
    mps_list.append(("mpo", mpo))
    mps_list.append(("mpo_sum", mpo + mpo.scale(0.5j)))
    mps_list.append(("mpo_spin", Mpo(sm)))
    mps_list.append(("mpdm", MpDm.max_entangled_ex(hol)))
    mps_list.append(("mpdm_applied", mpo @ MpDm.max_entangled_ex(hol)))

    for tag, mp in mps_list:
        digest_mp(tag + " initial", mp)
        canon_report(tag + " initial", mp)
        # ensure_left_canonical from every state
        for prep in ("asis", "cano", "cano2", "stop", "moved", "flip"):
            c = mp.copy()
            try:
                if prep == "cano":
                    c.canonicalise()
                elif prep == "cano2":
                    c.canonicalise().canonicalise()
                elif prep == "stop":
                    c.canonicalise(stop_idx=len(c) // 2)
                elif prep == "moved":
                    c.move_qnidx(len(c) // 2)
                elif prep == "flip":
                    c.to_right = not c.to_right
                canon_report("%s %s" % (tag, prep), c)
                for args in ((), (1e-3, 1e-3), (1e-15, 1e-15)):
                    d = c.copy()
                    r = d.ensure_left_canonical(*args)
                    print(tag, prep, args, "ensure_left returns self:", r is d)
                    digest_mp("%s %s %s ensure_left" % (tag, prep, args), d)
                    canon_report("%s %s %s after" % (tag, prep, args), d)
                    r2 = d.ensure_left_canonical(*args)
                    digest_mp("%s %s %s ensure_left twice" % (tag, prep, args), r2)
                d = c.copy()
                r = d.ensure_right_canonical()
                digest_mp("%s %s ensure_right" % (tag, prep), r)
            except Exception as e:
                print(tag, prep, "EXC", type(e).__name__, e)
        # canonicalise / compress in both directions (drives _update_ms with and without sigma)
        for trunc in (None, 1, 3, 1000, [2] * (len(mp) + 1)):
            c = mp.copy()
            try:
                c.ensure_left_canonical()
                digest_mp("%s left" % tag, c)
                r, s = c.compress(temp_m_trunc=trunc, ret_s=True)
                digest_mp("%s compress1 %s" % (tag, trunc), r)
                print("   s", h(s))
                r.compress(temp_m_trunc=trunc)
                digest_mp("%s compress2 %s" % (tag, trunc), r)
                r.canonicalise(stop_idx=len(r) // 2)
                digest_mp("%s partial %s" % (tag, trunc), r)
            except Exception as e:
                print(tag, "compress", trunc, "EXC", type(e).__name__, e)

    # direct calls of _update_ms
    rng = np.random.RandomState(99)
    for tag, mp in mps_list:
        if len(mp) < 2:
            continue
        for to_right in (True, False):
            for use_sigma in (False, True):
                for use_qn in (False, True):
                    for m_trunc in (None, 1, 2, 50):
                        for cplx in (False, True):
                            c = mp.copy()
                            c.to_right = to_right
                            idx = 1 if len(c) > 2 else (0 if to_right else 1)
                            mt = c[idx]
                            if to_right:
                                rows = mt.shape[0] * int(mt.pdim_prod)
                                k = min(rows, mt.shape[-1]) + 1
                                u = rng.rand(rows, k) - 0.5
                                vt = rng.rand(k, mt.shape[-1]) - 0.5
                            else:
                                cols = mt.shape[-1] * int(mt.pdim_prod)
                                k = min(cols, mt.shape[0]) + 1
                                u = rng.rand(mt.shape[0], k) - 0.5
                                vt = rng.rand(k, cols) - 0.5
                            if cplx:
                                u = u + 1j * rng.rand(*u.shape)
                                vt = vt * (1 + 0.5j)
                            sigma = np.sort(rng.rand(k))[::-1] if use_sigma else None
                            qnl = rng.randint(0, 2, size=(k, len(c.qntot))).tolist() if use_qn else None
                            qnr = rng.randint(0, 2, size=(k, len(c.qntot))).tolist() if use_qn else None
                            u_in, vt_in = u, vt
                            s_in = None if sigma is None else sigma.copy()
                            label = "%s upd tr=%s sig=%s qn=%s m=%s c=%s" % (tag, to_right, use_sigma, use_qn, m_trunc, cplx)
                            try:
                                ret = c._update_ms(idx, u, vt, sigma, qnl, qnr, m_trunc)
                            except Exception as e:
                                print(label, "EXC", type(e).__name__, e)
                                continue
                            print(label, "ret", ret, "u", h(u_in), "vt", h(vt_in),
                                  "sigma_same", s_in is None or np.array_equal(s_in, sigma))
                            digest_mp(label, c)
    # _update_ms with an all-zero factor -> assertion, partially mutated state
    c = mps_list[0][1].copy()
    c.to_right = True
    mt = c[1]
    u = np.zeros((mt.shape[0] * int(mt.pdim_prod), 2))
    vt = np.ones((2, mt.shape[-1]))
    try:
        c._update_ms(1, u, vt, np.array([1.0, 0.5]), None, None, None)
    except Exception as e:
        print("zero factor EXC", type(e).__name__)
    digest_mp("zero factor state", c)
    # base class without is_mpo
    base = MatrixProduct()
    base._mp = [None, None]
    base.to_right = True
    for sig in (None, np.ones(2), 3):
        try:
            base._update_ms(0, np.ones((2, 2)), np.ones((2, 2)), sig)
        except Exception as e:
            print("base class", type(sig).__name__, "EXC", type(e).__name__)
    empty = Mps()
    print("empty check", repr(empty.check_left_canonical()), repr(empty.check_right_canonical()))


if __name__ == "__main__":
    svd_cases()
    mp_cases()
