import sys, types
_pt = types.ModuleType("print_tree"); _pt.print_tree = object; sys.modules.setdefault("print_tree", _pt)

import hashlib
import logging

import numpy as np

logging.disable(logging.CRITICAL)

from renormalizer import Mps, Mpo, Model, BasisHalfSpin, Op
from renormalizer.mps import MpDm
from renormalizer.mps import svd_qn
from renormalizer.model.model import heisenberg_ops
from renormalizer.utils import CompressConfig, CompressCriteria
from renormalizer.tests.parameter import holstein_model
from renormalizer.tn.node import TreeNodeBasis
from renormalizer.tn.tree import TTNS, TTNO
from renormalizer.tn.treebase import BasisTree


def h(a):
    a = np.ascontiguousarray(np.asarray(a))
    return hashlib.sha256(a.tobytes()).hexdigest()[:16]


def arr_digest(a):
    a = np.asarray(a)
    return (a.shape, str(a.dtype), bool(a.flags["C_CONTIGUOUS"]), bool(a.flags["OWNDATA"]),
            round(float(np.abs(a).sum()), 9), h(a))


def mp_digest(mp):
    out = [type(mp).__name__, "to_right=%s" % mp.to_right, "qnidx=%s" % mp.qnidx,
           "bond_dims=%s" % list(mp.bond_dims), "dtype=%s" % mp.dtype]
    for i in range(len(mp)):
        out.append(arr_digest(mp[i].array))
    out.append([arr_digest(np.asarray(q)) for q in mp.qn])
    cc = mp.compress_config
    out.append(("max_dims", None if cc.max_dims is None else list(np.asarray(cc.max_dims))))
    return out


def show(tag, obj):
    print(tag)
    if isinstance(obj, list):
        for o in obj:
            print("   ", o)
    else:
        print("   ", obj)


def guarded(tag, f):
    try:
        res = f()
    except Exception as e:  # the exception type and text is part of the digest
        show(tag, "EXC %s: %s" % (type(e).__name__, str(e)[:200]))
        return None
    return res


# ----------------------------------------------------------------------------
# CompressConfig._threshold_m_trunc / compute_m_trunc
# ----------------------------------------------------------------------------
def config_section():
    rng = np.random.RandomState(11)
    sigmas = [
        np.sort(rng.rand(7))[::-1],
        np.array([1.0]),
        np.array([0.5, 0.5, 0.5, 0.5]),
        np.array([1.0, 1e-3, 1e-3, 1e-9]),
        np.array([3.0, 0.0, 0.0]),
        np.array([]),
        np.array([1.0, np.nan, 0.2]),
        np.array([[0.9, 0.3], [0.2, 0.01]]),
        np.sort(rng.rand(5)).astype(np.float32)[::-1],
        [0.5, 0.4],
    ]
    for thr in [1e-3, 0.3, 0.5, 0.999]:
        for crit in [CompressCriteria.threshold, CompressCriteria.fixed, CompressCriteria.both, "threshold"]:
            cc = CompressConfig(crit, threshold=thr, max_bonddim=3)
            if cc.bonddim_should_set:
                cc.set_bonddim(6)
            for k, s in enumerate(sigmas):
                def f():
                    a = cc._threshold_m_trunc(s)
                    b = cc.compute_m_trunc(s, 2, True)
                    c = cc.compute_m_trunc(s, 2, False)
                    return (type(a).__name__, a, type(b).__name__, int(b), type(c).__name__, int(c))
                import warnings
                with warnings.catch_warnings():
                    warnings.simplefilter("ignore")
                    r = guarded("cfg thr=%s crit=%s sigma#%d" % (thr, crit, k), f)
                if r is not None:
                    show("cfg thr=%s crit=%s sigma#%d" % (thr, crit, k), r)


# ----------------------------------------------------------------------------
# MatrixProduct.compress / _update_ms
# ----------------------------------------------------------------------------
def make_mps(seed, nex, m, cplx=False, model=holstein_model):
    np.random.seed(seed)
    mps = Mps.random(model, nex, m, 1.0)
    if cplx:
        np.random.seed(seed + 1)
        other = Mps.random(model, nex, m, 1.0)
        mps = mps.to_complex() + other.scale(1j * 0.7)
        mps.canonicalise()
        mps.canonicalise()
    return mps


def prep(mps, direction):
    """bring a copy into the requested gauge: 'L' = qnidx 0 / to_right True"""
    mps = mps.copy()
    mps.ensure_right_canonical() if direction == "L" else mps.ensure_left_canonical()
    return mps


def compress_case(tag, mps, direction, crit=None, thr=None, mdim=None, max_dims=None, **kw):
    def f():
        m = prep(mps, direction)
        if crit is not None:
            m.compress_config = CompressConfig(crit, threshold=thr if thr is not None else 1e-3,
                                               max_bonddim=mdim if mdim is not None else 32)
            if max_dims is not None:
                m.compress_config.max_dims = np.array(max_dims)
        norm0 = m.mp_norm
        res = m.compress(**kw)
        out = []
        if isinstance(res, tuple):
            assert res[0] is m
            out.append(("s_array", arr_digest(res[1])))
        else:
            assert res is m
        out += mp_digest(m)
        out.append(("norm", round(norm0, 10), round(m.mp_norm, 10)))
        return out
    r = guarded(tag, f)
    if r is not None:
        show(tag, r)


def mp_section():
    nsite = holstein_model.nsite
    states = {
        "real-ex1": make_mps(1, 1, 12),
        "real-ex0": make_mps(2, 0, 9),
        "real-ex2": make_mps(3, 2, 14),
        "cplx-ex1": make_mps(4, 1, 8, cplx=True),
    }
    for name, mps in states.items():
        for direction in "LR":
            t = "compress %s %s " % (name, direction)
            compress_case(t + "default", mps, direction)
            compress_case(t + "thr0.1", mps, direction, CompressCriteria.threshold, thr=0.1)
            compress_case(t + "thr0.6 ret_s", mps, direction, CompressCriteria.threshold, thr=0.6, ret_s=True)
            compress_case(t + "fixed4", mps, direction, CompressCriteria.fixed, mdim=4)
            compress_case(t + "fixed1 ret_s", mps, direction, CompressCriteria.fixed, mdim=1, ret_s=True)
            compress_case(t + "fixed-list", mps, direction, CompressCriteria.fixed,
                          max_dims=[1, 2, 3, 4, 5, 4, 3, 2, 2, 1][:nsite + 1])
            compress_case(t + "both", mps, direction, CompressCriteria.both, thr=0.05, mdim=5)
            compress_case(t + "fixed100 (rank below M)", mps, direction, CompressCriteria.fixed, mdim=100)
            compress_case(t + "temp int", mps, direction, temp_m_trunc=3)
            compress_case(t + "temp int kw over fixed", mps, direction, CompressCriteria.fixed, mdim=2,
                          temp_m_trunc=6, ret_s=True)
            compress_case(t + "temp inf ret_s", mps, direction, temp_m_trunc=np.inf, ret_s=True)
            compress_case(t + "temp list", mps, direction, temp_m_trunc=list(range(1, nsite + 2)))
            compress_case(t + "temp tuple", mps, direction, temp_m_trunc=tuple([2] * (nsite + 1)), ret_s=True)
            compress_case(t + "temp ndarray", mps, direction,
                          temp_m_trunc=np.array([1, 5, 4, 3, 2, 3, 4, 5, 6, 1][:nsite + 1]))
            compress_case(t + "temp short list", mps, direction, temp_m_trunc=[2, 2])
            compress_case(t + "temp np.int64", mps, direction, temp_m_trunc=np.int64(3))
            compress_case(t + "temp float", mps, direction, temp_m_trunc=2.0)
            compress_case(t + "temp 0", mps, direction, temp_m_trunc=0)
            compress_case(t + "temp str", mps, direction, temp_m_trunc="3")

    # wrong gauge: the entry assertion fires
    def wrong():
        m = prep(states["real-ex1"], "L")
        m.to_right = False
        return m.compress()
    guarded("compress wrong gauge", wrong)

    def to_right_none():
        m = prep(states["real-ex1"], "R")
        m.to_right = None
        return mp_digest(m.compress(temp_m_trunc=3))
    r = guarded("compress to_right None", to_right_none)
    if r is not None:
        show("compress to_right None", r)

    # MPO and MpDm
    mpo = Mpo(holstein_model)
    for direction in "LR":
        for kw in [dict(), dict(temp_m_trunc=4), dict(temp_m_trunc=3, ret_s=True)]:
            def f():
                m = mpo.copy()
                # canonicalise goes through _push_cano -> _update_ms(sigma=None) for an MPO
                m.ensure_right_canonical() if direction == "L" else m.ensure_left_canonical()
                out = [("after cano",)] + mp_digest(m)
                res = m.compress(**kw)
                if isinstance(res, tuple):
                    out.append(("s_array", arr_digest(res[1])))
                out += mp_digest(m)
                return out
            t = "mpo %s %s" % (direction, sorted(kw.items()))
            r = guarded(t, f)
            if r is not None:
                show(t, r)
        for crit, thr, mdim in [(CompressCriteria.threshold, 1e-2, 32), (CompressCriteria.fixed, 1e-3, 3),
                                (CompressCriteria.both, 1e-4, 4)]:
            def f():
                m = mpo.copy()
                m.compress_config = CompressConfig(crit, threshold=thr, max_bonddim=mdim)
                m.ensure_right_canonical() if direction == "L" else m.ensure_left_canonical()
                m.compress()
                return mp_digest(m)
            t = "mpo %s %s" % (direction, crit)
            r = guarded(t, f)
            if r is not None:
                show(t, r)

    mpdm = MpDm.max_entangled_ex(holstein_model)
    mpdm = (Mpo(holstein_model) @ mpdm)
    for direction in "LR":
        for kw in [dict(), dict(temp_m_trunc=3, ret_s=True)]:
            def f():
                m = mpdm.copy()
                m.ensure_right_canonical() if direction == "L" else m.ensure_left_canonical()
                res = m.compress(**kw)
                out = mp_digest(m)
                if isinstance(res, tuple):
                    out.append(("s_array", arr_digest(res[1])))
                return out
            t = "mpdm %s %s" % (direction, sorted(kw.items()))
            r = guarded(t, f)
            if r is not None:
                show(t, r)

    # spin chain with non-trivial U(1) sectors and a different total quantum number
    nspin = 6
    spin_basis = [BasisHalfSpin(i, sigmaqn=[-1, 1]) for i in range(nspin)]
    spin_model = Model(spin_basis, heisenberg_ops(nspin))
    for qn in [0, 2, 4]:
        for direction in "LR":
            s = make_mps(20 + qn, qn, 6, model=spin_model)
            compress_case("spin qn=%d %s temp2" % (qn, direction), s, direction, temp_m_trunc=2, ret_s=True)
            compress_case("spin qn=%d %s thr" % (qn, direction), s, direction, CompressCriteria.threshold, thr=0.2)

    # one- and two-site chains
    for n in [1, 2]:
        small = Model([BasisHalfSpin(i, sigmaqn=[0, 0]) for i in range(n)], [Op("sigma_z", 0)])
        for kw in [dict(), dict(ret_s=True), dict(temp_m_trunc=1, ret_s=True)]:
            def f():
                np.random.seed(5)
                m = Mps.random(small, 0, 2, 1.0)
                if n > 1:
                    m.ensure_right_canonical()
                else:
                    m.qnidx = 0
                    m.to_right = True
                res = m.compress(**kw)
                out = mp_digest(m)
                if isinstance(res, tuple):
                    out.append(("s_array", arr_digest(res[1])))
                return out
            t = "small n=%d %s" % (n, sorted(kw.items()))
            r = guarded(t, f)
            if r is not None:
                show(t, r)

    # direct calls of _update_ms
    base_states = [("mps-real", states["real-ex1"]), ("mps-cplx", states["cplx-ex1"]), ("mpo", mpo)]
    for name, st in base_states:
        for direction in "LR":
            for variant in range(9):
                def f():
                    m = st.copy()
                    m.ensure_right_canonical() if direction == "L" else m.ensure_left_canonical()
                    idx = m.qnidx
                    qnbigl, qnbigr, _ = m._get_big_qn([idx])
                    system = "L" if m.to_right else "R"
                    u, sigma, qnlset, v, sigma, qnrset = svd_qn.svd_qn(
                        m[idx].array, qnbigl, qnbigr, m.qntot, system=system, full_matrices=False)
                    vt = v.T
                    if variant == 0:
                        ret = m._update_ms(idx, u, vt, sigma, qnlset, qnrset, 2)
                    elif variant == 1:
                        ret = m._update_ms(idx, u, vt, sigma, qnlset, qnrset)
                    elif variant == 2:
                        ret = m._update_ms(idx, u, vt)
                    elif variant == 3:
                        ret = m._update_ms(idx, u, vt, sigma=sigma, m_trunc=1)
                    elif variant == 4:
                        ret = m._update_ms(idx, u, vt, None, qnlset, qnrset, len(sigma))
                    elif variant == 5:
                        ret = m._update_ms(idx, u.copy(), vt.copy(), sigma, qnlset=qnlset, m_trunc=3)
                    elif variant == 6:
                        # zero block: the non-zero assertion
                        ret = m._update_ms(idx, u * 0, vt * 0, sigma, qnlset, qnrset, 2)
                    elif variant == 7:
                        m.to_right = None
                        ret = m._update_ms(idx, u, vt, sigma, qnlset, qnrset, 2)
                    else:
                        ret = m._update_ms(idx, u.copy(), vt.copy(), sigma, qnrset=qnrset, m_trunc=1)
                    return [("ret", ret), ("u", arr_digest(u)), ("vt", arr_digest(vt)),
                            ("sigma", arr_digest(sigma))] + mp_digest(m)
                t = "_update_ms %s %s v%d" % (name, direction, variant)
                r = guarded(t, f)
                if r is not None:
                    show(t, r)


# ----------------------------------------------------------------------------
# TTNS.compress_node (through TTNS.compress and directly)
# ----------------------------------------------------------------------------
def holstein_tree():
    node_list = [TreeNodeBasis([basis]) for basis in holstein_model.basis]
    root = node_list[3]
    root.add_child(node_list[0])
    root.add_child(node_list[6])
    for i in range(3):
        node_list[3 * i].add_child(node_list[3 * i + 1])
        node_list[3 * i + 1].add_child(node_list[3 * i + 2])
    return BasisTree(root)


def multi_basis_tree(basis_list):
    node1 = TreeNodeBasis([basis_list[0], basis_list[1]])
    node2 = TreeNodeBasis([basis_list[2]])
    node3 = TreeNodeBasis([basis_list[3]])
    node4 = TreeNodeBasis([basis_list[4], basis_list[5], basis_list[6]])
    node3.add_child(node2)
    node2.add_child(node1)
    node2.add_child(node4)
    return BasisTree(node3)


def ttns_digest(ttns):
    out = ["bond_dims=%s" % list(ttns.bond_dims)]
    for node in ttns.node_list:
        out.append((arr_digest(node.tensor), arr_digest(np.asarray(node.qn))))
    cc = ttns.compress_config
    out.append(("max_dims", None if cc.max_dims is None else list(np.asarray(cc.max_dims))))
    return out


def tree_section():
    spin7 = [BasisHalfSpin(i) for i in range(7)]
    spin7_qn = [BasisHalfSpin(i, sigmaqn=[-1, 1]) for i in range(7)]
    trees = {
        "holstein": (holstein_tree, 1, 6),
        "binary": (lambda: BasisTree.binary(spin7), 0, 5),
        "multi": (lambda: multi_basis_tree(spin7), 0, 6),
        "binary-qn1": (lambda: BasisTree.binary(spin7_qn), 1, 6),
        "linear-qn3": (lambda: BasisTree.linear(spin7_qn), 3, 5),
    }
    for name, (mk, qntot, m) in trees.items():
        basis = mk()
        np.random.seed(31)
        ttns0 = TTNS.random(basis, qntot, m, 1.0)
        np.random.seed(32)
        ttns1 = TTNS.random(basis, qntot, m, 1.0)
        cplx = ttns0.add(ttns1.scale(0.5j))
        cplx.canonicalise()
        nnode = len(ttns0.node_list)
        for sname, st in [("real", ttns0), ("cplx", cplx)]:
            cases = [
                ("default", None, {}),
                ("thr0.2", CompressConfig(CompressCriteria.threshold, threshold=0.2), {}),
                ("thr0.7 ret_s", CompressConfig(CompressCriteria.threshold, threshold=0.7), dict(ret_s=True)),
                ("thr0.4 ret_s", CompressConfig(CompressCriteria.threshold, threshold=0.4), dict(ret_s=True)),
                ("fixed3", CompressConfig(CompressCriteria.fixed, max_bonddim=3), dict(ret_s=True)),
                ("fixed1", CompressConfig(CompressCriteria.fixed, max_bonddim=1), {}),
                ("fixed50", CompressConfig(CompressCriteria.fixed, max_bonddim=50), {}),
                ("both", CompressConfig(CompressCriteria.both, threshold=0.05, max_bonddim=4), {}),
                ("temp2", None, dict(temp_m_trunc=2)),
                ("temp inf", None, dict(temp_m_trunc=np.inf, ret_s=True)),
                ("temp list", None, dict(temp_m_trunc=[1 + (i % 4) for i in range(nnode + 1)], ret_s=True)),
                ("temp ndarray", None, dict(temp_m_trunc=np.array([2 + (i % 3) for i in range(nnode + 1)]))),
                ("temp tuple", None, dict(temp_m_trunc=tuple([3] * (nnode + 1)))),
                ("temp short", None, dict(temp_m_trunc=[2])),
                ("temp 0", None, dict(temp_m_trunc=0)),
            ]
            for cname, cc, kw in cases:
                def f():
                    t = st.copy()
                    if cc is not None:
                        t.compress_config = cc.copy()
                    n0 = t.norm
                    res = t.compress(**kw)
                    out = []
                    if isinstance(res, tuple):
                        assert res[0] is t
                        out.append(("s_array", arr_digest(res[1])))
                    else:
                        assert res is t
                    out += ttns_digest(t)
                    out.append(("norm", round(float(n0), 10), round(float(t.norm), 10)))
                    return out
                tag = "ttns %s %s %s" % (name, sname, cname)
                r = guarded(tag, f)
                if r is not None:
                    show(tag, r)

            # direct compress_node calls at the root, both gauges, positional and keyword
            for ichild in range(len(st.root.children)):
                for variant in range(5):
                    def f():
                        t = st.copy()
                        node = t.root
                        if variant == 0:
                            s = t.compress_node(node, ichild)
                        elif variant == 1:
                            s = t.compress_node(node, ichild, 2, False)
                        elif variant == 2:
                            s = t.compress_node(node, ichild, temp_m_trunc=[3] * (nnode + 1), cano_child=True)
                        elif variant == 3:
                            s = t.compress_node(node, ichild, cano_child=False)
                        else:
                            s = t.compress_node(node, ichild, np.int64(1))
                        return [("s", arr_digest(s))] + ttns_digest(t)
                    tag = "compress_node %s %s child%d v%d" % (name, sname, ichild, variant)
                    r = guarded(tag, f)
                    if r is not None:
                        show(tag, r)


if __name__ == "__main__":
    np.set_printoptions(precision=8, suppress=True)
    config_section()
    mp_section()
    tree_section()
