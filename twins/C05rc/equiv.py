import sys, types
_pt = types.ModuleType("print_tree"); _pt.print_tree = object; sys.modules.setdefault("print_tree", _pt)

import hashlib
import logging
from types import SimpleNamespace

import numpy

logging.disable(logging.CRITICAL)

from renormalizer.mps.backend import np
from renormalizer.mps import Mps, Mpo, MpDm
from renormalizer.mps.mp import MatrixProduct
from renormalizer.mps import svd_qn as svd_qn_mod
from renormalizer.mps.svd_qn import svd_qn, add_outer
from renormalizer.utils import CompressConfig, CompressCriteria
from renormalizer.utils.configs import CompressConfig as CC2
from renormalizer.tests.parameter import holstein_model, custom_model
from renormalizer.tn.node import TreeNodeBasis
from renormalizer.tn.treebase import BasisTree
from renormalizer.tn.tree import TTNS, TTNO, truncate_tensors
from renormalizer import BasisHalfSpin


def dig(x):
    """deterministic digest of (nested) results"""
    if isinstance(x, (tuple, list)):
        return type(x).__name__ + "[" + ", ".join(dig(i) for i in x) + "]"
    if isinstance(x, numpy.ndarray):
        a = numpy.ascontiguousarray(x)
        if a.dtype.kind in "fc":
            r = numpy.round(a, 8) + 0.0  # kill negative zeros
            if a.dtype.kind == "c":
                r = numpy.round(a.real, 8) + 0.0 + 1j * (numpy.round(a.imag, 8) + 0.0)
        else:
            r = a
        h = hashlib.md5(r.tobytes()).hexdigest()[:12]
        flags = "C" if x.flags.c_contiguous else ("F" if x.flags.f_contiguous else "N")
        return f"nd({x.dtype},{x.shape},{flags},{h},sum={numpy.round(numpy.abs(a).sum(), 8) if a.size else 0})"
    if isinstance(x, (float, numpy.floating)):
        return f"{type(x).__name__}:{round(float(x), 9)}"
    if isinstance(x, (complex, numpy.complexfloating)):
        return f"{type(x).__name__}:{round(x.real, 9)}+{round(x.imag, 9)}j"
    return f"{type(x).__name__}:{x!r}"


def attempt(label, f):
    try:
        res = f()
        print(label, "->", dig(res))
    except BaseException as e:  # noqa
        print(label, "-> EXC", type(e).__name__, repr(e.args))


# ---------------------------------------------------------------- svd_qn
print("=== svd_qn")


def random_qn_problem(rng, dl, dp, dr, qn_size, cplx, system, qmax=2):
    ql = rng.integers(0, qmax + 1, size=(dl, qn_size))
    qp = rng.integers(0, 2, size=(dp, qn_size))
    qr = rng.integers(0, qmax + 1, size=(dr, qn_size))
    qntot = numpy.full(qn_size, qmax)
    if system == "L":
        qnbigl = add_outer(ql, qp)
        qnbigr = qntot - qr
        shape = (dl, dp, dr)
    else:
        qnbigl = ql
        qnbigr = add_outer(qp, qntot - qr - qp[:1] * 0)
        shape = (dl, dp, dr)
    a = rng.standard_normal(shape)
    if cplx:
        a = a + 1j * rng.standard_normal(shape)
    # zero the symmetry-forbidden entries (not required by svd_qn, but realistic)
    mask = numpy.all(add_outer(qnbigl, qnbigr) == qntot, axis=-1).reshape(shape)
    a = a * mask
    return a, qnbigl, qnbigr, qntot


rng = numpy.random.default_rng(20240926)
case = 0
for cplx in (False, True):
    for system in ("L", "R"):
        for (dl, dp, dr, qs) in [(3, 2, 4, 1), (6, 3, 5, 2), (1, 2, 1, 1), (8, 2, 2, 1), (2, 2, 30, 1), (10, 3, 12, 1), (12, 4, 9, 2), (40, 2, 3, 1)]:
            a, qbl, qbr, qtot = random_qn_problem(rng, dl, dp, dr, qs, cplx, system)
            for kw in (
                dict(full_matrices=False),
                dict(full_matrices=True),
                dict(full_matrices=True, opt_full_matrices=False),
                dict(QR=True, system=system, full_matrices=False),
                dict(QR=True, system=system, full_matrices=True),
                dict(QR=True, system=None, full_matrices=False),
            ):
                case += 1
                numpy.random.seed(case)

                def run(a=a, qbl=qbl, qbr=qbr, qtot=qtot, kw=kw):
                    res = svd_qn(a, qbl, qbr, qtot, **kw)
                    extra = ()
                    if len(res) == 6:
                        extra = (res[1] is res[4], type(res[2]).__name__, type(res[5]).__name__,
                                 type(res[2][0]).__name__ if len(res[2]) else None)
                    return tuple(res) + extra

                attempt(f"svd_qn[{case}] cplx={cplx} sys={system} dims={(dl, dp, dr, qs)} kw={sorted(kw.items())}", run)

# degenerate singular values / zero qn / rank deficient
for n, cplx in [(4, False), (5, True)]:
    q0 = numpy.zeros((n, 1), dtype=int)
    qtot = numpy.zeros(1, dtype=int)
    mats = {
        "identity": numpy.eye(n),
        "degenerate": numpy.diag([2.0, 2.0, 1.0, 1.0, 1.0][:n]),
        "rank1": numpy.outer(numpy.arange(1, n + 1), numpy.ones(n)),
        "zeros": numpy.zeros((n, n)),
    }
    for name, m in mats.items():
        if cplx:
            m = m * (1 + 0.5j)
        attempt(f"svd_qn deg {name} n={n} cplx={cplx}",
                lambda m=m: tuple(svd_qn(m, q0, q0, qtot, full_matrices=False)))
        attempt(f"svd_qn deg full {name} n={n} cplx={cplx}",
                lambda m=m: tuple(svd_qn(m, q0, q0, qtot, full_matrices=True)))
# no valid quantum-number block
attempt("svd_qn invalid qn", lambda: svd_qn(numpy.ones((2, 2)), numpy.zeros((2, 1), dtype=int),
                                            numpy.zeros((2, 1), dtype=int), numpy.array([5])))
attempt("svd_qn invalid qn QR", lambda: svd_qn(numpy.ones((2, 2)), numpy.zeros((2, 1), dtype=int),
                                               numpy.zeros((2, 1), dtype=int), numpy.array([5]), QR=True, system="L"))
attempt("svd_qn bad qntot ndim", lambda: svd_qn(numpy.ones((2, 2)), numpy.zeros((2, 1), dtype=int),
                                                numpy.zeros((2, 1), dtype=int), numpy.array([[0]])))

# ---------------------------------------------------------------- compute_m_trunc
print("=== CompressConfig.compute_m_trunc")
sigmas = {
    "decay": numpy.array([0.9, 0.4, 0.1, 0.01, 1e-4]),
    "flat": numpy.ones(6) / numpy.sqrt(6),
    "one": numpy.array([1.0]),
    "unnormalised": numpy.array([30.0, 3.0, 0.3, 0.03]),
    "withzero": numpy.array([1.0, 0.0, 0.0]),
    "empty": numpy.array([]),
    "allzero": numpy.zeros(3),
}
for crit in (CompressCriteria.threshold, CompressCriteria.fixed, CompressCriteria.both, "threshold", "fixed", "both"):
    for thr in (1e-3, 0.05, 0.5, 0.95):
        for dims in (None, 3, [1, 2, 3, 4, 5, 6, 7], numpy.array([7, 6, 5, 1, 1, 2, 9])):
            cfg = CompressConfig(crit, threshold=thr, max_bonddim=4)
            if isinstance(dims, int):
                cfg.set_bonddim(7)
                cfg.max_dims[:] = dims
            elif dims is not None:
                cfg.max_dims = dims
            for sname, s in sigmas.items():
                for idx in (0, 2, 5):
                    for left in (True, False):
                        attempt(f"cmt crit={crit} thr={thr} dims={dims if dims is None or isinstance(dims, int) else list(dims)} "
                                f"s={sname} idx={idx} left={left}",
                                lambda: cfg.compute_m_trunc(s, idx, left))
            attempt("cmt idx out of range", lambda: cfg.compute_m_trunc(sigmas["decay"], 10, True))
# invalid criteria objects
for bad in (None, "nonsense-obj", 0, ["x"]):
    cfg = CompressConfig(CompressCriteria.fixed)
    cfg.set_bonddim(5)
    cfg.criteria = bad
    attempt(f"cmt bad criteria {bad!r}", lambda: cfg.compute_m_trunc(sigmas["decay"], 1, True))
cfg = CompressConfig(CompressCriteria.both)
cfg._threshold = 1.5
cfg.set_bonddim(5)
attempt("cmt both, bad threshold", lambda: cfg.compute_m_trunc(sigmas["decay"], 1, True))
cfg.criteria = CompressCriteria.fixed
attempt("cmt fixed, bad threshold is ignored", lambda: cfg.compute_m_trunc(sigmas["decay"], 1, True))

# ---------------------------------------------------------------- iter_idx_list
print("=== MatrixProduct.iter_idx_list")
for to_right in (True, False, None, 1, 0):
    for site_num in (1, 2, 7):
        for qnidx in sorted({0, site_num - 1, site_num // 2}):
            stub = SimpleNamespace(to_right=to_right, site_num=site_num, qnidx=qnidx)
            for full in (True, False):
                for stop_idx in (None, 0, 1, -1, site_num, site_num - 1, 100):
                    def run():
                        r = MatrixProduct.iter_idx_list(stub, full, stop_idx)
                        return (repr(r), list(r), r.start, r.stop, r.step)
                    attempt(f"iter to_right={to_right!r} n={site_num} qnidx={qnidx} full={full} stop={stop_idx}", run)
            attempt(f"iter positional to_right={to_right!r} n={site_num} qnidx={qnidx}",
                    lambda: repr(MatrixProduct.iter_idx_list(stub, full=True)))

# ---------------------------------------------------------------- truncate_tensors
print("=== truncate_tensors")
rng = numpy.random.default_rng(7)
for cplx in (False, True):
    for (r, c, k) in [(6, 5, 5), (3, 8, 3), (1, 1, 1)]:
        u = rng.standard_normal((r, k))
        v = rng.standard_normal((c, k))
        if cplx:
            u = u + 1j * rng.standard_normal((r, k))
            v = v - 1j * rng.standard_normal((c, k))
        s = numpy.sort(rng.random(k))[::-1]
        qnl_arr = rng.integers(0, 3, size=(k, 2))
        qnr_arr = 2 - qnl_arr
        for qnl, qnr in ((qnl_arr.tolist(), qnr_arr.tolist()), (qnl_arr, qnr_arr),
                         ([tuple(q) for q in qnl_arr], [tuple(q) for q in qnr_arr])):
            for m in (0, 1, 2, k, k + 3, numpy.int64(2), -1, None):
                def run():
                    res = truncate_tensors(u, s, v, qnl, qnr, m)
                    views = (numpy.shares_memory(res[0], u), numpy.shares_memory(res[1], s),
                             numpy.shares_memory(res[2], v))
                    return tuple(res) + views
                attempt(f"trunc cplx={cplx} shape={(r, c, k)} qn={type(qnl).__name__} m={m!r}", run)
attempt("trunc bad m", lambda: truncate_tensors(numpy.eye(3), numpy.ones(3), numpy.eye(3), [0] * 3, [0] * 3, 1.5))
attempt("trunc str m", lambda: truncate_tensors(numpy.eye(3), numpy.ones(3), numpy.eye(3), [0] * 3, [0] * 3, "a"))

# ---------------------------------------------------------------- end to end: chains
print("=== Mps/MpDm/Mpo compress")


def mp_digest(mp):
    return (list(mp.bond_dims), [numpy.asarray(q) for q in mp.qn], mp.qnidx, mp.to_right,
            [numpy.asarray(mt.array) for mt in mp], mp.mp_norm if not mp.is_mpo else None)


case = 0
for model, nexciton in ((holstein_model, 1), (custom_model(n_phys_dim=(3, 3)), 1), (holstein_model, 0)):
    for cplx in (False, True):
        for to_right in (True, False):
            for setup in ("thr", "thr_big", "fixed", "fixed_list", "both", "temp_int", "temp_list", "temp_one"):
                case += 1
                numpy.random.seed(1000 + case)
                mps = Mps.random(model, nexciton, 12, percent=1.0)
                if cplx:
                    mps = mps.to_complex(inplace=True)
                    for i in range(len(mps)):
                        mps[i] = mps[i].array * numpy.exp(0.3j * (i + 1))
                mps.canonicalise()
                if mps.to_right != to_right:
                    mps.canonicalise()
                mps.normalize("mps_only")
                n = len(mps)
                temp = None
                if setup == "thr":
                    mps.compress_config = CompressConfig(CompressCriteria.threshold, threshold=0.05)
                elif setup == "thr_big":
                    mps.compress_config = CompressConfig(CompressCriteria.threshold, threshold=0.6)
                elif setup == "fixed":
                    mps.compress_config = CompressConfig(CompressCriteria.fixed, max_bonddim=3)
                elif setup == "fixed_list":
                    mps.compress_config = CompressConfig(CompressCriteria.fixed)
                    mps.compress_config.max_dims = numpy.array([1] + [(i % 4) + 1 for i in range(n - 1)] + [1])
                elif setup == "both":
                    mps.compress_config = CompressConfig(CompressCriteria.both, threshold=0.02, max_bonddim=4)
                elif setup == "temp_int":
                    temp = 2
                elif setup == "temp_list":
                    temp = [1] + [(i % 3) + 1 for i in range(n - 1)] + [1]
                elif setup == "temp_one":
                    temp = 1

                def run():
                    orig = mps.copy()
                    new, s = mps.copy().compress(temp_m_trunc=temp, ret_s=True)
                    dist = new.distance(orig)
                    return mp_digest(new) + (s, dist)

                attempt(f"mps[{case}] model={'holstein' if model is holstein_model else 'custom'} nex={nexciton} "
                        f"cplx={cplx} to_right={to_right} setup={setup}", run)

# mpdm and mpo
numpy.random.seed(77)
mps = Mps.random(holstein_model, 1, 8, percent=1.0)
mpdm = MpDm.from_mps(mps)
mpdm.canonicalise().normalize("mps_only")
mpdm.compress_config = CompressConfig(CompressCriteria.fixed, max_bonddim=5)
attempt("mpdm compress", lambda: mp_digest(mpdm.copy().compress()))
mpo = Mpo(holstein_model)
mpo2 = mpo @ mpo
mpo2.compress_config = CompressConfig(CompressCriteria.threshold, threshold=1e-4)
mpo2.canonicalise()
attempt("mpo compress thr", lambda: mp_digest(mpo2.copy().compress()))
mpo2.compress_config = CompressConfig(CompressCriteria.both, threshold=1e-4, max_bonddim=6)
attempt("mpo compress both", lambda: mp_digest(mpo2.copy().compress(ret_s=True)[0]) + (mpo2.copy().compress(ret_s=True)[1],))
# contract uses compress internally
mps.canonicalise().normalize("mps_only")
mps.compress_config = CompressConfig(CompressCriteria.fixed, max_bonddim=6)
attempt("mpo.contract(mps)", lambda: mp_digest(mpo.contract(mps)))
# canonicalise with stop_idx exercises iter_idx_list(stop_idx=...)
for stop in (0, 3, len(mps) - 1):
    def run():
        m = mps.copy()
        m.canonicalise(stop)
        return mp_digest(m)
    attempt(f"canonicalise stop_idx={stop}", run)

# ---------------------------------------------------------------- end to end: trees
print("=== TTNS compress")


def holstein_scheme3() -> BasisTree:
    node_list = [TreeNodeBasis([basis]) for basis in holstein_model.basis]
    root = node_list[3]
    root.add_child(node_list[0])
    root.add_child(node_list[6])
    for i in range(3):
        node_list[3 * i].add_child(node_list[3 * i + 1])
        node_list[3 * i + 1].add_child(node_list[3 * i + 2])
    return BasisTree(root)


def ttns_digest(t):
    return (list(t.bond_dims), [numpy.asarray(n.tensor) for n in t.node_list],
            [numpy.asarray(n.qn) for n in t.node_list], t.ttns_norm if hasattr(t, "ttns_norm") else None)


spin_basis = [BasisHalfSpin(i) for i in range(7)]
trees = {
    "holstein3": (holstein_scheme3, 1),
    "binary_spin": (lambda: BasisTree.binary(spin_basis), 0),
    "ternary_spin": (lambda: BasisTree.general_mctdh_tree(spin_basis, 3) if hasattr(BasisTree, "general_mctdh_tree") else BasisTree.binary(spin_basis), 0),
}
case = 0
for tname, (mk, qntot) in trees.items():
    for cplx in (False, True):
        for setup in ("temp_int", "temp_one", "temp_list", "thr", "fixed", "fixed_list", "both", "large"):
            case += 1
            numpy.random.seed(5000 + case)

            def run():
                basis = mk()
                ttns = TTNS.random(basis, qntot, 6)
                if cplx:
                    for i, node in enumerate(ttns.node_list):
                        node.tensor = node.tensor * numpy.exp(0.2j * (i + 1))
                ttns.canonicalise()
                nn = len(ttns.node_list)
                temp = None
                if setup == "temp_int":
                    temp = 3
                elif setup == "temp_one":
                    temp = 1
                elif setup == "temp_list":
                    temp = [(i % 3) + 1 for i in range(nn)]
                elif setup == "thr":
                    ttns.compress_config = CompressConfig(CompressCriteria.threshold, threshold=0.1)
                elif setup == "fixed":
                    ttns.compress_config = CompressConfig(CompressCriteria.fixed, max_bonddim=2)
                elif setup == "fixed_list":
                    ttns.compress_config = CompressConfig(CompressCriteria.fixed)
                    ttns.compress_config.max_dims = [(i % 4) + 1 for i in range(nn + 1)]
                elif setup == "both":
                    ttns.compress_config = CompressConfig(CompressCriteria.both, threshold=0.05, max_bonddim=3)
                elif setup == "large":
                    temp = 1000
                orig = ttns.copy()
                new, s = ttns.compress(temp_m_trunc=temp, ret_s=True)
                d = (new.todense().ravel() - orig.todense().ravel())
                return ttns_digest(new) + (s, float(numpy.linalg.norm(d)))

            attempt(f"ttns[{case}] tree={tname} cplx={cplx} setup={setup}", run)
