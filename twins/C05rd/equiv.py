import hashlib
import logging

import numpy as np

logging.disable(logging.CRITICAL)

from renormalizer.mps import Mps, Mpo, MpDm
from renormalizer.mps.lib import select_basis
from renormalizer.mps.matrix import asnumpy
from renormalizer.mps.gs import construct_mps_mpo, optimize_mps
from renormalizer.model import Model
from renormalizer.tests.parameter import holstein_model
from renormalizer.utils import CompressCriteria, CompressConfig
from renormalizer.utils.configs import OFS


def dig(a, nd=8):
    a = np.asarray(asnumpy(a))
    if a.dtype.kind == "c":
        r = np.round(np.stack([a.real, a.imag]), nd) + 0.0
    elif a.dtype.kind == "f":
        r = np.round(a, nd) + 0.0
    else:
        r = a
    r = np.ascontiguousarray(r)
    return f"{a.dtype}{a.shape}:{hashlib.md5(r.tobytes()).hexdigest()[:12]}"


def mp_digest(mp, nd=6):
    parts = [type(mp).__name__, str(list(mp.bond_dims)), str(mp.qnidx), str(mp.to_right),
             str([np.asarray(q).tolist() for q in mp.qn]), str(np.asarray(mp.qntot).tolist()),
             str(mp.dtype)]
    for m in mp:
        parts.append(dig(m, nd))
    return " ".join(parts)


def run(label, f):
    try:
        out = f()
    except Exception as e:  # noqa
        out = f"EXC {type(e).__name__}: {e}"
    print(label, "->", out)


# ---------------------------------------------------------------- select_basis
def sb_case(seed, n, nrow, ncomp_col, nqncomp, Mmax, percent, cplx, degenerate, comp):
    rng = np.random.RandomState(seed)
    vset = rng.rand(nrow, n)
    if cplx:
        vset = vset + 1j * rng.rand(nrow, n)
    if degenerate:
        sset = rng.randint(0, 3, size=n).astype(float) / 2
    else:
        sset = rng.rand(n)
    qnlist = rng.randint(0, 3, size=(n, nqncomp))
    if comp:
        compset = rng.rand(nrow + 1, ncomp_col)
        if cplx:
            compset = compset * (1 + 0.5j)
    else:
        compset = None
    v0, s0, q0 = vset.copy(), sset.copy(), qnlist.copy()
    c0 = None if compset is None else compset.copy()
    ms, dim, qn, cm = select_basis(vset, sset, qnlist, compset, Mmax, percent)
    unchanged = (np.array_equal(v0, vset) and np.array_equal(s0, sset) and np.array_equal(q0, qnlist)
                 and (c0 is None or np.array_equal(c0, compset)))
    return (dig(ms), dim, type(dim).__name__, np.asarray(qn).tolist(), np.asarray(qn).dtype.str,
            None if cm is None else dig(cm), unchanged, type(ms).__name__)


k = 0
for n, nrow, ncc in [(6, 6, 6), (7, 5, 4), (1, 3, 1), (12, 9, 10)]:
    for nqn in (1, 2):
        for Mmax in (0, 1, 3, 50):
            for percent in (0, 0.3, 1.0, 1):
                for cplx in (False, True):
                    for degenerate in (False, True):
                        for comp in (True, False):
                            k += 1
                            if k % 3 and n == 12:
                                continue
                            run(f"select_basis {n} {nrow} {ncc} {nqn} {Mmax} {percent} {cplx} {degenerate} {comp}",
                                lambda: sb_case(k, n, nrow, ncc, nqn, Mmax, percent, cplx, degenerate, comp))

# empty input
run("select_basis empty p0", lambda: [str(x) for x in select_basis(np.zeros((3, 0)), np.zeros(0), np.zeros((0, 1), dtype=int), None, 4, 0)])
run("select_basis empty p.5", lambda: [str(x) for x in select_basis(np.zeros((3, 0)), np.zeros(0), np.zeros((0, 1), dtype=int), None, 4, 0.5)])
# sset shorter than qnlist
run("select_basis short sset", lambda: select_basis(np.eye(3), np.ones(2), [[0], [1], [0]], None, 4, 0))
# python lists as qn / sset, default percent
run("select_basis lists", lambda: [str(x) for x in select_basis(np.eye(3)[:, ::-1], [0.5, 0.5, 0.7], [[0, 1], [1, 0], [0, 1]], np.eye(3) * 2, 2)])
# Mmax negative
run("select_basis neg M", lambda: [str(x) for x in select_basis(np.eye(3), np.array([0.5, 0.6, 0.7]), [[0], [1], [0]], np.eye(3), -1, 0.5)])

# ---------------------------------------------------------------- compute_m_trunc
rng = np.random.RandomState(7)
sigmas = [
    np.sort(rng.rand(8))[::-1],
    np.array([1.0]),
    np.array([0.5, 0.5, 0.5, 0.5]),
    np.array([1.0, 1e-3, 1e-3, 1e-9, 0.0]),
    np.array([]),
    np.zeros(3),
    np.array([0.3, np.nan, 0.1]),
    [3.0, 2.0, 1e-4],
    rng.rand(3, 3),
    (rng.rand(5) + 1j * rng.rand(5)),
]
for crit in (CompressCriteria.threshold, CompressCriteria.fixed, CompressCriteria.both, "threshold", "both"):
    for thr in (1e-3, 0.3, 0.5, 0.9):
        for M in (1, 2, 5, 100):
            cfg = CompressConfig(crit, threshold=thr, max_bonddim=M)
            for isig, sig in enumerate(sigmas):
                for idx in (0, 2):
                    for left in (True, False):
                        def f():
                            with np.errstate(all="ignore"):
                                r = cfg.compute_m_trunc(sig, idx, left)
                                t = cfg._threshold_m_trunc(sig)
                            return (r, type(r).__name__, t, type(t).__name__)
                        run(f"m_trunc {crit} {thr} {M} s{isig} {idx} {left} nodims", f)
            cfg.set_bonddim(5)
            cfg.max_dims[1] = 1
            cfg.max_dims[3] = 3
            for isig, sig in enumerate(sigmas):
                for idx in (0, 2, 4):
                    for left in (True, False):
                        def f():
                            with np.errstate(all="ignore"):
                                r = cfg.compute_m_trunc(sig, idx, left)
                                t = cfg._threshold_m_trunc(sig)
                            return (r, type(r).__name__, t, type(t).__name__)
                        run(f"m_trunc {crit} {thr} {M} s{isig} {idx} {left} dims", f)

cfg = CompressConfig(CompressCriteria.both, max_bonddim=3)
cfg.set_bonddim(4)
cfg.criteria = "nonsense"
run("m_trunc invalid criteria", lambda: cfg.compute_m_trunc(np.array([1.0, 0.1]), 0, True))
cfg.criteria = None
run("m_trunc None criteria", lambda: cfg.compute_m_trunc(np.array([1.0, 0.1]), 0, True))
cfg = CompressConfig(CompressCriteria.threshold)
cfg._threshold = 2
run("m_trunc bad threshold", lambda: cfg.compute_m_trunc(np.array([1.0, 0.1]), 0, True))
run("m_trunc bad threshold direct", lambda: cfg._threshold_m_trunc(np.array([1.0, 0.1])))
cfg.criteria = CompressCriteria.both
run("m_trunc bad threshold both", lambda: cfg.compute_m_trunc(np.array([1.0, 0.1]), 0, True))

# ---------------------------------------------------------------- variational_compress / _update_mps
model = holstein_model


def vc_case(kind, cplx, method, M, nexc, procedure_kind, with_guess):
    np.random.seed(11)
    if kind == "mpo":
        mps = Mpo(model)
    else:
        mps = Mps.random(model, nexc, 6)
        if kind == "mpdm":
            mps = MpDm.from_mps(mps)
        mps.canonicalise().normalize("mps_only")
    if cplx:
        mps = mps.to_complex(inplace=True)
    mpo = Mpo(model)
    if cplx:
        mpo = mpo.scale(-1.0j)
    if procedure_kind == "int":
        proc = [[M, 0.5], [M, 0.2]] + [[M, 0]] * 4
    elif procedure_kind == "cfg":
        proc = [[CompressConfig(CompressCriteria.fixed, max_bonddim=M), 0.4],
                [CompressConfig(CompressCriteria.both, threshold=1e-4, max_bonddim=M), 0],
                [CompressConfig(CompressCriteria.threshold, threshold=1e-4), 0],
                [CompressConfig(CompressCriteria.threshold, threshold=1e-4), 0]]
    else:
        proc = [[M, 0]]   # not converged -> warning branch
    mps.compress_config.vprocedure = proc
    mps.compress_config.vmethod = method
    mps.compress_config.vguess_m = (3, 4)
    mps.compress_config.bond_dim_max_value = M
    mps.compress_config.criteria = CompressCriteria.fixed
    self_before = mp_digest(mps, 10)
    guess = None
    if with_guess:
        guess = mpo.apply(mps, canonicalise=True).canonicalise().compress(temp_m_trunc=3)
        guess.compress_config.vprocedure = proc
        guess.compress_config.vmethod = method
    out = mps.variational_compress(mpo, guess=guess)
    # gauge invariant digest (the tensors themselves are only defined up to rotations inside
    # degenerate singular subspaces, which is not reproducible run-to-run)
    exact = mpo.apply(mps, canonicalise=True).canonicalise()
    ovlp = complex(exact.conj().dot(out))
    res = [type(out).__name__, list(out.bond_dims), out.qnidx, out.to_right,
           [sorted(map(tuple, np.asarray(q).tolist())) for q in out.qn], np.asarray(out.qntot).tolist(), out.dtype,
           "same-as-guess:%s" % (out is guess), "self-unchanged:%s" % (self_before == mp_digest(mps, 10)),
           str(out.compress_config.criteria), round(float(out.mp_norm), 7),
           round(float(out.distance(exact)), 6), round(ovlp.real, 6) + 0.0, round(ovlp.imag, 6) + 0.0]
    return " | ".join(map(str, res))


for kind, cplx, method, M, nexc, pk, wg in [
    ("mps", False, "2site", 8, 1, "int", False),
    ("mps", True, "2site", 6, 1, "cfg", False),
    ("mps", False, "1site", 8, 1, "int", True),
    ("mps", True, "1site", 5, 2, "cfg", True),
    ("mps", False, "2site", 4, 0, "short", False),
    ("mps", False, "1site", 4, 2, "short", True),
    ("mpdm", True, "2site", 8, 1, "int", False),
    ("mpdm", False, "1site", 8, 1, "cfg", True),
    ("mpo", False, "2site", 8, 0, "int", False),
    ("mps", False, "3site", 8, 1, "int", False),
]:
    run(f"vcompress {kind} {cplx} {method} {M} {nexc} {pk} {wg}",
        lambda: vc_case(kind, cplx, method, M, nexc, pk, wg))

np.random.seed(3)
_m = Mps.random(model, 1, 4)
run("vcompress no mpo", lambda: _m.variational_compress())


def bad_proc():
    np.random.seed(3)
    m = Mps.random(model, 1, 4)
    m.compress_config.vprocedure = [[3.5, 0]]
    return m.variational_compress(Mpo(model))


run("vcompress bad procedure", bad_proc)


def vc_ofs():
    np.random.seed(3)
    m = Mps.random(model, 1, 4)
    m.model = Model(m.model.basis, m.model.ham_terms)
    cfg = CompressConfig(CompressCriteria.fixed, max_bonddim=4, ofs=OFS.ofs_s)
    m.compress_config.vprocedure = [[cfg, 0]]
    mpo = Mpo(m.model)
    return m.variational_compress(mpo)


run("vcompress ofs", vc_ofs)


# _update_mps directly, both directions, single array and list (state averaged), 1site / 2site
def um_case(seed, to_right, nsite, as_list, cplx, percent, crit, M, nexc):
    np.random.seed(seed)
    rng = np.random.RandomState(seed)
    mps = Mps.random(model, nexc, 5)
    if cplx:
        mps = mps.to_complex(inplace=True)
    if to_right:
        mps.ensure_left_canonical()
    else:
        mps.ensure_right_canonical()
    mps.compress_config = CompressConfig(crit, threshold=1e-2, max_bonddim=M)
    out = []
    order = list(range(mps.site_num)) if mps.to_right else list(range(mps.site_num - 1, -1, -1))
    assert mps.qnidx == order[0]
    for imps in order:
        if nsite == 2:
            if mps.to_right:
                if imps == mps.site_num - 1:
                    break
                cidx = [imps, imps + 1]
            else:
                if imps == 0:
                    break
                cidx = [imps - 1, imps]
        else:
            cidx = [imps]
        qnbigl, qnbigr, qnmat = mps._get_big_qn(cidx)
        from renormalizer.mps.svd_qn import get_qn_mask
        mask = get_qn_mask(qnmat, mps.qntot)

        def rnd():
            c = rng.rand(*mask.shape)
            if cplx:
                c = c + 1j * rng.rand(*mask.shape)
            c[~mask] = 0
            return c
        if as_list:
            cstruct = [rnd() for _ in range(as_list)]
        else:
            cstruct = rnd()
        ret = mps._update_mps(cstruct, cidx, qnbigl, qnbigr, percent)
        if ret is None:
            out.append("None")
        else:
            out.append(type(ret).__name__ + str(len(ret)) + ",".join(dig(r) for r in ret))
        out.append(f"q{mps.qnidx}")
    out.append(mp_digest(mps, 8))
    out.append(str(mps.compress_config.max_dims))
    return " ".join(out)


seed = 100
for to_right in (True, False):
    for nsite in (1, 2):
        for as_list in (0, 1, 3):
            for cplx in (False, True):
                for percent, crit, M, nexc in [(0, CompressCriteria.fixed, 3, 1), (0.5, CompressCriteria.both, 4, 2),
                                               (0.2, CompressCriteria.threshold, 4, 0)]:
                    seed += 1
                    run(f"update_mps {to_right} {nsite} {as_list} {cplx} {percent} {crit} {M} {nexc}",
                        lambda: um_case(seed, to_right, nsite, as_list, cplx, percent, crit, M, nexc))

# _update_mps through DMRG (incl. state-averaged, OFS)
procedure = [[6, 0.4], [10, 0.2], [10, 0], [10, 0]]
for method in ("1site", "2site"):
    for nroots in (1, 3):
        def gs():
            np.random.seed(5)
            mps, mpo = construct_mps_mpo(model, procedure[0][0], 1)
            mps.optimize_config.procedure = procedure
            mps.optimize_config.method = method
            mps.optimize_config.nroots = nroots
            energies, out = optimize_mps(mps, mpo)
            outs = out if isinstance(out, list) else [out]
            return " ".join([str(np.round(np.asarray(energies[-1]), 8).tolist())] +
                            [str(list(o.bond_dims)) + str(round(float(o.expectation(mpo)), 8)) for o in outs])
        run(f"gs {method} {nroots}", gs)


def gs_ofs():
    np.random.seed(5)
    mps, mpo = construct_mps_mpo(model.switch_scheme(1), procedure[0][0], 1)
    mps.model = Model(mps.model.basis, mps.model.ham_terms)
    mps.optimize_config.procedure = procedure
    mps.optimize_config.method = "2site"
    mps.compress_config.ofs = OFS.ofs_s
    energies, out = optimize_mps(mps.copy(), mpo)
    return str(round(float(energies[-1]), 8)) + str([b.dof for b in out.model.basis]) + str(list(out.bond_dims))


run("gs ofs", gs_ofs)
