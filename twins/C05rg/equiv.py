"""Equivalence digest for the C05rg refactoring.

Exercises
  * CompressConfig._threshold_m_trunc   (renormalizer/utils/configs.py)
  * MatrixProduct._update_ms            (renormalizer/mps/mp.py)
  * Mps.calc_bond_entropy               (renormalizer/mps/mps.py)
  * truncate_tensors                    (renormalizer/tn/tree.py)
and prints a deterministic digest (exact byte hashes + rounded numbers).
"""
import sys, types
_pt = types.ModuleType("print_tree"); _pt.print_tree = object; sys.modules.setdefault("print_tree", _pt)

import hashlib
import logging
import warnings

import numpy as np

logging.disable(logging.CRITICAL)
warnings.filterwarnings("ignore")

from renormalizer.model import Model, Op
from renormalizer.model.basis import BasisSHO, BasisSimpleElectron, BasisHalfSpin, BasisMultiElectron
from renormalizer.mps import Mps, Mpo, MpDm
from renormalizer.mps import svd_qn
from renormalizer.utils import CompressConfig, CompressCriteria
from renormalizer.tests import parameter
from renormalizer.tn.tree import truncate_tensors, TTNS, TTNO
from renormalizer.tn.treebase import BasisTree
from renormalizer.tn.node import TreeNodeBasis


def h(a):
    """exact digest of an array-like"""
    if a is None:
        return "None"
    if isinstance(a, (list, tuple)) and not isinstance(a, np.ndarray):
        return type(a).__name__ + "[" + ",".join(h(x) for x in a) + "]"
    a = np.asarray(a)
    b = np.ascontiguousarray(a)
    return f"{a.dtype}{a.shape}:{hashlib.sha1(b.tobytes()).hexdigest()[:12]}:{np.round(float(np.linalg.norm(b.astype(complex))), 8) if b.size else 0.0}"


def call(f, *args, **kwargs):
    try:
        return ("ok", f(*args, **kwargs))
    except BaseException as e:  # noqa
        return ("exc", type(e).__name__ + ":" + str(e)[:80])


def out(*args):
    print(*args)


# ----------------------------------------------------------------------------
# 1. CompressConfig._threshold_m_trunc  (+ compute_m_trunc for all 3 criteria)
# ----------------------------------------------------------------------------
out("== _threshold_m_trunc")
rng = np.random.RandomState(1234)
sigmas = {
    "sorted": np.sort(rng.rand(12))[::-1],
    "unsorted": rng.rand(7),
    "degenerate": np.array([0.5, 0.5, 0.5, 0.5]),
    "one": np.array([1.0]),
    "one_small": np.array([1e-30]),
    "zeros": np.zeros(3),
    "empty": np.array([]),
    "with_neg": np.array([0.9, -0.3, 0.2]),
    "2d": rng.rand(3, 4),
    "int": np.array([3, 2, 1]),
    "float32": rng.rand(6).astype(np.float32),
    "complex": rng.rand(4) + 1j * rng.rand(4),
    "nan": np.array([1.0, np.nan]),
    "inf": np.array([1.0, np.inf]),
    "list": [0.9, 0.3, 0.1],
    "tuple": (0.9, 0.3),
    "scalar0d": np.array(0.7),
    "exact_boundary": np.array([0.6, 0.8]),
    "geometric": 0.5 ** np.arange(20),
}
for thr in [1e-3, 0.1, 0.5, 0.6, 0.8, 0.999]:
    cfg = CompressConfig(CompressCriteria.threshold, threshold=thr)
    for name, s in sigmas.items():
        s_in = s.copy() if isinstance(s, np.ndarray) else s
        st, r = call(cfg._threshold_m_trunc, s_in)
        untouched = h(s_in) == h(s)
        out(thr, name, st, type(r).__name__, r, untouched)

for crit in [CompressCriteria.threshold, CompressCriteria.fixed, CompressCriteria.both, "threshold", "fixed", "both"]:
    cfg = CompressConfig(crit, threshold=0.05, max_bonddim=5)
    st, r = call(cfg.compute_m_trunc, sigmas["sorted"], 2, True)
    out("compute_m_trunc no-set", crit, st, type(r).__name__, r)
    cfg.set_bonddim(6)
    cfg.max_dims[3] = 3
    for name in ["sorted", "degenerate", "one", "empty", "geometric"]:
        for idx, left in [(2, True), (2, False), (3, False), (4, True), (0, 0), (-1, 1)]:
            st, r = call(cfg.compute_m_trunc, sigmas[name], idx, left)
            out("compute_m_trunc", crit, name, idx, left, st, type(r).__name__, r)

# ----------------------------------------------------------------------------
# 2. truncate_tensors
# ----------------------------------------------------------------------------
out("== truncate_tensors")
rng = np.random.RandomState(77)
for n, k, cplx in [(6, 5, False), (4, 4, True), (3, 1, False), (5, 0, False)]:
    u = rng.rand(n, k)
    v = rng.rand(n + 1, k)
    if cplx:
        u = u + 1j * rng.rand(n, k)
        v = v - 1j * rng.rand(n + 1, k)
    s = np.sort(rng.rand(k))[::-1]
    qnl = rng.randint(0, 3, size=(k, 2))
    qnr = 2 - qnl
    for m in [0, 1, 2, k, k + 3, -1, np.int64(2), None, np.inf, 2.0, True, "a"]:
        for aslist in (False, True):
            ql = [tuple(x) for x in qnl] if aslist else qnl
            qr = qnr.tolist() if aslist else qnr
            st, r = call(truncate_tensors, u, s, v, ql, qr, m)
            if st == "ok":
                assert isinstance(r, tuple) and len(r) == 5
                views = tuple(
                    bool(isinstance(x, np.ndarray) and x.size and np.shares_memory(x, y))
                    for x, y in zip(r, (u, s, v, ql, qr))
                )
                out(n, k, cplx, repr(m), aslist, st, [h(x) for x in r], [type(x).__name__ for x in r], views,
                    [x.flags["C_CONTIGUOUS"] if isinstance(x, np.ndarray) else None for x in r])
            else:
                out(n, k, cplx, repr(m), aslist, st, r)
# non-contiguous / transposed inputs
u = rng.rand(5, 6).T
v = rng.rand(4, 7)[:, ::2]
s = rng.rand(8)[::2]
r = truncate_tensors(u, s, v, np.arange(8).reshape(4, 2), np.arange(8)[::-1].reshape(4, 2), 3)
out("strided", [h(x) for x in r], [x.strides for x in r])


# ----------------------------------------------------------------------------
# models / states
# ----------------------------------------------------------------------------
def mp_digest(mp):
    return [h(mt.array) for mt in mp], [h(q) for q in mp.qn], mp.qnidx, mp.to_right, list(mp.bond_dims), h(mp.qntot)


def spin_model(n=5):
    basis = [BasisHalfSpin(i) for i in range(n)]
    ham = [Op("sigma_z sigma_z", [i, i + 1], 1.0) for i in range(n - 1)] + [Op("sigma_x", i, 0.7) for i in range(n)]
    return Model(basis, ham)


def spin_model_qn(n=6):
    basis = [BasisHalfSpin(i, sigmaqn=[-1, 1]) for i in range(n)]
    ham = [Op("sigma_+ sigma_-", [i, i + 1], 1.0, qn=[2, -2]) for i in range(n - 1)]
    ham += [Op("sigma_- sigma_+", [i, i + 1], 1.0, qn=[-2, 2]) for i in range(n - 1)]
    ham += [Op("sigma_z sigma_z", [i, i + 1], 0.5) for i in range(n - 1)]
    return Model(basis, ham)


def two_qn_model():
    basis = []
    for i in range(3):
        basis.append(BasisSimpleElectron(f"a{i}", sigmaqn=[[0, 0], [1, 0]]))
        basis.append(BasisSimpleElectron(f"b{i}", sigmaqn=[[0, 0], [0, 1]]))
        basis.append(BasisHalfSpin(f"v{i}", sigmaqn=[[0, 0], [0, 0]]))
    ham = []
    for i in range(2):
        ham.append(Op(r"a^\dagger a", [f"a{i}", f"a{i+1}"], 1.0, qn=[[1, 0], [-1, 0]]))
        ham.append(Op(r"a^\dagger a", [f"a{i+1}", f"a{i}"], 1.0, qn=[[1, 0], [-1, 0]]))
        ham.append(Op(r"a^\dagger a", [f"b{i}", f"b{i+1}"], 1.0, qn=[[0, 1], [0, -1]]))
        ham.append(Op(r"a^\dagger a", [f"b{i+1}", f"b{i}"], 1.0, qn=[[0, 1], [0, -1]]))
    for i in range(3):
        ham.append(Op("sigma_z", f"v{i}", 1.0, qn=[[0, 0]]))
        ham.append(Op(r"a^\dagger a sigma_x", [f"a{i}", f"a{i}", f"v{i}"], 0.3, qn=[[1, 0], [-1, 0], [0, 0]]))
    return Model(basis, ham)


holstein = parameter.holstein_model
MODELS = {
    "holstein": (holstein, 1),
    "spin": (spin_model(), 0),
    "spin_qn": (spin_model_qn(), 0),
    "spin_qn2": (spin_model_qn(), 2),
    "two_qn": (two_qn_model(), np.array([1, 1])),
}

# ----------------------------------------------------------------------------
# 3. _update_ms through compress / canonicalise (both directions, MPS/MPO/MpDm)
# ----------------------------------------------------------------------------
out("== _update_ms via compress / canonicalise")
for name, (model, qntot) in MODELS.items():
    np.random.seed(2024)
    mps0 = Mps.random(model, qntot, 12, percent=1.0)
    for cplx in (False, True):
        base = mps0.to_complex() if cplx else mps0.copy()
        if cplx:
            base = base.scale(np.exp(0.3j) * 1.7)
        for right_first in (True, False):
            mps = base.copy()
            if right_first:
                mps.ensure_right_canonical()
            else:
                mps.ensure_left_canonical()
            out(name, cplx, right_first, "cano", mp_digest(mps))
            for label, cfg, tm in [
                ("thr", CompressConfig(CompressCriteria.threshold, threshold=0.05), None),
                ("fixed", CompressConfig(CompressCriteria.fixed, max_bonddim=3), None),
                ("both", CompressConfig(CompressCriteria.both, threshold=0.2, max_bonddim=4), None),
                ("temp_int", CompressConfig(), 2),
                ("temp_list", CompressConfig(), [1, 2, 3, 4, 5, 6, 7, 8, 9, 10, 11, 12][: len(mps) + 1]),
                ("temp_inf", CompressConfig(), np.inf),
                ("m1", CompressConfig(CompressCriteria.fixed, max_bonddim=1), None),
            ]:
                m2 = mps.copy()
                m2.compress_config = cfg
                st, r = call(m2.compress, tm, True)
                if st == "ok":
                    out(name, cplx, right_first, label, mp_digest(r[0]), h(r[1]), h(cfg.max_dims))
                    # a second compress in the opposite direction
                    st2, r2 = call(m2.compress)
                    out("   again", st2, mp_digest(r2) if st2 == "ok" else r2)
                else:
                    out(name, cplx, right_first, label, st, r)
            # partial canonicalisation (stop_idx)
            m3 = mps.copy()
            st, r = call(m3.canonicalise, 2)
            out(name, cplx, right_first, "stop_idx", st, mp_digest(m3))

    # MPO / MpDm: the sigma=None branch with is_mpo True, and compress with is_mpo True
    mpo = Mpo(model)
    for right_first in (True, False):
        o = mpo.copy()
        if right_first:
            o.ensure_right_canonical()
        else:
            o.ensure_left_canonical()
        out(name, "mpo cano", right_first, mp_digest(o))
        o.compress_config = CompressConfig(CompressCriteria.fixed, max_bonddim=3)
        st, r = call(o.compress, None, True)
        out(name, "mpo compress", right_first, st, (mp_digest(r[0]), h(r[1])) if st == "ok" else r)
        o2 = mpo.copy().to_complex()
        o2 = o2.scale(1 + 2j)
        if right_first:
            o2.ensure_right_canonical()
        else:
            o2.ensure_left_canonical()
        o2.compress_config = CompressConfig(CompressCriteria.threshold, threshold=0.01)
        st, r = call(o2.compress)
        out(name, "mpo cplx compress", right_first, st, mp_digest(r) if st == "ok" else r)
    if name in ("holstein", "spin"):
        dm = MpDm.max_entangled_ex(model) if name == "holstein" else MpDm.max_entangled_gs(model)
        dm2 = mpo.contract(dm) if hasattr(mpo, "contract") else dm
        for right_first in (True, False):
            d = dm2.copy()
            if right_first:
                d.ensure_right_canonical()
            else:
                d.ensure_left_canonical()
            d.compress_config = CompressConfig(CompressCriteria.fixed, max_bonddim=2)
            st, r = call(d.compress)
            out(name, "mpdm", right_first, st, mp_digest(r) if st == "ok" else r)

# ----------------------------------------------------------------------------
# 4. _update_ms called directly: argument mutation, optional args, failure modes
# ----------------------------------------------------------------------------
out("== _update_ms direct")


def direct(mp, idx, use_sigma, use_qn, m_trunc, qr):
    """svd one site exactly like compress / _push_cano do, then call _update_ms"""
    mp = mp.copy()
    mp.qnidx = idx
    qnbigl, qnbigr, _ = mp._get_big_qn([idx])
    system = "L" if mp.to_right else "R"
    if qr:
        u, qnlset, v, qnrset = svd_qn.svd_qn(mp[idx].array, qnbigl, qnbigr, mp.qntot, QR=True, system=system,
                                            full_matrices=False)
        sigma = None
    else:
        u, sigma, qnlset, v, sigma, qnrset = svd_qn.svd_qn(mp[idx].array, qnbigl, qnbigr, mp.qntot, system=system,
                                                           full_matrices=False)
    vt = v.T
    u_before, vt_before = h(u), h(vt)
    sig_in = sigma if use_sigma else None
    sig_before = h(sig_in)
    kwargs = {}
    if use_qn:
        kwargs["qnlset"] = qnlset
        kwargs["qnrset"] = qnrset
    if m_trunc != "omit":
        kwargs["m_trunc"] = m_trunc
    st, r = call(mp._update_ms, idx, u, vt, sig_in, **kwargs)
    return (st, r, "u_changed" if h(u) != u_before else "u_same", h(u),
            "vt_changed" if h(vt) != vt_before else "vt_same", h(vt),
            sig_before == h(sig_in), h(qnlset), h(qnrset), mp_digest(mp),
            [mt.array.flags["OWNDATA"] for mt in mp], [mt.array.base is None for mt in mp])


np.random.seed(99)
for name in ["holstein", "spin_qn2", "two_qn"]:
    model, qntot = MODELS[name]
    mps_r = Mps.random(model, qntot, 10, percent=1.0)
    mps_c = mps_r.to_complex().scale(0.5 - 0.5j)
    mpo = Mpo(model)
    for obj_name, obj in [("mps", mps_r), ("mps_c", mps_c), ("mpo", mpo)]:
        for to_right in (True, False):
            o = obj.copy()
            if to_right:
                o.ensure_left_canonical() if False else None
                # canonical centre at site 0, sweeping right
                o.ensure_right_canonical()
                assert o.to_right
            else:
                o.ensure_left_canonical()
                assert not o.to_right
            n = len(o)
            for idx in ([0, 1, n - 2] if to_right else [n - 1, n - 2, 1]):
                # move the centre to idx first so that the state is canonical there
                o2 = o.copy()
                if to_right:
                    for j in range(0, idx):
                        o2._push_cano(j)
                else:
                    for j in range(n - 1, idx, -1):
                        o2._push_cano(j)
                for use_sigma, qr in [(True, False), (False, False), (False, True)]:
                    for use_qn in (True, False):
                        for m_trunc in ["omit", None, 1, 2, 1000, 0]:
                            res = direct(o2, idx, use_sigma, use_qn, m_trunc, qr)
                            out(name, obj_name, to_right, idx, use_sigma, qr, use_qn, m_trunc, res)
    # to_right is None
    o = mps_r.copy()
    o.ensure_left_canonical()
    o.to_right = None
    out(name, "to_right None", direct(o, len(o) - 1, True, True, 2, False)[:3])
    o = mpo.copy()
    o.ensure_left_canonical()
    o.to_right = None
    out(name, "mpo to_right None", direct(o, len(o) - 1, True, True, 2, False)[:3])
    out(name, "mpo to_right None nosigma", direct(o, len(o) - 1, False, True, 2, False)[:3])

# ----------------------------------------------------------------------------
# 5. Mps.calc_bond_entropy  (+ calc_bond_singular_values, calc_entropy("bond"))
# ----------------------------------------------------------------------------
out("== calc_bond_entropy")
for name, (model, qntot) in MODELS.items():
    np.random.seed(7)
    mps = Mps.random(model, qntot, 8, percent=1.0)
    for variant in ("real", "complex", "left", "unnormalised"):
        m = mps.copy()
        if variant == "complex":
            m = m.to_complex().scale(np.exp(1.1j))
        elif variant == "left":
            m.ensure_left_canonical()
        elif variant == "unnormalised":
            m = m.scale(3.0)
        before = mp_digest(m)
        s_arr = m.calc_bond_singular_values()
        e1 = m.calc_bond_entropy()
        e2 = m.calc_bond_entropy(s_arr)
        e3 = m.calc_entropy("bond")
        out(name, variant, h(s_arr), h(e1), h(e2), h(e3), type(e1).__name__, e1.dtype, np.round(e1, 10).tolist(),
            before == mp_digest(m))
m = Mps.random(holstein, 1, 4)
rng = np.random.RandomState(5)
weird = {
    "list_of_lists": [[0.8, 0.6], [1.0, 0.0]],
    "ragged": [np.array([1.0]), np.array([0.6, 0.8])],
    "empty_list": [],
    "empty_array": np.zeros((0, 3)),
    "one_row": np.array([[0.5, 0.5, 0.5, 0.5]]),
    "zeros": np.zeros((2, 3)),
    "1d": np.array([0.6, 0.8]),
    "tuple": (np.array([0.6, 0.8]),),
    "complex": (rng.rand(2, 3) + 1j * rng.rand(2, 3)),
    "negative": -rng.rand(2, 3),
    "big": rng.rand(3, 4) * 10,
    "generator": None,
    "float32": rng.rand(2, 3).astype(np.float32),
    "3d": rng.rand(2, 2, 2),
    "string": "ab",
}
for name, s in weird.items():
    if name == "generator":
        s = (np.array([x, 1 - x]) for x in (0.2, 0.5))
    if name == "list_of_lists":
        # lists do not support ** : must fail identically
        pass
    st, r = call(m.calc_bond_entropy, s)
    out("weird", name, st, (h(r), type(r).__name__, r.dtype, np.round(np.asarray(r, dtype=complex), 10).tolist()) if st == "ok" else r)

# ----------------------------------------------------------------------------
# 6. truncate_tensors through TTNS.compress / compress_node
# ----------------------------------------------------------------------------
out("== TTNS compress")


def ttns_digest(t):
    return [h(n.tensor) for n in t.node_list], [h(n.qn) for n in t.node_list], list(t.bond_dims)


def multi_basis_tree(basis_list):
    node1 = TreeNodeBasis([basis_list[0], basis_list[1]])
    node2 = TreeNodeBasis([basis_list[2]])
    node3 = TreeNodeBasis([basis_list[3]])
    node4 = TreeNodeBasis([basis_list[4], basis_list[5], basis_list[6]])
    node3.add_child(node2)
    node2.add_child(node1)
    node2.add_child(node4)
    return BasisTree(node3)


spins = [BasisHalfSpin(i) for i in range(7)]
spins_qn = [BasisHalfSpin(i, sigmaqn=[-1, 1]) for i in range(7)]
trees = {
    "binary": (BasisTree.binary(spins), 0),
    "multi": (multi_basis_tree(spins), 0),
    "linear": (BasisTree.linear(spins), 0),
    "binary_qn": (BasisTree.binary(spins_qn), 1),
    "multi_qn": (multi_basis_tree(spins_qn), -1),
}
for name, (tree, qntot) in trees.items():
    np.random.seed(11)
    t0 = TTNS.random(tree, qntot, 6, 1)
    for cplx in (False, True):
        tb = t0.copy()
        if cplx:
            tb = tb.scale(0.6 + 0.8j)
        tb.canonicalise()
        out(name, cplx, "cano", ttns_digest(tb))
        for label, cfg, tm in [
            ("thr", CompressConfig(CompressCriteria.threshold, threshold=0.1), None),
            ("fixed", CompressConfig(CompressCriteria.fixed, max_bonddim=3), None),
            ("both", CompressConfig(CompressCriteria.both, threshold=0.3, max_bonddim=4), None),
            ("temp_int", CompressConfig(), 2),
            ("temp_1", CompressConfig(), 1),
            ("temp_big", CompressConfig(), 100),
            ("temp_list", CompressConfig(), list(range(1, len(tb.node_list) + 2))),
        ]:
            t = tb.copy()
            t.compress_config = cfg
            st, r = call(t.compress, tm, True)
            out(name, cplx, label, st, (ttns_digest(r[0]), h(r[1])) if st == "ok" else r)
out("done")
