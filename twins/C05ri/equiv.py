import os, sys, hashlib
sys.path.insert(0, os.path.dirname(os.path.abspath(__file__)))  # print_tree stub

import numpy as np
from renormalizer import BasisHalfSpin, BasisSHO, BasisSimpleElectron, Model, Mpo, Mps, Op
from renormalizer.mps import MpDm
from renormalizer.model.model import heisenberg_ops
from renormalizer.mps.lib import select_basis
from renormalizer.mps import svd_qn as svd_qn_mod
from renormalizer.utils import CompressConfig, CompressCriteria, EvolveConfig, EvolveMethod
from renormalizer.tn.node import TreeNodeBasis
from renormalizer.tn.tree import TTNO, TTNS, TTNEnviron
from renormalizer.tn.treebase import BasisTree
from renormalizer.tn.gs import optimize_ttns


def dig(a):
    if a is None:
        return "None"
    a = np.asarray(a)
    if a.dtype == object:
        return repr(a.tolist())
    flat = np.round(np.abs(a).ravel().astype(float), 7)
    h = hashlib.md5(np.ascontiguousarray(np.round(a, 7) + 0.0).tobytes()).hexdigest()[:10]
    return f"{a.shape}|{a.dtype}|sum={np.round(np.sum(a), 7)}|abs={np.round(flat.sum(), 7)}|{h}"


def out(*args):
    print(*args)


# ---------------------------------------------------------------- select_basis
def run_select_basis():
    rng = np.random.RandomState(11)
    cases = []
    # (nrow, ncol, qn pool, comp columns or None, Mmax, percent, complex)
    cases.append((6, 6, [(0,), (1,), (2,)], 6, 4, 0, False))
    cases.append((6, 6, [(0,), (1,), (2,)], 6, 4, 0.5, False))
    cases.append((8, 8, [(0, 1), (1, 0), (1, 1)], 5, 5, 0.3, True))
    cases.append((8, 8, [(0, 1), (1, 0), (1, 1)], None, 20, 0.9, True))
    cases.append((5, 5, [(0,)], 5, 1, 0, False))
    cases.append((5, 5, [(0,)], 3, 5, 1.0, False))
    cases.append((7, 4, [(-1,), (1,)], 4, 3, 0.2, True))
    cases.append((1, 1, [(3,)], 1, 2, 0, False))
    cases.append((4, 4, [(0,), (1,)], 4, 0, 0, False))
    for icase, (nrow, ncol, pool, ncomp, mmax, percent, cplx) in enumerate(cases):
        vset = rng.rand(nrow, ncol) - 0.5
        if cplx:
            vset = vset + 1j * (rng.rand(nrow, ncol) - 0.5)
        sset = rng.rand(ncol)
        if icase % 2 == 1:
            # degenerate singular values
            sset = np.round(sset, 0) * 0.5 + 0.25
        qnlist = [pool[i] for i in rng.randint(0, len(pool), size=ncol)]
        if icase % 3 == 0:
            qnlist = [list(q) for q in qnlist]
        if ncomp is None:
            compset = None
        else:
            compset = rng.rand(nrow + 1, ncomp) - 0.5
            if cplx:
                compset = compset + 1j * rng.rand(nrow + 1, ncomp)
        v0, s0 = vset.copy(), sset.copy()
        c0 = None if compset is None else compset.copy()
        ms, mdim, mqn, comp = select_basis(vset, sset, qnlist, compset, mmax, percent=percent)
        out("select_basis", icase, type(ms).__name__, dig(getattr(ms, "array", ms)), mdim,
            np.asarray(mqn).shape, np.asarray(mqn).tolist(),
            type(comp).__name__, dig(None if comp is None else getattr(comp, "array", comp)))
        assert np.array_equal(v0, vset) and np.array_equal(s0, sset)
        assert compset is None or np.array_equal(c0, compset)
    # positional call of `percent`
    vset = rng.rand(4, 4)
    res = select_basis(vset, np.array([0.5, 0.5, 0.2, 0.9]), np.array([[0], [1], [0], [1]]), vset, 3, 0.5)
    out("select_basis positional", dig(res[0]), res[1], res[2].tolist(), dig(res[3]))
    # error: sset too short
    try:
        select_basis(vset, np.array([0.5, 0.2]), [(0,)] * 4, None, 3)
    except Exception as e:
        out("select_basis short sset", type(e).__name__)


# ---------------------------------------------------------------- chains
def mp_digest(mp):
    res = [f"qnidx={mp.qnidx} to_right={mp.to_right} dims={list(mp.bond_dims)}"]
    for i, mt in enumerate(mp):
        res.append(f"  {i} {dig(mt.array)} C={mt.array.flags['C_CONTIGUOUS']} qn={np.asarray(mp.qn[i]).tolist()}")
    res.append(f"  qn_last={np.asarray(mp.qn[-1]).tolist()}")
    return "\n".join(res)


def spin_model(n=6):
    basis = [BasisHalfSpin(i, sigmaqn=[-1, 1]) for i in range(n)]
    return Model(basis, heisenberg_ops(n))


def holstein(nmol=3, nlev=3):
    basis = []
    ham = []
    for i in range(nmol):
        basis.append(BasisSimpleElectron(f"e{i}"))
        basis.append(BasisSHO(f"v{i}", omega=1.0 + 0.1 * i, nbas=nlev))
        ham.append(Op(r"a^\dagger a", f"e{i}", 0.3 * i))
        ham.append(Op(r"b^\dagger b", f"v{i}", 1.0 + 0.1 * i))
        ham.append(Op(r"a^\dagger a", f"e{i}") * Op(r"b^\dagger+b", f"v{i}") * 0.7)
    for i in range(nmol - 1):
        ham.append(Op(r"a^\dagger a", [f"e{i}", f"e{i+1}"], -0.5))
        ham.append(Op(r"a^\dagger a", [f"e{i+1}", f"e{i}"], -0.5))
    return Model(basis, ham)


def run_chain():
    for name, model, qntot in [("spin", spin_model(), 0), ("spin2", spin_model(), 2), ("hol", holstein(), 1)]:
        np.random.seed(5)
        mps = Mps.random(model, qntot, 12, percent=1.0)
        out("chain", name, "random", mp_digest(mps))
        for cplx in [False, True]:
            m = mps.copy()
            if cplx:
                m = m.to_complex()
                for i in range(len(m)):
                    m[i] = m[i].array * np.exp(0.3j * (i + 1))
            # both sweep directions of the canonicalisation (-> _update_ms with sigma=None)
            m.ensure_left_canonical()
            out("chain", name, cplx, "left-cano", mp_digest(m))
            m.ensure_right_canonical()
            out("chain", name, cplx, "right-cano", mp_digest(m))
            for direction in ["r", "l"]:
                for trunc in [None, 1, 3, 100, [1, 2, 3, 4, 3, 2, 1][: len(m) + 1], np.arange(1, len(m) + 2)]:
                    m2 = m.copy()
                    if direction == "l":
                        m2.ensure_left_canonical()
                    else:
                        m2.ensure_right_canonical()
                    if trunc is None:
                        for cfg in [CompressConfig(CompressCriteria.threshold, threshold=0.2),
                                    CompressConfig(CompressCriteria.fixed, max_bonddim=2),
                                    CompressConfig(CompressCriteria.both, threshold=0.05, max_bonddim=3)]:
                            m3 = m2.copy()
                            m3.compress_config = cfg
                            r, s = m3.compress(ret_s=True)
                            assert r is m3
                            out("chain", name, cplx, direction, "cfg", cfg.criteria.name, mp_digest(m3), dig(s))
                    else:
                        r = m2.compress(temp_m_trunc=trunc)
                        assert r is m2
                        out("chain", name, cplx, direction, "trunc", repr(trunc), mp_digest(m2))
                        r, s = m2.compress(temp_m_trunc=trunc, ret_s=True)
                        out("chain", name, cplx, direction, "again", mp_digest(m2), dig(s))
        # MPO / MpDm: `is_mpo` branch of _update_ms
        mpo = Mpo(model)
        out("mpo", name, mp_digest(mpo))
        for trunc in [None, 2, 3]:
            o = mpo.copy()
            o.canonicalise()
            out("mpo cano", name, mp_digest(o))
            if trunc is None:
                o.compress_config = CompressConfig(CompressCriteria.threshold, threshold=1e-3)
                o.compress()
            else:
                o.compress(temp_m_trunc=trunc)
            out("mpo compress", name, trunc, mp_digest(o))
            o.canonicalise()
            o2, s = o.compress(temp_m_trunc=2, ret_s=True)
            out("mpo compress back", name, trunc, mp_digest(o2), dig(s))
        dm = MpDm.max_entangled_ex(model) if name == "hol" else MpDm.from_mps(mps)
        dm.canonicalise()
        dm.compress(temp_m_trunc=3)
        out("mpdm", name, mp_digest(dm))
        dm.canonicalise().compress(temp_m_trunc=2)
        out("mpdm", name, mp_digest(dm))

    # direct calls of _update_ms
    model = spin_model(5)
    for is_op in [False, True]:
        for to_right in [True, False]:
            for with_sigma in [True, False]:
                for m_trunc in [None, 2]:
                    np.random.seed(3)
                    mp = Mpo(model) if is_op else Mps.random(model, 1, 6, percent=1.0)
                    if to_right:
                        mp.ensure_right_canonical()
                    else:
                        mp.ensure_left_canonical()
                    idx = mp.qnidx
                    assert mp.to_right == to_right
                    qnbigl, qnbigr, _ = mp._get_big_qn([idx])
                    system = "L" if to_right else "R"
                    if with_sigma:
                        u, sigma, qnl, v, sigma, qnr = svd_qn_mod.svd_qn(
                            mp[idx].array, qnbigl, qnbigr, mp.qntot, system=system, full_matrices=False)
                    else:
                        u, qnl, v, qnr = svd_qn_mod.svd_qn(
                            mp[idx].array, qnbigl, qnbigr, mp.qntot, QR=True, system=system, full_matrices=False)
                        sigma = None
                    vt = v.T
                    for use_qn in [True, False]:
                        mp2 = mp.copy()
                        uu, vv = u.copy(), vt.copy()
                        ss = None if sigma is None else sigma.copy()
                        try:
                            if use_qn:
                                ret = mp2._update_ms(idx, uu, vv, ss, qnl, qnr, m_trunc)
                            else:
                                ret = mp2._update_ms(idx, uu, vv, sigma=ss, m_trunc=m_trunc)
                        except Exception as e:
                            ret = type(e).__name__ + ":" + str(e)
                        out("_update_ms", is_op, to_right, with_sigma, m_trunc, use_qn, ret, mp_digest(mp2))
                        # mutation of the arguments
                        out("   args", dig(uu), dig(vv), dig(ss))


# ---------------------------------------------------------------- trees
def tree_digest(ttns):
    res = []
    for i, node in enumerate(ttns.node_list):
        res.append(f"  {i} {dig(node.tensor)} C={node.tensor.flags['C_CONTIGUOUS']} qn={np.asarray(node.qn).tolist()}")
    return "\n".join(res)


def multi_basis_tree(basis_list):
    node1 = TreeNodeBasis([basis_list[0], basis_list[1]])
    node2 = TreeNodeBasis([basis_list[2]])
    node3 = TreeNodeBasis([basis_list[3]])
    node4 = TreeNodeBasis([basis_list[4], basis_list[5], basis_list[6]])
    node3.add_child(node2)
    node2.add_child(node1)
    node2.add_child(node4)
    return BasisTree(node3)


def two_site(ttns, node):
    parent = node.parent
    ichild = parent.children.index(node)
    return np.tensordot(node.tensor, np.moveaxis(parent.tensor, ichild, 0), axes=[-1, 0])


def run_tree():
    nspin = 7
    basis_list = [BasisHalfSpin(i) for i in range(nspin)]
    basis_list_qn = [BasisHalfSpin(i, sigmaqn=[-1, 1]) for i in range(nspin)]
    trees = [
        ("binary", BasisTree.binary(basis_list), 0),
        ("multi", multi_basis_tree(basis_list), 0),
        ("binary-qn", BasisTree.binary(basis_list_qn), 1),
        ("multi-qn", multi_basis_tree(basis_list_qn), -1),
        ("ternary-qn", BasisTree.general_mctdh(basis_list_qn, [[[0, 1], [2]], [[3, 4], [5, 6]]]) if False else BasisTree.linear(basis_list_qn), 3),
    ]
    for name, basis, qntot in trees:
        np.random.seed(9)
        ttns0 = TTNS.random(basis, qntot, 6, 1)
        out("tree", name, "random\n" + tree_digest(ttns0))
        n = len(ttns0.node_list)
        for cplx in [False, True]:
            base = ttns0.copy()
            if cplx:
                base = base.to_complex()
                for i, node in enumerate(base.node_list):
                    node.tensor = node.tensor * np.exp(0.2j * (i + 1))
            # compress: int, list, array, config
            for trunc in [1, 2, 100, list(range(1, n + 1)), np.arange(n, 0, -1), (2,) * n]:
                t = base.copy()
                r, s = t.compress(temp_m_trunc=trunc, ret_s=True)
                assert r is t
                out("tree", name, cplx, "compress", repr(trunc), "\n" + tree_digest(t), "\n  s", dig(s))
            for cfg in [CompressConfig(CompressCriteria.threshold, threshold=0.3),
                        CompressConfig(CompressCriteria.fixed, max_bonddim=2),
                        CompressConfig(CompressCriteria.both, threshold=0.01, max_bonddim=3)]:
                t = base.copy()
                t.compress_config = cfg
                t.compress()
                out("tree", name, cplx, "compress cfg", cfg.criteria.name, "\n" + tree_digest(t))
            # compress_node direct
            for cano_child in [True, False]:
                for trunc in [None, 2, [3] * n, 50]:
                    t = base.copy()
                    t.compress_config = CompressConfig(CompressCriteria.fixed, max_bonddim=2)
                    t.compress_config.set_bonddim(n + 1)
                    root = t.root
                    for ichild in range(len(root.children)):
                        if trunc is None:
                            s = t.compress_node(root, ichild, cano_child=cano_child)
                        else:
                            s = t.compress_node(root, ichild, trunc, cano_child)
                        out("tree", name, cplx, "compress_node", cano_child, repr(trunc), ichild, dig(s),
                            "\n" + tree_digest(t))
                        if cano_child:
                            t.push_cano_to_parent(root.children[ichild])
            try:
                base.copy().compress_node(base.root, 7, 2)
            except Exception as e:
                out("tree", name, "compress_node bad ichild", type(e).__name__)
            # update_2site direct
            for cano_parent in [True, False]:
                for m, percent in [(None, 0), (2, 0), (3, 0.5), ([2] * n, 0.2), (np.full(n, 4), 0), (100, 0)]:
                    t = base.copy()
                    t.compress_config = CompressConfig(CompressCriteria.threshold, threshold=0.1)
                    for node in t.root.children:
                        tensor = two_site(t, node)
                        if m is None and percent == 0:
                            ret = t.update_2site(node, tensor, cano_parent=cano_parent)
                        else:
                            ret = t.update_2site(node, tensor, m, percent, cano_parent)
                        out("tree", name, cplx, "update_2site", cano_parent, repr(m), percent, ret,
                            "\n" + tree_digest(t))
                        if not cano_parent:
                            t.push_cano_to_parent(node)
            t = base.copy()
            t.compress_config = CompressConfig(CompressCriteria.fixed, max_bonddim=3)
            node = t.root.children[0]
            t.update_2site(node, two_site(t, node))
            out("tree", name, cplx, "update_2site sets bonddim", t.compress_config.max_dims.tolist(), "\n" + tree_digest(t))
            try:
                t.update_2site(t.root, t.root.tensor)
            except Exception as e:
                out("tree", name, "update_2site root", type(e).__name__)

    # whole algorithms on top of update_2site
    basis = multi_basis_tree(basis_list)
    ham_terms = heisenberg_ops(nspin)
    ttno = TTNO(basis, ham_terms)
    np.random.seed(4)
    ttns = TTNS.random(basis, qntot=0, m_max=8)
    ttns.optimize_config.procedure = [[4, 0.4], [6, 0.2], [8, 0]]
    e = optimize_ttns(ttns, ttno)
    out("gs", np.round(e, 6).tolist(), [node.tensor.shape for node in ttns.node_list])
    ttns.evolve_config = EvolveConfig(EvolveMethod.tdvp_ps2)
    ttns.compress_config = CompressConfig(CompressCriteria.fixed, max_bonddim=5)
    np.random.seed(4)
    ttns2 = TTNS.random(basis, qntot=0, m_max=5)
    ttns2.evolve_config = EvolveConfig(EvolveMethod.tdvp_ps2)
    ttns2.compress_config = CompressConfig(CompressCriteria.both, threshold=1e-4, max_bonddim=4)
    for i in range(3):
        ttns2 = ttns2.evolve(ttno, 0.1)
        out("tdvp_ps2", i, np.round(ttns2.expectation(ttno), 6), [node.tensor.shape for node in ttns2.node_list])


if __name__ == "__main__":
    np.set_printoptions(precision=7, suppress=True)
    run_select_basis()
    run_chain()
    run_tree()
