# stub of the third-party module `print_tree` (not installed here)
def print_tree(*args, **kwargs):
    return None
