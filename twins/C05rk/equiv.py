import os
import sys
import types

_here = os.path.dirname(os.path.abspath(__file__))
if _here not in sys.path:
    sys.path.insert(0, _here)
try:
    import print_tree  # noqa: F401  (stub next to this file)
except ImportError:
    _pt = types.ModuleType("print_tree")
    _pt.print_tree = object
    sys.modules.setdefault("print_tree", _pt)

import logging

logging.disable(logging.CRITICAL)

import numpy as np

from renormalizer import Mps, Mpo, Model, Op, BasisHalfSpin
from renormalizer.mps import MpDm
from renormalizer.model.model import heisenberg_ops
from renormalizer.utils import CompressConfig, CompressCriteria
from renormalizer.tests.parameter import holstein_model
from renormalizer.tn.node import TreeNodeBasis, TreeNodeTensor
from renormalizer.tn.tree import TTNS, TTNO, compress_recursion
from renormalizer.tn.treebase import BasisTree


def r(x, nd=8):
    a = np.asarray(x)
    if np.iscomplexobj(a):
        a = np.stack([a.real, a.imag], axis=-1)
    a = np.round(a.astype(float), nd) + 0.0
    return a.tolist()


def out(*args):
    print(*args)


def call(label, fn):
    try:
        res = fn()
    except BaseException as e:  # noqa
        out(label, "EXC", type(e).__name__, str(e)[:80])
        return None
    return res


# ------------------------------------------------------------------ configs
def config_section():
    rng = np.random.RandomState(11)
    sigmas = [
        np.sort(rng.rand(7))[::-1],
        np.array([1.0]),
        np.array([0.5, 0.5, 0.5, 0.5]),
        np.array([3.0, 3.0, 1e-3, 1e-3, 1e-9]),
        np.sort(rng.rand(20))[::-1] * np.logspace(0, -8, 20),
        np.array([]),
        np.array([0.0, 0.0]),
        np.array([2.0, np.nan]),
    ]
    max_dims_cases = [
        None,
        np.array([1, 3, 5, 2, 40, 1]),
        [1, 4, 4, 2, 4, 2],
    ]
    for crit in (CompressCriteria.threshold, CompressCriteria.fixed, CompressCriteria.both, "fixed", "both"):
        for thr in (1e-3, 0.3, 0.7):
            for imd, md in enumerate(max_dims_cases):
                for isig, sigma in enumerate(sigmas):
                    for idx in (0, 2, 4):
                        for left in (True, False):
                            cfg = CompressConfig(crit, threshold=thr, max_bonddim=6)
                            if md is not None:
                                cfg.max_dims = md
                            lab = f"m_trunc {cfg.criteria.name} {thr} md{imd} s{isig} {idx} {left}"
                            with np.errstate(all="ignore"):
                                res = call(lab, lambda: cfg.compute_m_trunc(sigma, idx, left))
                            if res is not None:
                                out(lab, type(res).__name__, int(res))
    # set_bonddim then compute
    cfg = CompressConfig(CompressCriteria.both, threshold=0.2, max_bonddim=3)
    cfg.set_bonddim(5)
    out("set_bonddim", cfg.max_dims.tolist(), cfg.compute_m_trunc(sigmas[0], 1, True))
    # invalid criteria
    cfg = CompressConfig()
    cfg.criteria = "threshold"
    call("invalid criteria", lambda: out("invalid ->", cfg.compute_m_trunc(sigmas[0], 1, True)))
    cfg.criteria = None
    call("None criteria", lambda: out("None ->", cfg.compute_m_trunc(sigmas[0], 1, True)))

    # update
    def mk(crit, thr, md):
        c = CompressConfig(crit, threshold=thr, max_bonddim=7)
        c.max_dims = md
        return c

    mds = [None, np.array([1, 5, 2, 1]), np.array([1, 2, 9, 1]), [1, 3, 3, 1], np.array([1, 2])]
    for c1 in (CompressCriteria.threshold, CompressCriteria.fixed, CompressCriteria.both):
        for c2 in (CompressCriteria.threshold, CompressCriteria.fixed, CompressCriteria.both):
            for t1, t2 in ((1e-3, 1e-2), (0.5, 1e-4), (0.1, 0.1)):
                for i1, md1 in enumerate(mds):
                    for i2, md2 in enumerate(mds):
                        a = mk(c1, t1, None if md1 is None else (md1.copy() if hasattr(md1, "copy") else list(md1)))
                        b = mk(c2, t2, md2)
                        lab = f"update {c1.name} {c2.name} {t1} {t2} {i1} {i2}"
                        ret = call(lab, lambda: a.update(b))
                        same = a.max_dims is b.max_dims
                        out(lab, ret, a.threshold, b.threshold,
                            None if a.max_dims is None else (type(a.max_dims).__name__, np.asarray(a.max_dims).tolist()),
                            None if b.max_dims is None else np.asarray(b.max_dims).tolist(), same)
    # update with an invalid threshold sneaked into other
    a = CompressConfig()
    b = CompressConfig()
    b._threshold = 0
    call("update bad thr", lambda: a.update(b))
    out("after bad", a.threshold, a.max_dims)
    # copy after update stays independent
    a = mk(CompressCriteria.fixed, 0.1, np.array([1, 2, 3]))
    c = a.copy()
    c.update(mk(CompressCriteria.fixed, 0.01, np.array([4, 1, 1])))
    out("copy/update", a.max_dims.tolist(), a.threshold, c.max_dims.tolist(), c.threshold)


# ------------------------------------------------------------------ chains
def mp_digest(label, mp, extra=None):
    out(label, type(mp).__name__, "dims", list(mp.bond_dims), "to_right", mp.to_right, "qnidx", mp.qnidx,
        "qntot", np.asarray(mp.qntot).tolist(), "dtype", str(mp.dtype))
    out(label, "qn", [np.asarray(q).tolist() for q in mp.qn])
    for i, mt in enumerate(mp):
        arr = np.asarray(mt.array)
        out(label, i, arr.shape, str(arr.dtype), r(np.abs(arr).sum()), r(np.abs(arr).ravel()[:6]))
    out(label, "norm", r(mp.mp_norm))
    if extra is not None:
        out(label, "s", extra.shape, str(extra.dtype), r(extra))
    if mp.compress_config.max_dims is not None:
        out(label, "max_dims", np.asarray(mp.compress_config.max_dims).tolist())


def spin_model(n):
    basis = [BasisHalfSpin(i, sigmaqn=[1, -1]) for i in range(n)]
    return Model(basis, heisenberg_ops(n))


def chain_section():
    spin6 = spin_model(6)
    cases = []
    np.random.seed(3)
    cases.append(("hol_q1", Mps.random(holstein_model, 1, 12)))
    np.random.seed(4)
    cases.append(("spin_q0", Mps.random(spin6, 0, 8)))
    np.random.seed(5)
    cases.append(("spin_q2", Mps.random(spin6, 2, 8)))
    np.random.seed(6)
    m = Mps.random(spin6, 0, 8).to_complex(inplace=True)
    for i in range(len(m)):
        m[i] = np.asarray(m[i].array) * np.exp(0.3j * (i + 1))
    cases.append(("spin_cplx", m))
    np.random.seed(7)
    cases.append(("mpdm", MpDm.from_mps(Mps.random(holstein_model, 1, 6))))
    cases.append(("mpo", Mpo(holstein_model)))
    cases.append(("mpo_spin", Mpo(spin6)))
    np.random.seed(8)
    cases.append(("one_site", Mps.random(spin_model(1), 1, 3)))
    np.random.seed(9)
    cases.append(("two_site", Mps.random(spin_model(2), 0, 3)))

    def configs(n):
        yield "thr1e-3", CompressConfig(CompressCriteria.threshold, threshold=1e-3), None
        yield "thr0.3", CompressConfig(CompressCriteria.threshold, threshold=0.3), None
        yield "fixed3", CompressConfig(CompressCriteria.fixed, max_bonddim=3), None
        yield "fixed100", CompressConfig(CompressCriteria.fixed, max_bonddim=100), None
        c = CompressConfig(CompressCriteria.fixed, max_bonddim=5)
        c.max_dims = np.array([1] + [2 + (i % 3) for i in range(n - 1)] + [1])
        yield "fixedlist", c, None
        yield "both", CompressConfig(CompressCriteria.both, threshold=0.05, max_bonddim=4), None
        yield "tmp_int", CompressConfig(CompressCriteria.threshold, threshold=1e-3), 2
        yield "tmp_int1", CompressConfig(CompressCriteria.fixed, max_bonddim=7), 1
        yield "tmp_big", CompressConfig(CompressCriteria.fixed, max_bonddim=2), 1000
        yield "tmp_list", CompressConfig(), [1] + [3 - (i % 2) for i in range(n - 1)] + [1]
        yield "tmp_tuple", CompressConfig(), tuple([1] + [2 + (i % 2) for i in range(n - 1)] + [1])
        yield "tmp_arr", CompressConfig(), np.array([1] + [1 + (i % 4) for i in range(n - 1)] + [1])
        yield "tmp_npint", CompressConfig(), np.int64(3)
        yield "tmp_short", CompressConfig(), [1, 2]
        yield "tmp_zero", CompressConfig(), 0

    for name, mp0 in cases:
        for direction in ("L", "R"):
            base = mp0.copy()
            if len(base) > 1:
                if direction == "L":
                    base.ensure_left_canonical()
                else:
                    base.ensure_right_canonical()
            elif direction == "R":
                continue
            for cname, cfg, tmp in configs(len(base)):
                for ret_s in (False, True):
                    lab = f"chain {name} {direction} {cname} s{int(ret_s)}"
                    mp = base.copy()
                    mp.compress_config = cfg.copy()
                    res = call(lab, lambda: mp.compress(temp_m_trunc=tmp, ret_s=ret_s))
                    if res is None:
                        call(lab + " after-exc", lambda: mp_digest(lab + " after-exc", mp))
                        continue
                    if ret_s:
                        new, s = res
                    else:
                        new, s = res, None
                    out(lab, "same object", new is mp)
                    mp_digest(lab, new, s)
                    if not base.is_mpo:
                        out(lab, "dist", r(new.distance(base), 7))
    # wrong qnidx -> assertion
    np.random.seed(10)
    mp = Mps.random(spin6, 0, 4)
    mp.ensure_left_canonical()
    mp.qnidx = 2
    call("chain bad qnidx", lambda: mp.compress())
    # non-canonical mps -> assertion from the canonical check
    np.random.seed(12)
    mp = Mps.random(spin6, 0, 4)
    mp.ensure_right_canonical()
    mp[2] = np.asarray(mp[2].array) * 2.0
    call("chain not canonical", lambda: mp.compress())


# ------------------------------------------------------------------ trees
def multi_basis_tree(basis_list):
    node1 = TreeNodeBasis([basis_list[0], basis_list[1]])
    node2 = TreeNodeBasis([basis_list[2]])
    node3 = TreeNodeBasis([basis_list[3]])
    node4 = TreeNodeBasis([basis_list[4], basis_list[5], basis_list[6]])
    node3.add_child(node2)
    node2.add_child(node1)
    node2.add_child(node4)
    return BasisTree(node3)


def holstein_scheme3():
    node_list = [TreeNodeBasis([basis]) for basis in holstein_model.basis]
    root = node_list[3]
    root.add_child(node_list[0])
    root.add_child(node_list[6])
    for i in range(3):
        node_list[3 * i].add_child(node_list[3 * i + 1])
        node_list[3 * i + 1].add_child(node_list[3 * i + 2])
    return BasisTree(root)


def ttns_digest(label, ttns, s=None, s_dict=None):
    out(label, "dims", list(ttns.bond_dims))
    for i, node in enumerate(ttns.node_list):
        arr = np.asarray(node.tensor)
        out(label, i, arr.shape, str(arr.dtype), np.asarray(node.qn).tolist(), r(np.abs(arr).sum()),
            r(np.abs(arr).ravel()[:5]))
    out(label, "norm", r(ttns.ttns_norm))
    if s is not None:
        out(label, "s", s.shape, r(s))
    if s_dict is not None:
        out(label, "s_dict", [(ttns.node_idx[k], r(v)) for k, v in s_dict.items()])
    if ttns.compress_config.max_dims is not None:
        out(label, "max_dims", np.asarray(ttns.compress_config.max_dims).tolist())


def tree_section():
    nspin = 7
    bl = [BasisHalfSpin(i) for i in range(nspin)]
    blq = [BasisHalfSpin(i, sigmaqn=[1, -1]) for i in range(nspin)]
    trees = [
        ("binary", BasisTree.binary(bl), 0, 6),
        ("multi", multi_basis_tree(bl), 0, 6),
        ("binary_q", BasisTree.binary(blq), 1, 6),
        ("multi_q", multi_basis_tree(blq), -1, 5),
        ("linear_q", BasisTree.linear(blq[:5]), 1, 4),
        ("ternary", BasisTree.general_mctdh(bl, [3, 3]) if False else BasisTree.binary(bl[:3]), 0, 3),
        ("hol3", holstein_scheme3(), 1, 6),
    ]
    for it, (name, basis, qntot, m) in enumerate(trees):
        np.random.seed(20 + it)
        base = TTNS.random(basis, qntot, m)
        n = len(base.node_list)
        dense0 = base.todense().ravel() if n <= 9 and name != "hol3" else None
        cfgs = [
            ("thr1e-2", CompressConfig(CompressCriteria.threshold, threshold=1e-2), None),
            ("thr0.4", CompressConfig(CompressCriteria.threshold, threshold=0.4), None),
            ("fixed2", CompressConfig(CompressCriteria.fixed, max_bonddim=2), None),
            ("both", CompressConfig(CompressCriteria.both, threshold=0.1, max_bonddim=3), None),
            ("tmp_int", CompressConfig(), 3),
            ("tmp_one", CompressConfig(), 1),
            ("tmp_list", CompressConfig(), [2 + (i % 2) for i in range(n - 1)] + [1]),
            ("tmp_arr", CompressConfig(), np.array([1 + (i % 3) for i in range(n - 1)] + [1])),
            ("tmp_short", CompressConfig(), [2]),
        ]
        c = CompressConfig(CompressCriteria.fixed)
        c.max_dims = [3 - (i % 2) for i in range(n - 1)] + [1]
        cfgs.append(("fixedlist", c, None))
        for cname, cfg, tmp in cfgs:
            for ret_s in (False, True):
                lab = f"tree {name} {cname} s{int(ret_s)}"
                t = base.copy()
                t.compress_config = cfg.copy()
                res = call(lab, lambda: t.compress(temp_m_trunc=tmp, ret_s=ret_s))
                if res is None:
                    continue
                if ret_s:
                    new, s = res
                else:
                    new, s = res, None
                out(lab, "same", new is t)
                ttns_digest(lab, new, s)
                if dense0 is not None:
                    d = new.todense().ravel()
                    out(lab, "dist", r(np.linalg.norm(d - dense0), 7))
        # direct calls of compress_recursion (incl. complex tensors and sub-tree start)
        t = base.copy()
        for node in t.node_list:
            node.tensor = np.asarray(node.tensor) * np.exp(0.2j)
        t.compress_config = CompressConfig(CompressCriteria.threshold, threshold=0.05)
        s_dict = {}
        lab = f"rec {name} cplx"
        ret = call(lab, lambda: compress_recursion(t.root, t, s_dict))
        out(lab, "ret", ret)
        ttns_digest(lab, t, s_dict=s_dict)
        t = base.copy()
        t.compress_config = CompressConfig(CompressCriteria.fixed, max_bonddim=2)
        t.compress_config.set_bonddim(n + 1)
        s_dict = {"pre": np.array([7.0])}
        s_dict.pop("pre")
        lab = f"rec {name} tmp2"
        ret = call(lab, lambda: compress_recursion(t.root, t, s_dict, 2))
        out(lab, "ret", ret)
        ttns_digest(lab, t, s_dict=s_dict)
        # leaf node -> assertion
        leaf = [nd for nd in t.node_list if not nd.children][0]
        sd = {}
        call(f"rec {name} leaf", lambda: compress_recursion(leaf, t, sd, None))
        out(f"rec {name} leaf s_dict", len(sd))
    # single-node tree
    basis = BasisTree(TreeNodeBasis([BasisHalfSpin(0), BasisHalfSpin(1)]))
    np.random.seed(40)
    t = TTNS.random(basis, 0, 2)
    call("tree single", lambda: t.compress())
    call("tree single s", lambda: t.compress(ret_s=True))


if __name__ == "__main__":
    config_section()
    chain_section()
    tree_section()
