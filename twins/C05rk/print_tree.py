"""Stub of the optional third-party module ``print_tree`` (not installed here)."""


class print_tree:  # noqa: N801
    def __init__(self, *args, **kwargs):
        pass
